"""
C20 -- supervisorctl reports what the server said.

Implementation side: the real `supervisorctl.Controller` (real `ClientOptions`, non-interactive, real
`DefaultControllerPlugin`) runs `onecmd(line)`; the only fake is the server proxy returned by
`options.getServerProxy()` (answers scripted: value / per-process result list / Fault / ProtocolError /
socket.error) and, for `tail -f`, the socket of `http_client.HTTPHandler` (the scripted HTTP response is pushed
through the real response parser into the real `Listener`).
Correspondence: same command line and the same consumed answers to Model/Ctl.lean (exit status, calls made with
arguments, everything written with ctl.output, whether anything went to stderr).
Monitors: the property statement evaluated on the implementation's observables, independent of the model.
End-to-end level (c20_e2e.py): the same cases once more with the real ServerProxy, SupervisorTransport, HTTP channel,
XML-RPC handler, marshaller and deferred-response producer between the client and the answers (given at once or by a deferred
callback, faults included), compared with the direct run and judged by the same monitors; and the real rpcinterface over
scripted processes, what it answered being recorded above the XML-RPC layer.
World part (c20_world.py): the proxy is backed by a simulated supervisord with a state of its own (groups, processes in
states, pending configuration changes or none, failures, shutting down) that answers with the semantics of
rpcinterface.py; the statement is evaluated on (command line, world) -- which names are unknown, which processes the
names select, what the server's result for each is -- independently of the calls the client chose to make, for every
name-taking action, with unknown names mixed with known ones and the no-op situations (no processes, no pending
change, everything already in the requested state) in the population.
"""
import errno as _errno, io, os, re, socket, sys
from framework import Infra

ID = 'C20'
LEAN_PROPS = 'SupervisorModel.Props.C20'
DRIVER = 'drv_c20'
GENERATED = ['Ctl']
TRUSTED = [
    "scripted / world level: the scripted proxy stands for xmlrpclib.ServerProxy + SupervisorTransport: a call either returns "
    "the unmarshalled value or raises Fault / ProtocolError / socket.error.  End-to-end level (c20_e2e.py): nothing stands for "
    "them -- the real ServerProxy, SupervisorTransport, deferring_http_channel, supervisor_xmlrpc_handler, xmlrpc_marshal and "
    "DeferredXMLRPCResponse are run (in-process socketpair; only TCP itself is absent); the Lean model does not cover that layer "
    "(C12's model and theorems do: raised_fault_is_answered_as_fault, every_request_on_a_connection_is_dispatched)",
    "end-to-end level: ProtocolError 401 and socket errors of a script are produced below the XML-RPC layer (a canned 401 "
    "response / the connection's getresponse raising); an HTTP 500 is the real one (the registered method raises); the "
    "real-interface sublevel uses supervisor.tests.base dummy processes whose state follows a script (props.c12.WaitWorld)",
    "tail -f / maintail -f: the HTTP transport is one scripted response pushed through the real "
    "http_client.HTTPHandler parser and Listener; sockets, asyncore.loop and Ctrl-C are not modelled",
    "not modelled: interactive mode (prompts, re-authentication), help, fg, open, quit/exit/EOF, readline completion "
    "(fg: only its exits before the interactive part -- unknown name, process not running, wrong number of names -- "
    "are run, against the world monitors, without correspondence)",
    "the simulated supervisord of c20_world.py stands for rpcinterface.py + supervisord: BAD_NAME for unknown names, the "
    "isRunning / isNotRunning / isSignallable filters of the group and all methods, ALREADY_STARTED / NOT_RUNNING / "
    "ALREADY_ADDED / STILL_RUNNING, diff_to_active for reloadConfig, SHUTDOWN_STATE for every method while shutting "
    "down, 404/410 of the logtail handlers; per-process failures are attributes of the world",
    "Python runtime parts modelled by hand and exercised by correspondence only: str.split()/strip() on ASCII "
    "white space, %-formatting with left-justified fields, int() of a signed decimal, repr() of a plain ASCII word, "
    "set iteration order in do_update (compared after sorting the 'no such group' lines)",
]
ASSUMPTIONS = [
    "sys.stdout has a UTF-8 encoding (check_encoding prints nothing)",
    "command lines use ASCII white space only; names contain no white space",
    "answers have the type the RPC method documents (a result list where one is documented, ...)",
]
RULE = ("a case = (command line, answers the proxy gives in the order asked); systematic part: for every base "
        "command line of the 17 actions and every call position, every Faults code (+ an unknown one) as a Fault, "
        "ProtocolError 401/500, socket errors ECONNREFUSED/ENOENT/EPIPE, a wrong API version, and for list answers "
        "every status code at every position of lists of length 0-3; random part: random argument lists (valid, "
        "malformed, unknown actions) with random answers, result lists of length 0-4; non-trivial = at least one "
        "RPC call was made; distinct = distinct (line, answers); world part: 11 fixed worlds (no processes; no processes "
        "but an available group; one group; mixed states without / with pending added, changed, removed groups; all "
        "stopped; all running; per-process failures incl. STOPPING / UNKNOWN / BACKOFF; equal process names in several "
        "groups; shutting down) x the 12 name-taking actions (start stop restart signal status pid clear add remove "
        "update tail fg) x name lists built from known and unknown names (each alone, known+unknown in both orders, two "
        "unknown, two known, known-unknown-known, a name twice, all, unknown+all), plus random worlds (45 % with a "
        "pending configuration change, 4 % shutting down, 5 % reporting another API version) with random name lists (about half "
        "the names unknown); wrong API version: 16 version strings on both sides of the client's (older, newer, newer but lower as "
        "a string, other spellings) at every getVersion position, and three fixed worlds; end-to-end level: the whole corpus (four "
        "delivery plans each), every all-ok base line, half of the single-failure and systematic world cases and a fifth of the "
        "random ones are run once more through the real XML-RPC layer, every answer given at once or by a deferred callback that "
        "answers (or raises its fault) at poll 0-3; plus the real rpcinterface over 1-3 scripted processes (states after "
        "spawn()/stop(), a trajectory of states per main-loop iteration, spawn errors) for start/stop/restart/status/pid/signal/"
        "clear with known, group, all and unknown names")

URL = 'http://localhost:65532'
API = '3.0'
# the "wrong API version" server state: versions on BOTH sides of the client's -- older, newer, newer but lower when compared
# as strings ('10.0' < '3.0'), longer / shorter spellings, not a number at all
WRONG_API = ['2.0', '1.0', '', '3.1', '4.0', '30.0', '10.0', '3.0.1', '3', '3.00', '03.0', '3.0 ', '2.9', '3.0a', 'three', '9']

# ---------------------------------------------------------------------------------------------------
# encoding of cases for the model
def hx(s):
    b = s.encode('utf-8')
    return b.hex() if b else '-'


def esc(s):
    out = []
    for c in s:
        o = ord(c)
        if c == '\\': out.append('\\\\')
        elif 0x20 <= o < 0x7f: out.append(c)
        else: out.append('\\u{%x}' % o)
    return ''.join(out)


def tok(a):
    k = a[0]
    if k == 'V': return 'V'
    if k == 'S': return 'S:' + hx(a[1])
    if k == 'I': return 'I:%d' % a[1]
    if k == 'R': return 'R:' + ','.join('%s/%s/%d/%s' % (hx(g), hx(n), st, hx(d)) for g, n, st, d in a[1])
    if k == 'P': return 'P:' + ','.join(_info(i) for i in a[1])
    if k == 'Q': return 'Q:' + _info(a[1])
    if k == 'C': return 'C:' + ','.join('%s/%s/%d/%d/%d/%d' % (hx(g), hx(n), iu, au, gp, pp) for g, n, iu, au, gp, pp in a[1])
    if k == 'L': return 'L:' + ';'.join(','.join(hx(x) for x in part) for part in a[1:4])
    if k == 'F': return 'F:%d:%s' % (a[1], hx(a[2]))
    if k == 'H': return 'H:%d' % a[1]
    if k == 'E': return 'E:%d' % a[1]
    raise ValueError(a)


def _info(i):
    g, n, st, sn, d, pid = i
    return '%s/%s/%d/%s/%s/%d' % (hx(g), hx(n), st, hx(sn), hx(d), pid)


def op_line(line, script):
    return ' '.join(['cmd', hx(line)] + [tok(a) for a in script])


# ---------------------------------------------------------------------------------------------------
# the scripted server
class ScriptEnd(BaseException):
    pass


class Run:
    """one onecmd() against a source of answers; source(method, args, index) -> answer tuple"""
    def __init__(self, source):
        self.source = source
        self.log = []          # (method, [str args], answer)

    def answer(self, meth, args):
        a = self.source(meth, args, len(self.log))
        if a is None:
            raise ScriptEnd()
        self.log.append((meth, [str(x) for x in args], a))
        return a


CUR = None   # the Run in progress (read by the scripted HTTP handler)


def realize(a):
    from supervisor.compat import xmlrpclib
    k = a[0]
    if k == 'V': return True
    if k in ('S', 'I'): return a[1]
    if k == 'R': return [{'group': g, 'name': n, 'status': st, 'description': d} for g, n, st, d in a[1]]
    if k == 'P': return [_infod(i) for i in a[1]]
    if k == 'Q': return _infod(a[1])
    if k == 'C': return [{'group': g, 'name': n, 'inuse': bool(iu), 'autostart': bool(au), 'group_prio': gp, 'process_prio': pp}
                         for g, n, iu, au, gp, pp in a[1]]
    if k == 'L': return [[list(a[1]), list(a[2]), list(a[3])]]
    if k == 'F': raise xmlrpclib.Fault(a[1], a[2])
    if k == 'H': raise xmlrpclib.ProtocolError('127.0.0.1/RPC2', a[1], 'status %d' % a[1], {})
    if k == 'E': raise socket.error(a[1], os.strerror(a[1]))
    raise ValueError(a)


def _infod(i):
    g, n, st, sn, d, pid = i
    return {'group': g, 'name': n, 'state': st, 'statename': sn, 'description': d, 'pid': pid,
            'start': 0, 'stop': 0, 'now': 0, 'spawnerr': '', 'exitstatus': 0, 'logfile': '', 'stdout_logfile': '',
            'stderr_logfile': ''}


class Namespace:
    def __init__(self, run): self._run = run
    def __getattr__(self, meth):
        if meth.startswith('_'):
            raise AttributeError(meth)
        run = self._run
        def call(*args):
            return realize(run.answer(meth, args))
        return call


class Proxy:
    def __init__(self, run):
        self.supervisor = Namespace(run)


class _Out(io.StringIO):
    encoding = 'utf-8'


_HANDLER = None


def scripted_handler_class():
    """real http_client.HTTPHandler with the socket replaced by a scripted response"""
    global _HANDLER
    if _HANDLER is not None:
        return _HANDLER
    from supervisor import http_client
    Real = http_client.HTTPHandler
    class NoSock:
        def close(self): pass
        def fileno(self): return -1
    class Scripted(Real):
        def __init__(self, listener, username='', password=None, conn=None, map=None):
            Real.__init__(self, listener, username, password, None, {})
            self.socket = NoSock()
            self._raw = b''
        def get(self, serverurl, path=''):
            self.url = serverurl + path
            a = CUR.answer('GET', (path,))
            if a[0] == 'I':
                status, body = a[1], b'gone'
            elif a[0] == 'S':
                status, body = 200, a[1].encode('utf-8')
            else:
                raise ScriptEnd()
            self._raw = (b'HTTP/1.1 %d X\r\nContent-Length: %d\r\n\r\n' % (status, len(body))) + body
            while self._raw and not getattr(self, '_closed', False):
                self.handle_read()
        def recv(self, n):
            d, self._raw = self._raw[:n], self._raw[n:]
            return d
        def close(self):
            self._closed = True
            self.listener.close(self.url)
    _HANDLER = Scripted
    return Scripted


_OPTIONS = None


def make_controller(run, proxy=None):
    global _OPTIONS
    from supervisor import supervisorctl, http_client
    from supervisor.options import ClientOptions
    if _OPTIONS is None:
        o = ClientOptions()
        o.interactive = False
        o.prompt = 'supervisor'
        o.serverurl = URL
        o.username = 'u'
        o.password = 'p'
        o.history_file = None
        _OPTIONS = o
        http_client.HTTPHandler = scripted_handler_class()
    o = _OPTIONS
    o.getServerProxy = proxy or (lambda: Proxy(run))
    return supervisorctl.Controller(o, stdout=io.StringIO())


ERRLINE = re.compile(r"^error: <class '([^']+)'>, .*$")


def canon_exc(name):
    import builtins
    short = name.split('.')[-1]
    cls = getattr(builtins, short, None)
    if isinstance(cls, type) and issubclass(cls, OSError):
        return 'OSError'
    return short


def canon_out(text):
    lines = text.split('\n')
    res = []
    for l in lines:
        m = ERRLINE.match(l)
        res.append('error: ' + canon_exc(m.group(1)) if m else l)
    # do_update iterates a set: order the run of "no such group" lines
    i = 0
    P = 'ERROR: no such group: '
    while i < len(res):
        j = i
        while j < len(res) and res[j].startswith(P):
            j += 1
        if j - i > 1:
            res[i:j] = sorted(res[i:j])
        i = max(j, i + 1)
    return '\n'.join(res)


class Result:
    pass


def execute(line, source, e2e=None, real=None):
    """run the real Controller.onecmd(line); returns Result(exit, out, stderr, log, escaped, left)
    e2e:  None -- the proxy hands the answers over directly;  a list -- the end-to-end level (c20_e2e.py): the answers are given
          by a namespace registered with the real XML-RPC handler, answer k at once (None) or by a deferred callback at poll e2e[k]
    real: (real interface object, ticks) -- end to end against that interface; the log is what it answered"""
    global CUR
    run = Run(source)
    proxy = None
    if e2e is not None or real is not None:
        from props import c20_e2e as E
        import props.c20 as B
        ns = E.recorded_ns(real[0], run) if real is not None else E.scripted_ns_class()(run, list(e2e), B)
        proxy = E.proxy_factory(B, run, E.make_handler(ns), real[1] if real is not None else None)
    ctl = make_controller(run, proxy)
    CUR = run
    so, se = sys.stdout, sys.stderr
    sys.stdout, sys.stderr = _Out(), _Out()
    r = Result()
    r.escaped = None
    r.ended = False
    try:
        try:
            ctl.onecmd(line)
        except ScriptEnd:
            r.ended = True
        except BaseException as ex:      # the property: nothing escapes onecmd
            r.escaped = type(ex).__name__
        r.proc_out, r.proc_err = sys.stdout.getvalue(), sys.stderr.getvalue()
    finally:
        sys.stdout, sys.stderr = so, se
        CUR = None
        if proxy is not None:
            E.close_all(run)
    r.more_calls = getattr(run, 'more_calls', None)
    r.deferred = getattr(run, 'deferred', 0)
    r.connections = getattr(run, 'connections', 0)
    r.requests_on_wire = getattr(run, 'requests_on_wire', 0)
    if real is not None:
        run.log = [(m, a, ans if ans is not None else ('H', 500)) for m, a, ans in run.log]
    r.exit = ctl.exitstatus
    r.raw = ctl.stdout.getvalue()
    r.out = canon_out(r.raw)
    r.log = run.log
    r.line = line
    return r


def impl_line(r, left=0):
    calls = ';'.join('%s(%s)' % (m, ','.join(a)) for m, a, _ in r.log)
    return 'exit=%d stderr=%d left=%d calls=%s out=%s' % (r.exit, 1 if r.proc_err else 0, left, esc(calls), esc(r.out))


# ---------------------------------------------------------------------------------------------------
# the property, stated over observables (independent of the Lean model)
def faults():
    from supervisor import xmlrpc
    return {k: v for k, v in vars(xmlrpc.Faults).items() if not k.startswith('_')}


def fname(code):
    for k, v in faults().items():
        if v == code:
            return k
    return 'CODE%d' % code


ACTIONS = ['start', 'stop', 'restart', 'signal', 'status', 'pid', 'clear', 'add', 'remove', 'update', 'reread',
           'avail', 'tail', 'maintail', 'shutdown', 'reload', 'version']
LIST_METHODS = {'startAllProcesses', 'startProcessGroup', 'stopAllProcesses', 'stopProcessGroup',
                'signalAllProcesses', 'signalProcessGroup', 'clearAllProcessLogs'}
PER_NAME = {'start': ('startProcess', 'startProcessGroup', 'startAllProcesses'),
            'stop': ('stopProcess', 'stopProcessGroup', 'stopAllProcesses'),
            'signal': ('signalProcess', 'signalProcessGroup', 'signalAllProcesses'),
            'clear': ('clearProcessLogs', None, 'clearAllProcessLogs')}
WS = ' \t\n\r\x0b\x0c\x1c\x1d\x1e\x1f'


def spec_split_namespec(ns):
    """the namespec rules of the statement: name | group:name | group:* (or group:)"""
    if ':' in ns:
        g, p = ns.split(':', 1)
        return (g, None) if p in ('', '*') else (g, p)
    return ns, ns


def tolerated(action, meth):
    """the four tolerated answers of the statement, each only in its own action: as the fault of a per-process
    request or as the status of an entry of a result list"""
    F = faults()
    if action in ('start', 'restart') and meth in ('startProcess', 'startProcessGroup', 'startAllProcesses'):
        return F['ALREADY_STARTED']
    if action in ('stop', 'restart') and meth in ('stopProcess', 'stopProcessGroup', 'stopAllProcesses'):
        return F['NOT_RUNNING']
    if action == 'add' and meth == 'addProcessGroup':
        return F['ALREADY_ADDED']
    if action == 'shutdown' and meth == 'shutdown':
        return F['SHUTDOWN_STATE']
    return None


def tolerated_elsewhere(meth):
    F = faults()
    return {'start': F['ALREADY_STARTED'], 'stop': F['NOT_RUNNING'], 'addP': F['ALREADY_ADDED'], 'shut': F['SHUTDOWN_STATE']}.get(meth[:4])


def parse_cmd(line):
    l = line.strip(WS)
    i = 0
    while i < len(l) and (l[i].isascii() and (l[i].isalnum() or l[i] == '_')):
        i += 1
    return l[:i], l[i:].strip(WS)


def args_ok(action, arg):
    """well-formed argument list of an action, as its help text documents it"""
    a = arg.split()
    if action in ('start', 'stop', 'restart', 'clear', 'add', 'remove'):
        return len(a) >= 1
    if action == 'signal':
        return len(a) >= 2
    if action in ('shutdown', 'reload', 'version', 'reread', 'avail'):
        return arg == ''
    if action in ('status', 'pid', 'update'):
        return True
    if action == 'maintail':
        if len(a) == 0: return True
        return len(a) == 1 and a[0].startswith('-') and (a[0][1:] == 'f' or _isint(a[0][1:]))
    if action == 'tail':
        if not 1 <= len(a) <= 3: return False
        if a[0].startswith('-'):
            if not (a[0][1:] == 'f' or _isint(a[0][1:])): return False
            a = a[1:]
        if len(a) == 1: return True
        if len(a) == 0: return False
        return a[-1].lower() in ('stdout', 'stderr')
    return False


def _isint(s):
    try:
        int(s); return True
    except ValueError:
        return False


def call_verdict(action, meth, ans):
    """'ok' (success or the action's tolerated answer), 'fail' (refused / failed / unreachable), 'grey'"""
    k = ans[0]
    if k in ('H', 'E'):
        return 'fail', 'transport:%s' % ('ProtocolError%d' % ans[1] if k == 'H' else 'socket')
    if k == 'F':
        if ans[1] == faults()['SUCCESS']:
            return 'grey', ''          # no server raises SUCCESS as a fault: outside the statement
        if ans[1] == tolerated(action, meth) and meth not in LIST_METHODS:
            return 'ok', ''
        if ans[1] == tolerated_elsewhere(meth):
            return 'grey', ''
        return 'fail', 'fault:%s:%s' % (meth, fname(ans[1]))
    if meth == 'getVersion':
        return ('ok', '') if ans[1] == API else ('fail', 'api-version')
    if meth == 'GET':
        return ('ok', '') if k == 'S' else ('fail', 'tailf-http-error')
    if k == 'R':
        S = faults()['SUCCESS']
        verdict = ('ok', '')
        for g, n, st, d in ans[1]:
            if st == S or st == tolerated(action, meth):
                continue
            if st == tolerated_elsewhere(meth):
                if verdict[0] == 'ok': verdict = ('grey', '')
                continue
            return 'fail', 'result:%s:%s' % (meth, fname(st))
    else:
        verdict = ('ok', '')
    return verdict


FAILWORDS = ('ERROR', 'error:', 'Error', 'refused connection', 'no such file', 'Sorry', 'requires authentication',
             'No such process', 'has problems')


def monitor(ctx, r, script, level=None):
    """evaluate the statement on one executed case; reports through ctx.violation
    level: None (answers handed over by the scripted proxy) | {'e2e': plan} | {'real': process scripts} (c20_e2e.py)"""
    inp = dict({'line': r.line, 'script': [list(a) for a in script]}, **(level or {}))
    via = '' if not level else ' (through the real XML-RPC layer: %s)' % (
        'answers at once (-) / deferred, at poll d: %s' % ' '.join('-' if d is None else str(d) for d in level['e2e'][:len(script)]) if 'e2e' in level
        else 'the real rpcinterface over processes following %r' % (level['real'],))
    def bad(kind, what):
        ctx.violation(kind, what + via + ' [line %r, exit %d, output %r]' % (r.line, r.exit, r.raw[:300]), inp)
    if r.escaped:
        bad('exception-escaped-onecmd:' + r.escaped, 'an exception left Controller.onecmd instead of an error line')
        return
    if 'Traceback (most recent call last)' in r.raw or 'Traceback (most recent call last)' in r.proc_err:
        bad('traceback-printed', 'a traceback was printed')
    cmd, arg = parse_cmd(r.line)
    if cmd == '' and r.line.strip(WS) == '':
        if r.exit != 0 or r.raw:
            bad('empty-line-not-ignored', 'an empty line produced output or a status')
        return
    if cmd not in ACTIONS:
        if r.exit == 0:
            bad('unknown-action-exit-zero', 'unknown action accepted silently')
        return
    action = cmd
    names = arg.split()
    F = faults()
    verdicts = [call_verdict(action, m, a) for m, _, a in r.log]
    fails = [v[1] for v in verdicts if v[0] == 'fail']
    greys = [v for v in verdicts if v[0] == 'grey']
    wf = args_ok(action, arg)
    up = all(a == ('S', API) for m, _, a in r.log if m == 'getVersion')
    # --- wrong API version (older or newer): the action is not carried out
    last_version = None
    for m, a_, ans in r.log:
        if m == 'getVersion':
            last_version = ans
        elif last_version is not None and last_version[0] == 'S' and last_version[1] != API:
            bad('request-after-wrong-api-version', 'the daemon reported API version %r (the client speaks %r) and %s%r was requested all the same'
                % (last_version[1], API, m, tuple(a_)))
            break
    # --- update: results of stopProcessGroup that the client does not look at
    if action == 'update':
        ignored = [fname(st) for m, _, a in r.log if m == 'stopProcessGroup' and a[0] == 'R'
                   for g, n, st, d in a[1] if st in server_codes()['stop'] and st not in (F['SUCCESS'], F['NOT_RUNNING'])]
        if ignored and r.exit == 0:
            bad('update-ignores-failed-stop', 'update: stopProcessGroup answered %s for a process, exit status 0 and no error line' % ignored[0])
        # statuses no stop request can carry are outside the statement
        fails = [f for f in fails if not f.startswith('result:stopProcessGroup:')]
        if any(m == 'stopProcessGroup' and a[0] == 'R' and any(st != F['SUCCESS'] for _, _, st, _ in a[1]) for m, _, a in r.log):
            greys = greys or [('grey', '')]
    # --- status: which processes are shown, unknown names, exit 3
    stopped_shown = unknown_name = pid_zero = False
    if action == 'status' and len(r.log) >= 2 and r.log[1][2][0] == 'P' and up:
        from supervisor import states
        infos = r.log[1][2][1]
        if not names or 'all' in names:
            shown = list(infos)
        else:
            shown = []
            for n in names:
                g, p = spec_split_namespec(n)
                hit = [i for i in infos if i[0] == g and (p is None or i[1] == p)]
                if not hit:
                    unknown_name = True
                shown.extend(hit)
        stopped_shown = any(i[2] in states.STOPPED_STATES for i in shown)
        want = [(i[0] if i[0] == i[1] else '%s:%s' % (i[0], i[1])) for i in shown]
        got = [l for l in r.out.split('\n') if l and 'ERROR (no such' not in l]
        if len(got) != len(want) or any(not g_.startswith(w) for g_, w in zip(got, want)):
            bad('status-selection', 'status shows %r, the namespec rules select %r' % (got, want))
        if stopped_shown and r.exit != 3:
            bad('status-exit-not-3', 'a shown process is in a stopped state but the exit status is %d' % r.exit)
    if action == 'update' and r.log and r.log[0][2][0] == 'L':
        asked = set(names)
        if asked and 'all' not in asked and len(r.log) >= 2 and r.log[1][0] == 'getAllProcessInfo' and r.log[1][2][0] == 'P':
            known = {i[0] for i in r.log[1][2][1]} | set(r.log[0][2][1])
            unknown_name = bool(asked - known)
    if action == 'pid':
        for m, _, a in r.log:
            if m == 'getProcessInfo' and a[0] == 'Q' and a[1][5] == 0:
                pid_zero = True
    # --- implication 2: any failure => non-zero
    if r.exit == 0:
        if fails:
            bad('failure-exit-zero:' + fails[0], 'the server refused/failed (%s) but the exit status is 0' % fails[0])
        if not wf:
            bad('malformed-args-exit-zero:' + action, 'malformed argument list %r accepted with exit status 0' % arg)
        if unknown_name:
            bad('unknown-name-exit-zero:' + action, 'an unknown name was given but the exit status is 0')
    # --- implication 1: everything succeeded => zero
    if r.exit != 0 and wf and not fails and not greys and not stopped_shown and not unknown_name and not pid_zero:
        bad('success-exit-nonzero:' + action, 'every request succeeded but the exit status is %d' % r.exit)
    # --- a failure is never silent: an error-ish line, the server's own fault text, or a message on stderr
    if fails and r.exit != 0:
        texts = [a[2] for _, _, a in r.log if a[0] == 'F'] + [d for _, _, a in r.log if a[0] == 'R' for _, _, st, d in a[1] if st != F['SUCCESS']]
        lines = r.raw.split('\n')
        if not any(w in r.raw for w in FAILWORDS) and not r.proc_err and not any(t in lines for t in texts):
            bad('failure-silent:' + fails[0], 'no error line for a failed request')
    # --- one request and one line per name (pid / add / remove): a fault the server can raise for one name does not
    #     end the action for the names after it
    if action in NAME_METHOD and names and not (action == 'pid' and 'all' in names) and wf:
        meth = NAME_METHOD[action]
        asked = [(m, a, ans) for m, a, ans in r.log if m == meth]
        if 0 < len(asked) < len(names) and asked[-1][2][0] == 'F' and asked[-1][2][1] in name_method_codes()[action] \
                and not any(ans[0] in ('H', 'E') for _, _, ans in r.log):
            bad('names-lost-after-fault:%s:%s' % (action, fname(asked[-1][2][1])),
                'the fault for %r ended the whole action: %d of %d names were asked' % (asked[-1][1][0], len(asked), len(names)))
        if len(asked) == len(names) and not any(ans[0] in ('H', 'E') for _, _, ans in r.log) and up:
            n_lines = len(r.raw.split('\n')) - 1
            if n_lines != len(names):
                bad('lines-per-name:' + action, '%d names were asked about, %d lines were printed' % (len(names), n_lines))
    # --- one line per result, wording, selection (start/stop/signal/clear/restart)
    if (action in PER_NAME or action == 'restart') and up and not any(a == ('H', 401) for _, _, a in r.log):
        check_results(ctx, r, action, names, bad)


NAME_METHOD = {'pid': 'getProcessInfo', 'add': 'addProcessGroup', 'remove': 'removeProcessGroup'}
_NMC = None


def name_method_codes():
    """fault codes rpcinterface.py can raise for the per-name method of pid / add / remove (from its AST)"""
    global _NMC
    if _NMC is None:
        from sites import ctl as site
        tree = site._src('supervisor/rpcinterface.py')
        F = faults()
        _NMC = {act: {F[c] for c in site._server_codes(tree, meth)} for act, meth in NAME_METHOD.items()}
    return _NMC


def server_codes():
    """fault codes the RPC methods can raise (read from rpcinterface.py's AST): per-process methods by action,
    and 'group' for the *ProcessGroup / *AllProcesses methods themselves"""
    global _SC
    if _SC is None:
        from sites import ctl as site
        tree = site._src('supervisor/rpcinterface.py')
        F = faults()
        _SC = {}
        for act, meth in (('start', 'startProcess'), ('stop', 'stopProcess'), ('signal', 'signalProcess'), ('clear', 'clearProcessLogs')):
            _SC[act] = {F[c] for c in site._server_codes(tree, meth)} | {F['SUCCESS']}
        _SC['group'] = {F[c] for m in ('startProcessGroup', 'stopProcessGroup', 'signalProcessGroup', 'startAllProcesses',
                                       'stopAllProcesses', 'signalAllProcesses', 'clearAllProcessLogs')
                        for c in site._server_codes(tree, m)}
    return _SC


_SC = None


def check_results(ctx, r, action, names, bad):
    F = faults()
    phases = ['stop', 'start'] if action == 'restart' else [action]
    if action == 'signal':
        names = names[1:]
    if not names:
        return
    calls = [c for c in r.log if c[0] != 'getVersion']
    out_lines = r.raw.split('\n')[:-1]
    transport = any(ans[0] in ('H', 'E') for _, _, ans in calls)
    # answers no server gives are outside the statement
    for m, a, ans in calls:
        act = next((p for p in PER_NAME if m in PER_NAME[p]), None)
        if act is None:
            return
        single = m == PER_NAME[act][0]
        if ans[0] == 'R' and any(st not in server_codes()[act] for _, _, st, _ in ans[1]):
            return
        if ans[0] == 'F' and (ans[1] == F['SUCCESS'] or ans[1] not in (server_codes()[act] if single else server_codes()['group'])):
            return
    # selection: which RPCs the names select
    for ph in phases:
        single, group, allm = PER_NAME[ph]
        if 'all' in names:
            want = [(allm, None)]
        else:
            want = []
            for n in names:
                g, p = spec_split_namespec(n)
                if ph == 'clear' or p is not None:
                    want.append((single, n))
                else:
                    want.append((group, g))
        got = [(m, a[0] if (a and m != allm) else None) for m, a, _ in calls if m in PER_NAME[ph]]
        if got != want[:len(got)]:
            bad('namespec-selection:' + ph, 'the names %r select %r, the client asked %r' % (names, want, got))
            return
        if len(got) < len(want) and not transport:
            last = next((c for c in reversed(calls) if c[0] in PER_NAME[ph]), None)
            if ph == 'start' and action == 'restart' and not got:
                return      # the stop phase ended the action; reported for that phase
            if last is not None and last[2][0] == 'F':
                bad('results-lost-after:' + fname(last[2][1]),
                    'a fault for one name ended the whole action: %d of %d names were asked' % (len(got), len(want)))
                return
            if last is None or last[2][0] != 'R':
                bad('targets-lost:' + ph, '%d of %d names were asked' % (len(got), len(want)))
                return
    if transport:
        return
    # one line per result; wording: success lines carry no ERROR, failure lines do (or are the server's own text)
    k = 0
    for m, a, ans in calls:
        entries = ans[1] if ans[0] == 'R' else [None]
        for ei, e in enumerate(entries):
            if k >= len(out_lines) or (e is not None and k > 0 and out_lines[k - 1].startswith('error: ') and ans[0] == 'R'
                                       and ei > 0):
                culprit = entries[max(ei - 1, 0)] if ans[0] == 'R' else None
                bad('results-lost-after:' + (fname(culprit[2]) if culprit else 'call'),
                    'the server answered %d results for %s, printing stopped after %d lines' % (len(entries), m, k))
                return
            l = out_lines[k]; k += 1
            if e is not None:
                g, n, st, d = e
                ns = n if g == n else '%s:%s' % (g, n)
                if st == F['SUCCESS']:
                    if 'ERROR' in l or not l.startswith(ns + ': '):
                        bad('wording-mismatch:success', 'result SUCCESS for %s printed as %r' % (ns, l))
                elif not (('ERROR' in l and l.startswith(ns + ': ')) or l == d or (l.startswith('error: ') and ns in l)):
                    bad('wording-mismatch:' + fname(st), 'result %s for %s printed as %r' % (fname(st), ns, l))
            elif ans[0] == 'F':
                if not ('ERROR' in l or l.startswith('error: ') or l == ans[2]):
                    bad('wording-mismatch:' + fname(ans[1]), 'fault %s printed as %r' % (fname(ans[1]), l))
            elif 'ERROR' in l or l.startswith('error'):
                bad('wording-mismatch:success', 'success printed as %r' % l)


# ---------------------------------------------------------------------------------------------------
# generators
NAMES = ['foo', 'bar', 'baz', 'g:a', 'g:b', 'g:*', 'g:', 'h:*', 'foo:foo', 'a:b:c', ':x', '*', 'ALL', 'café',
         'n' * 34, 'g:' + 'm' * 33, 'all']
GROUPS = ['foo', 'bar', 'g', 'h', 'café', 'n' * 34]
STATE_NAMES = None


def states_table():
    global STATE_NAMES
    if STATE_NAMES is None:
        from supervisor import states
        STATE_NAMES = sorted((v, k) for k, v in vars(states.ProcessStates).items() if not k.startswith('_'))
    return STATE_NAMES


def gen_info(rng, name=None):
    if name is None or name == 'all':
        name = rng.choice(NAMES[:8] + ['foo', 'bar'])
    g, p = spec_split_namespec(name)
    if p is None:
        p = rng.choice(['a', 'b', g])
    st, sn = rng.choice(states_table())
    pid = 0 if st in (0, 100, 200, 1000, 30) else rng.randrange(1, 30000)
    return (g, p, st, sn, rng.choice(['pid %d, uptime 0:01:40' % pid, 'Not started', 'Exited too quickly', '']), pid)


def gen_res(rng, status, name=None):
    g, p = spec_split_namespec(name or rng.choice(NAMES[:8]))
    if p is None:
        p = rng.choice(['a', 'b', g])
    return (g, p, status, 'OK' if status == 80 else '%s: %s' % (fname(status), p))


def all_codes():
    return sorted(faults().values()) + [99]


def ok_answer(rng, meth, args):
    """a successful answer of the documented type"""
    if meth == 'getVersion': return ('S', API)
    if meth in LIST_METHODS:
        n = rng.choice([0, 1, 2, 2, 3, 4])
        return ('R', [gen_res(rng, 80) for _ in range(n)])
    if meth == 'getAllProcessInfo':
        return ('P', [gen_info(rng) for _ in range(rng.choice([0, 1, 2, 3, 4]))])
    if meth == 'getProcessInfo':
        i = gen_info(rng, args[0])
        if i[5] == 0:
            i = i[:2] + (20, 'RUNNING', i[4], 4242)
        return ('Q', i)
    if meth == 'getPID': return ('I', rng.randrange(1, 99999))
    if meth == 'getSupervisorVersion': return ('S', rng.choice(['4.3.0', '3.0', '']))
    if meth == 'reloadConfig':
        pool = rng.sample(GROUPS, rng.randrange(0, 5))
        parts = [[], [], []]
        for g in pool:
            parts[rng.randrange(3)].append(g)
        if rng.random() < 0.2 and pool:
            parts[rng.randrange(3)].append(pool[0])      # a name in two categories
        return ('L', parts[0], parts[1], parts[2])
    if meth == 'getAllConfigInfo':
        return ('C', [(rng.choice(GROUPS), rng.choice(['a', 'foo', 'bar', 'café']), rng.randrange(2), rng.randrange(2),
                       rng.choice([999, 1, -5]), rng.choice([999, 0, 12])) for _ in range(rng.randrange(0, 4))])
    if meth in ('readProcessStdoutLog', 'readProcessStderrLog', 'readLog'):
        return ('S', rng.choice(['', 'line one\nline two\n', 'no newline at end', 'café \\ \t tab']))
    if meth == 'GET':
        return ('S', rng.choice(['', 'tail data\n']))
    return ('V',)


def bad_answers(rng, meth, args, full):
    """the failing answers tried at one call position in the systematic part"""
    res = []
    if meth == 'GET':
        return [('I', 404), ('I', 410), ('I', 500)]
    for c in all_codes():
        res.append(('F', c, '%s: x' % fname(c)))
    res += [('H', 401), ('H', 500), ('E', _errno.ECONNREFUSED), ('E', _errno.ENOENT), ('E', _errno.EPIPE)]
    if meth == 'getVersion':
        res += [('S', v) for v in WRONG_API]
    if meth in LIST_METHODS:
        res.append(('R', []))
        for c in all_codes():
            if c == 80: continue
            for ln in ((1, 3) if not full else (1, 2, 3, 4)):
                for pos in range(ln):
                    if not full and ln == 3 and pos == 2: continue
                    l = [gen_res(rng, 80, 'g:p%d' % i) for i in range(ln)]
                    l[pos] = gen_res(rng, c, 'g:p%d' % pos)
                    res.append(('R', l))
    if meth == 'getAllProcessInfo':
        for st, sn in states_table():
            res.append(('P', [('foo', 'foo', 20, 'RUNNING', 'd', 5), ('g', 'a', st, sn, 'd', 0 if st != 20 else 7)]))
        res.append(('P', []))
    if meth == 'getProcessInfo':
        res.append(('Q', ('foo', 'foo', 0, 'STOPPED', 'Not started', 0)))
    return res


BASE_LINES = [
    'start', 'start foo', 'start g:*', 'start all', 'start foo bar', 'start g:a h:*', 'start foo all', 'start g:',
    'stop', 'stop foo', 'stop g:*', 'stop all', 'stop foo g:b', 'stop h:* foo',
    'restart', 'restart foo', 'restart g:*', 'restart all', 'restart foo bar',
    'signal', 'signal HUP', 'signal HUP foo', 'signal 1 g:*', 'signal TERM all', 'signal USR1 foo g:a',
    'status', 'status foo', 'status g:*', 'status all', 'status foo nosuch', 'status g:a nogroup:*',
    'pid', 'pid foo', 'pid all', 'pid foo bar',
    'clear', 'clear foo', 'clear all', 'clear foo g:a', 'clear g:*',
    'add', 'add foo', 'add foo bar', 'remove', 'remove foo', 'remove foo bar',
    'update', 'update all', 'update foo', 'update foo nosuch zzz',
    'reread', 'reread x', 'avail', 'avail x',
    'tail', 'tail foo', 'tail foo stderr', 'tail -100 foo', 'tail -f foo', 'tail -f foo stderr', 'tail foo bogus',
    'tail -x foo', 'tail a b c d', 'tail -f', 'tail - foo', 'tail --5 foo stdout', 'tail foo STDERR',
    'maintail', 'maintail -f', 'maintail -50', 'maintail foo', 'maintail -x', 'maintail -f x', 'maintail -+3',
    'shutdown', 'shutdown now', 'reload', 'reload x', 'version', 'version x',
]
MALFORMED_LINES = ['', '   ', 'strat foo', 'start:foo', '!ls', 'start\tfoo', '  stop   foo  ', 'start_ foo', 'statusfoo',
                   '42', 'restart\x0bfoo', '-start', 'START foo', 'pid:', 'add  ', 'remove\t']

# regression corpus: (line, script) -- defects of DESIGN.md section 7 that concern C20, fixed and open
V = ('S', API)
CORPUS = [
    # F20 (fixed): start all with a FAILED entry used to stop printing at that entry
    ('start all', [V, ('R', [('a', 'a', 80, 'OK'), ('b', 'b', 30, 'FAILED: b is in an unknown process state'), ('c', 'c', 80, 'OK')])]),
    ('start g:*', [V, ('R', [('g', 'a', 30, 'FAILED: x'), ('g', 'b', 80, 'OK')])]),
    ('start foo', [V, ('F', 30, 'FAILED: foo is in an unknown process state')]),
    # F23 (fixed 47c5aa7): tail -f of an unknown name / missing log kept exit status 0
    ('tail -f nosuch', [V, ('I', 404)]),
    ('maintail -f', [V, ('I', 410)]),
    # F24 (fixed 6713e7c): add / remove without a name printed nothing and exited 0
    ('add', []), ('remove', []), ('add   ', []),
    # F35 (fixed 4d3c975): a daemon that is shutting down answers SHUTDOWN_STATE to per-process requests; the
    # client had no wording for it, printed one error: line and dropped the remaining names / entries
    ('start foo bar', [V, ('F', 6, 'SHUTDOWN_STATE'), ('F', 6, 'SHUTDOWN_STATE')]),
    ('stop foo bar', [V, ('F', 6, 'SHUTDOWN_STATE'), ('F', 6, 'SHUTDOWN_STATE')]),
    ('signal HUP foo bar', [V, ('F', 6, 'SHUTDOWN_STATE'), ('F', 6, 'SHUTDOWN_STATE')]),
    ('clear foo bar', [V, ('F', 6, 'SHUTDOWN_STATE'), ('F', 6, 'SHUTDOWN_STATE')]),
    ('start all', [V, ('R', [('a', 'a', 80, 'OK'), ('b', 'b', 6, 'SHUTDOWN_STATE'), ('c', 'c', 80, 'OK')])]),
    # F36 (fixed 4198a53): update did not look at the stop results of a changed group
    ('update', [('L', [], ['foo'], []), ('R', [('foo', 'foo', 30, 'FAILED: attempted to kill foo with sig SIGTERM but it wasn\'t running')]), ('V',), ('V',)]),
    ('update', [('L', [], [], ['foo']), ('R', [('foo', 'foo', 30, 'FAILED: x')])]),
    (' signal BOGUS ALL g:* a:b:c :x', [V, ('V',), ('R', [('g', 'b', 80, 'OK'), ('h', 'a', 6, 'SHUTDOWN_STATE: a'), ('g', 'b', 80, 'OK'), ('g', 'a', 80, 'OK')]), ('V',), ('V',)]),
    ('stop h:* foo', [V, ('F', 6, 'SHUTDOWN_STATE'), ('F', 6, 'SHUTDOWN_STATE')]),
    # F45 (fixed dd390fa): remove against a daemon that is shutting down re-raised the fault: one "error: ..." line, the
    # remaining names were never asked (add words it per name)
    ('remove foo bar', [('F', 6, 'SHUTDOWN_STATE'), ('F', 6, 'SHUTDOWN_STATE')]),
    ('remove foo bar', [('F', 6, 'SHUTDOWN_STATE'), ('V',)]),
    ('add foo bar', [('F', 6, 'SHUTDOWN_STATE'), ('F', 6, 'SHUTDOWN_STATE')]),
    # F50 (open): addProcessGroup answers FAILED when the group cannot be created (F48/F49); do_add re-raises it and never
    # asks about the names after it
    ('add foo bar', [('F', 30, 'FAILED: foo: cannot bind'), ('V',)]),
    ('add foo', [('F', 30, 'FAILED: foo: cannot bind')]),
    # F46 (fixed 7613253): pid when the daemon began to shut down after the upcheck: do_pid re-raised SHUTDOWN_STATE
    ('pid foo bar', [V, ('F', 6, 'SHUTDOWN_STATE'), ('Q', ('bar', 'bar', 20, 'RUNNING', 'd', 7))]),
    ('pid foo bar', [V, ('F', 6, 'SHUTDOWN_STATE'), ('F', 6, 'SHUTDOWN_STATE')]),
    # 401 without credentials: the action is attempted a second time
    ('status', [('H', 401), ('H', 401)]),
    ('status', [('H', 401), V, ('P', [('foo', 'foo', 0, 'STOPPED', 'Not started', 0)])]),
    ('shutdown', [('F', 6, 'SHUTDOWN_STATE')]),
    ('add foo', [('F', 90, 'ALREADY_ADDED: foo')]),
    ('stop foo', [V, ('F', 70, 'NOT_RUNNING: foo')]),
    ('start foo', [V, ('F', 60, 'ALREADY_STARTED: foo')]),
    ('start foo', [V, ('F', 70, 'NOT_RUNNING: foo')]),
    ('restart foo', [V, V, ('F', 70, 'NOT_RUNNING: foo'), V, ('V',)]),
    ('status foo', [('E', _errno.ECONNREFUSED)]),
    ('status', [('S', '2.0')]),
    ('pid foo', [V, ('Q', ('foo', 'foo', 0, 'STOPPED', 'Not started', 0))]),
]


def fixed_source(script):
    def src(meth, args, k):
        return script[k] if k < len(script) else None
    return src


def lazy_source(rng, p_bad, overrides=None):
    """answers generated when asked; overrides: {call index: answer}"""
    def src(meth, args, k):
        if overrides and k in overrides:
            return overrides[k]
        if rng.random() < p_bad:
            return rng.choice(bad_answers(rng, meth, args, False))
        a = ok_answer(rng, meth, args)
        if a[0] == 'R' and a[1] and rng.random() < p_bad * 2:
            l = list(a[1]); l[rng.randrange(len(l))] = gen_res(rng, rng.choice(all_codes()))
            a = ('R', l)
        return a
    return src


def random_line(rng):
    r = rng.random()
    if r < 0.08:
        return rng.choice(MALFORMED_LINES)
    act = rng.choice(ACTIONS)
    n = rng.choice([0, 1, 1, 1, 2, 2, 3, 4])
    words = [rng.choice(NAMES) for _ in range(n)]
    if act == 'signal' and rng.random() < 0.85:
        words.insert(0, rng.choice(['HUP', 'TERM', '9', 'BOGUS']))
    if act == 'tail' and rng.random() < 0.8:
        words = ([rng.choice(['-f', '-10', '-0', '-x', '-', '--2', '-+7'])] if rng.random() < 0.5 else []) + \
                [rng.choice(NAMES)] + ([rng.choice(['stdout', 'stderr', 'STDOUT', 'bogus'])] if rng.random() < 0.5 else [])
    if act == 'maintail' and rng.random() < 0.8:
        words = [rng.choice(['-f', '-10', '-x', 'foo', '-0'])] if rng.random() < 0.7 else []
    if act in ('shutdown', 'reload', 'version', 'reread', 'avail') and rng.random() < 0.8:
        words = []
    if act == 'update':
        words = [rng.choice(GROUPS + ['all', 'nosuch', 'zzz']) for _ in range(rng.choice([0, 0, 1, 2, 3]))]
    sep = rng.choice([' ', ' ', ' ', '  ', '\t'])
    return rng.choice(['', '', ' ']) + act + (sep if words else rng.choice(['', ' '])) + sep.join(words) + rng.choice(['', '', ' '])


# ---------------------------------------------------------------------------------------------------
# the end-to-end level (c20_e2e.py): the same command line and the same answers through the real XML-RPC layer
def gen_plan(rng, n):
    """how each of the n answers is given: None = at once, d = by a deferred callback that answers at poll d"""
    x = rng.random()
    if x < 0.15:
        return [None] * n
    if x < 0.35:
        return [rng.choice([0, 0, 1, 2, 3]) for _ in range(n)]
    return [rng.choice([None, None, 0, 1, 2]) for _ in range(n)]


def e2e_case(ctx, line, script, r0, plan, wj=None):
    """r0: the case as executed with the answers handed over directly.  The real client, marshalling, HTTP channel, XML-RPC
    handler and deferred-response producer in between must not change what the client reports: same requests, same lines,
    same exit status; and the statement's monitors are evaluated on this run as on the direct one"""
    wi = None
    if wj is not None:
        from props import c20_world as W
        wi = W.World.from_json(wj)
        src = wi.source()
    else:
        src = fixed_source(script)
    r = execute(line, src, e2e=plan)
    cmd, _ = parse_cmd(line)
    action = cmd if cmd in ACTIONS or cmd == 'fg' else '(other)'
    ctx.count('e2e:cases'); ctx.count('e2e:action:' + action); ctx.count('e2e:requests-on-the-wire', r.requests_on_wire)
    ctx.count('e2e:connections', r.connections); ctx.count('e2e:deferred-answers', r.deferred)
    for (m, _, a), d in zip(r.log, plan):
        if m != 'GET' and a[0] not in ('E',) and not (a[0] == 'H' and a[1] != 500):
            ctx.count('e2e:answer:%s:%s' % (a[0] + ('%d' % a[1] if a[0] == 'H' else ''), 'at-once' if d is None else 'deferred'))
    if r.requests_on_wire > r.connections:
        ctx.count('e2e:cases-reusing-a-connection')
    ctx.case_done(('e2e', line, tuple(map(repr, script)), tuple(plan), repr(wj)), nontrivial=r.requests_on_wire > 0)
    level = {'e2e': list(plan)}
    consumed = [a for _, _, a in r.log]
    if r.more_calls is not None or impl_line(r) != impl_line(r0):
        inp = dict({'line': line, 'script': [list(a) for a in script]} if wj is None else {'line': line, 'world': wj}, **level)
        ctx.violation('e2e-differs-from-direct:' + action,
                      'the same answers given through the real XML-RPC layer (at once - / deferred at poll d: %s) make the client report something else: '
                      '%s; with the answers handed over directly: %s [line %r]' % (
                          ' '.join('-' if d is None else str(d) for d in plan[:len(script)]),
                          impl_line(r) + (' and a further request %s%r' % r.more_calls if r.more_calls else ''), impl_line(r0), line), inp)
    if wj is None:
        monitor(ctx, r, consumed, level)
    else:
        monitor(ctx, r, consumed, dict(level, world=wj))
        from props import c20_world as W
        W.monitor_world(ctx, r, line, wj, wi, level)
    return r


REAL_NAMES = ['grp:p0', 'grp:p1', 'grp:*', 'all', 'grp:nosuch', 'nosuch', 'p0', 'grp:', 'nosuch:*']
# seeded change C20-8 (demo.py): `start grp:flaky`, flaky being spawned all right but leaving STARTING for BACKOFF between two
# polls of startProcess's callback: the fault comes from the deferred phase
REAL_CORPUS = [
    ('start grp:flaky', [{'name': 'flaky', 'initial': 0, 'on_spawn': 10, 'on_stop': 40, 'traj': [[0, 30]]}]),
    ('start grp:good', [{'name': 'good', 'initial': 0, 'on_spawn': 10, 'on_stop': 40, 'traj': [[0, 20]]}]),
    ('start grp:nosuch', [{'name': 'good', 'initial': 0, 'on_spawn': 10, 'on_stop': 40, 'traj': [[0, 20]]}]),
    ('start grp:flaky grp:good', [{'name': 'flaky', 'initial': 0, 'on_spawn': 10, 'on_stop': 40, 'traj': [[0, 10], [0, 30]]},
                                  {'name': 'good', 'initial': 0, 'on_spawn': 10, 'on_stop': 40, 'traj': [[0, 10], [0, 20]]}]),
    ('restart grp:flaky', [{'name': 'flaky', 'initial': 20, 'on_spawn': 10, 'on_stop': 40, 'traj': [[0, 0], [0, 10], [0, 30]]}]),
    ('start grp:se', [{'name': 'se', 'initial': 0, 'on_spawn': 10, 'on_stop': 40, 'traj': [[0, 10], [1, 30]]}]),
    ('stop grp:slow', [{'name': 'slow', 'initial': 20, 'on_spawn': 10, 'on_stop': 40, 'traj': [[0, 40], [0, 40], [0, 0]]}]),
    ('start all', [{'name': 'flaky', 'initial': 0, 'on_spawn': 10, 'on_stop': 40, 'traj': [[0, 30]]},
                   {'name': 'good', 'initial': 0, 'on_spawn': 10, 'on_stop': 40, 'traj': [[0, 20]]}]),
]


def real_case(batch, line, scripts, tag):
    """one command line against the REAL SupervisorNamespaceRPCInterface over processes that follow `scripts` (props.c12.WaitWorld:
    spawn()/stop() put a process into on_spawn/on_stop, main-loop iteration k while an answer is pending into traj[k]), through
    the real XML-RPC layer.  What the interface answered is recorded above that layer; the monitors (and the model) judge the
    client against that record"""
    from props import c12
    ctx = batch.ctx
    w = c12.WaitWorld(scripts)
    r = execute(line, lambda m, a, k: None, real=(w.iface, w.tick))
    script = [a for _, _, a in r.log]
    cmd, _ = parse_cmd(line)
    ctx.count('tag:' + tag); ctx.count('real:action:' + cmd); ctx.count('real:exit:%d' % r.exit)
    ctx.count('real:deferred-answers', r.deferred); ctx.count('real:requests-on-the-wire', r.requests_on_wire)
    for m, _, a in r.log:
        ctx.count('real:answer:' + a[0] + (':' + fname(a[1]) if a[0] == 'F' else ''))
    ctx.case_done(('real', line, repr(scripts)), nontrivial=len(r.log) > 0)
    monitor(ctx, r, script, {'real': scripts})
    if not any(a == ('H', 500) for a in script):
        batch.ops.append((line, script, 0))
        batch.impl.append(impl_line(r, 0))
    return r


def gen_real(rng):
    from props import c12
    n = rng.randrange(1, 4)
    action = rng.choice(['start', 'start', 'start', 'stop', 'stop', 'restart', 'restart', 'status', 'pid', 'signal', 'clear'])
    kind = {'start': 'start', 'stop': 'stop', 'restart': 'stop'}.get(action)
    scripts = [c12.gen_script(rng, 'p%d' % i, kind, maxlen=5) for i in range(n)]
    if rng.random() < 0.5:          # the usual course: STARTING / STOPPING for a while, then some end state
        for sc in scripts:
            sc['on_spawn'], sc['on_stop'] = 10, 40
    if rng.random() < 0.85:         # ... in which the process stays (a call that waits for ever is C12's subject, not C20's)
        for sc in scripts:
            sc['traj'].append([0, rng.choice([20, 30, 200, 100, 0] if action == 'start' else [0, 100, 200])])
    known = ['grp:p%d' % i for i in range(n)] * 2 + ['grp:*', 'all', 'grp:']
    names = [rng.choice(known if rng.random() < 0.8 else REAL_NAMES) for _ in range(rng.choice([1, 1, 2, 3]))]
    return action + (' HUP ' if action == 'signal' else ' ') + ' '.join(names), scripts


class Batch:
    def __init__(self, ctx):
        self.ctx = ctx
        self.ops, self.impl = [], []

    def case(self, line, source, tag, script_len=None, e2e=0.0):
        ctx = self.ctx
        r = execute(line, source)
        if r.ended:
            return None       # a fixed script that is too short for the calls made: not a case
        script = [a for _, _, a in r.log]
        left = (script_len - len(script)) if script_len is not None else 0
        ctx.count('tag:' + tag)
        cmd, _ = parse_cmd(line)
        ctx.count('action:' + (cmd if cmd in ACTIONS else '(other)'))
        ctx.count('exit:%d' % r.exit)
        ctx.count('calls:%d' % min(len(r.log), 6))
        for m, _, a in r.log:
            ctx.count('answer:' + a[0])
            if a[0] == 'F':
                ctx.count('fault:' + fname(a[1]))
            if a[0] == 'R':
                ctx.count('results-len:%d' % len(a[1]))
        ctx.case_done((line, tuple(map(repr, script))), nontrivial=len(r.log) > 0)
        monitor(ctx, r, script)
        self.ops.append((line, script, left))
        self.impl.append(impl_line(r, left))
        if e2e and script and ctx.rng.random() < e2e:
            e2e_case(ctx, line, script, r, gen_plan(ctx.rng, len(script)))
        return r

    def flush(self):
        if not self.ops:
            return
        cases = [('case ctl url=' + hx(URL), [op_line(l, s)]) for l, s, _ in self.ops]
        self.ctx.correspond('ctl', cases, [[i] for i in self.impl])
        self.ops, self.impl = [], []


def run_fixed(batch, line, script, tag, plans=None):
    """a case with a given script: the model receives the whole script (left = unconsumed answers)"""
    r = execute(line, fixed_source(script))
    if r.ended:
        raise Infra('corpus script too short for %r' % line)
    ctx = batch.ctx
    consumed = [a for _, _, a in r.log]
    ctx.count('tag:' + tag)
    ctx.case_done((line, tuple(map(repr, script))), nontrivial=len(r.log) > 0)
    monitor(ctx, r, consumed)
    left = len(script) - len(consumed)
    batch.ops.append((line, script, left))
    batch.impl.append(impl_line(r, left))
    if consumed and plans != ():
        n = len(consumed)
        for plan in (plans if plans is not None else ([None] * n, [0] * n, [2] * n, gen_plan(ctx.rng, n))):
            e2e_case(ctx, line, consumed, r, list(plan))
    return r


def run(ctx):
    rng = ctx.rng
    batch = Batch(ctx)
    # 1. regression corpus
    for line, script in CORPUS:
        r = run_fixed(batch, line, script, 'corpus')
    ctx.sample({'line': CORPUS[0][0], 'script': [tok(a) for a in CORPUS[0][1]], 'impl': batch.impl[0]})
    ctx.sample({'line': CORPUS[8][0], 'script': [tok(a) for a in CORPUS[8][1]], 'impl': batch.impl[8]})
    # 2. malformed lines
    for line in MALFORMED_LINES:
        batch.case(line, lazy_source(rng, 0.0), 'malformed-line')
    # 3. systematic single-failure enumeration
    full = ctx.tier == 'thorough' or ctx.boost > 1
    lines = BASE_LINES
    for line in lines:
        base = batch.case(line, lazy_source(rng, 0.0), 'all-ok', e2e=1.0)
        if base is None:
            continue
        okscript = [a for _, _, a in base.log]
        for k, (m, a, _) in enumerate(base.log):
            for bad in bad_answers(rng, m, a, full):
                ov = dict(enumerate(okscript[:k])); ov[k] = bad
                batch.case(line, lazy_source(rng, 0.0, ov), 'single-failure', e2e=E2E_SYSTEMATIC)
    batch.flush()
    # 4. random
    for i in range(ctx.n(3000, 60000)):
        line = random_line(rng)
        p_bad = rng.choice([0.0, 0.0, 0.1, 0.3])
        r = batch.case(line, lazy_source(rng, p_bad), 'random', e2e=E2E_RANDOM)
        if i == 5 and r is not None:
            ctx.sample({'line': line, 'script': [tok(a) for _, _, a in r.log], 'impl': batch.impl[-1]})
        if len(batch.ops) >= 5000:
            batch.flush()
    batch.flush()
    # 5. a server with a state of its own (c20_world.py): every name-taking action x known / unknown / mixed name
    #    lists x worlds that include the no-op situations (no processes, no pending configuration change, ...)
    from props import c20_world as W
    for line, wj in WORLD_CORPUS:
        world_case(batch, 'world-corpus', W.World.from_json(wj), line, e2e=1.0)
    for tag, w, line in W.systematic(full):
        world_case(batch, tag, w, line, e2e=E2E_SYSTEMATIC)
    batch.flush()
    for i in range(ctx.n(2500, 40000)):
        w = W.random_world(rng)
        for _ in range(rng.choice([1, 2, 3])):
            world_case(batch, 'world-random', w, W.random_line(rng, w), e2e=E2E_RANDOM)
        if len(batch.ops) >= 5000:
            batch.flush()
    batch.flush()
    # 6. end to end against the real rpcinterface over scripted processes (deferred answers that end in faults included)
    for line, scripts in REAL_CORPUS:
        real_case(batch, line, scripts, 'real-corpus')
    for i in range(ctx.n(400, 6000)):
        line, scripts = gen_real(rng)
        real_case(batch, line, scripts, 'real-random')
    batch.flush()


E2E_SYSTEMATIC = 0.5      # share of the systematic cases that are run once more through the real XML-RPC layer
E2E_RANDOM = 0.2


def world_case(batch, tag, w, line, e2e=0.0, plan=None):
    """one command line against a fresh copy of world w: the scripted monitors and the correspondence on the answers
    consumed, and the statement evaluated on (line, world)"""
    from props import c20_world as W
    ctx = batch.ctx
    wj = w.to_json()
    wi = W.World.from_json(wj)
    cmd, arg = parse_cmd(line)
    if cmd == 'fg':
        # outside the Lean model: monitors only, and only invocations that end before the interactive part
        if W.spec('fg', arg, W.World.from_json(wj)) is None:
            return
        r = execute(line, wi.source())
        ctx.count('tag:' + tag); ctx.count('action:fg'); ctx.count('exit:%d' % r.exit)
        ctx.case_done((line, repr(wj)), nontrivial=len(r.log) > 0)
    else:
        r = batch.case(line, wi.source(), tag)
    if r is not None:
        W.monitor_world(ctx, r, line, wj, wi)
        if r.log and cmd != 'fg' and (plan is not None or (e2e and ctx.rng.random() < e2e)):
            e2e_case(ctx, line, [a for _, _, a in r.log], r, plan if plan is not None else gen_plan(ctx.rng, len(r.log)), wj)


# world regression corpus: (line, world as JSON) -- seeded change C20-4: `update <unknown group>` while the server
# reports no pending configuration change (with and without a known group beside it, with and without processes)
_W_ONE = {'procs': [['foo', 'foo', 20, 101, {}, {'stdout': 'x\n', 'stderr': None}]], 'config': {'foo': ['foo']},
          'changed': [], 'shutting': False, 'mainlog': 'm\n'}
_W_NONE = {'procs': [], 'config': {}, 'changed': [], 'shutting': False, 'mainlog': 'm\n'}
_W_ADDED = {'procs': [['foo', 'foo', 20, 101, {}, {'stdout': 'x\n', 'stderr': None}]], 'config': {'foo': ['foo'], 'added': ['added']},
            'changed': [], 'shutting': False, 'mainlog': 'm\n'}
# F47 (open): active groups a (its process is STOPPING), b, c; the file only lists c: `update` stops at the
# STILL_RUNNING fault for a and never handles b
_W_F47 = {'procs': [['a', 'a', 40, 5, {}, {'stdout': None, 'stderr': None}], ['b', 'b', 20, 6, {}, {'stdout': None, 'stderr': None}],
                    ['c', 'c', 20, 7, {}, {'stdout': None, 'stderr': None}]],
          'config': {'c': ['c']}, 'changed': [], 'shutting': False, 'mainlog': 'm\n'}
# F50 (open): the configured group `sock` cannot be created
_W_F50 = {'procs': [['foo', 'foo', 20, 101, {}, {'stdout': 'x\n', 'stderr': None}]],
          'config': {'foo': ['foo'], 'sock': ['sock'], 'new': ['new']}, 'changed': [], 'shutting': False, 'mainlog': 'm\n',
          'uncreatable': ['sock']}
WORLD_CORPUS = [
    ('add sock new', _W_F50), ('add new sock', _W_F50), ('add sock', _W_F50), ('update new', _W_F50),
    ('update', _W_F47), ('update b', _W_F47), ('update a typo', _W_F47),
    ('update typo', _W_ADDED), ('update added', _W_ADDED),
    ('update typo', _W_ONE), ('update foo typo', _W_ONE), ('update typo foo', _W_ONE), ('update foo', _W_ONE),
    ('update typo', _W_NONE), ('update', _W_NONE), ('update all typo', _W_NONE),
    ('remove foo bar', dict(_W_ADDED, shutting=True)), ('add foo added', dict(_W_ADDED, shutting=True)),
    ('status typo', _W_NONE), ('start typo', _W_NONE), ('stop all', _W_NONE), ('pid typo', _W_NONE), ('remove typo', _W_NONE),
]


def replay(ctx, data):
    inp = data['input']
    if 'real' in inp:
        batch = Batch(ctx)
        real_case(batch, inp['line'], inp['real'], 'replay')
        batch.flush()
        return
    if 'world' in inp:
        from props import c20_world as W
        batch = Batch(ctx)
        world_case(batch, 'replay', W.World.from_json(inp['world']), inp['line'], plan=inp.get('e2e'))
        batch.flush()
        return
    script = [tuple(tuple(x) if isinstance(x, list) and x and not isinstance(x[0], list) else x for x in a) for a in inp['script']]
    script = [_retuple(a) for a in inp['script']]
    batch = Batch(ctx)
    run_fixed(batch, inp['line'], script, 'replay', plans=[inp['e2e']] if inp.get('e2e') is not None else ())
    batch.flush()


def _retuple(a):
    k = a[0]
    if k in ('R', 'P', 'C'):
        return (k, [tuple(x) for x in a[1]])
    if k == 'Q':
        return (k, tuple(a[1]))
    if k == 'L':
        return (k, list(a[1]), list(a[2]), list(a[3]))
    return tuple(a)


# ---- MANIFEST metadata -----------------------------------------------------------------------
TECHNIQUE = ("Lean 4 theorems over an executable model of Controller.onecmd and the 17 actions whose fault comparisons, "
             "exit-status constants, tolerated-fault arguments and wording tables are regenerated from supervisorctl.py; "
             "differential correspondence against the real Controller with a scripted proxy; independent monitors, "
             "incl. the statement evaluated against a simulated supervisord with its own state (c20_world.py); an end-to-end "
             "level (c20_e2e.py): the same cases through the real ServerProxy / SupervisorTransport / HTTP channel / XML-RPC handler / "
             "deferred-response producer, differential against the direct run (kind e2e-differs-from-direct) and under the same monitors")
LEVEL_TEXT = ("proved for every action, argument string and answer script of the model, without bound: "
              "failure_exit_nonzero (exit 0 => no request refused/failed and arguments well-formed) and all_ok_exit_zero "
              "(well-formed arguments and every request succeeded, incl. the four tolerated answers => exit 0), "
              "status_exit_3, one_line_per_result, wording_covers_server_codes / wording_matches_table over the "
              "regenerated tables, fault_never_silent, no_traceback, namespec rules and the request each name selects; "
              "names the client resolves itself: update_unknown_group_reported (an unknown group is reported and the exit "
              "status non-zero whatever reloadConfig answered, incl. no pending change) and status_unknown_name_reported; "
              "add_remove_one_line_per_name / pid_one_line_per_name (every fault rpcinterface.py raises for a name is "
              "worded for that name and the loop goes on); update_one_result_per_group_partial + counterexample "
              "update_fault_loses_remaining_groups (F47, open); "
              "the model is tied to supervisorctl.py by regenerated comparisons/constants/tables and run against the real "
              "Controller on a systematic single-failure enumeration plus random scripts")
LEVEL_NOTE = ("trusts Lean's kernel, extract.py; the model takes the answers as the client's XML-RPC library hands them over -- the layer "
              "between rpcinterface and the client is exercised end to end (monitors, differential), not modelled here; see TRUSTED")
DESIGN_REF = "DESIGN.md section 6, C20"
