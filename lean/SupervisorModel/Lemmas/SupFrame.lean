import SupervisorModel.Lemmas.SupInvPass
/-
  What a pass does to the daemon's mood, to the `stopping` flag and to the number of
  SUPERVISOR_STATE_CHANGE_STOPPING notifications: everything but phase 1 of the ordered stop, the
  shutdown/restart RPCs and `handle_signal()` leaves the three alone (`Sm`); a pass as a whole only
  lowers the mood, never clears the flag, and announces STOPPING only when it sets the flag (`Fr`).
-/
set_option linter.unusedSimpArgs false
set_option linter.unusedVariables false
namespace Sv.Sup
open Sv Sv.Proc Sv.Gen.Proc Sv.Gen.Sup

/-- how many SUPERVISOR_STATE_CHANGE_STOPPING notifications have been emitted -/
def cntStopping (s : Sup) : Nat := (s.outs.filter (· == SOut.stopping)).length

theorem cnt_append_single (l : List SOut) (o : SOut) (ho : o ≠ .stopping) :
    ((l ++ [o]).filter (· == SOut.stopping)).length = (l.filter (· == SOut.stopping)).length := by
  simp [List.filter_append, ho]

theorem cnt_append_procs (l : List SOut) (name : Nat) (os : List Out) :
    ((l ++ os.map (SOut.proc name)).filter (· == SOut.stopping)).length = (l.filter (· == SOut.stopping)).length := by
  have : (os.map (SOut.proc name)).filter (· == SOut.stopping) = [] := by
    simp [List.filter_eq_nil_iff]
  simp [List.filter_append, this]

theorem cnt_filter_answers (l : List SOut) :
    ((l.filter fun o => match o with | .proc _ (.answer _) => false | _ => true).filter (· == SOut.stopping)).length
      = (l.filter (· == SOut.stopping)).length := by
  rw [List.filter_filter]
  congr 1
  apply List.filter_congr
  intro o _
  cases o <;> simp

/-- mood, `stopping` flag and number of STOPPING notifications are those of `s0` -/
structure Sm (s0 s : Sup) : Prop where
  stopping : s.stopping = s0.stopping
  mood : s.mood = s0.mood
  cnt : cntStopping s = cntStopping s0

theorem Sm.refl (s : Sup) : Sm s s := ⟨rfl, rfl, rfl⟩

theorem sm_frame {s0 s s' : Sup} (h : Sm s0 s) (h1 : s'.stopping = s.stopping) (h2 : s'.mood = s.mood)
    (h3 : cntStopping s' = cntStopping s) : Sm s0 s' :=
  ⟨h1.trans h.stopping, h2.trans h.mood, h3.trans h.cnt⟩

theorem sm_sguard {s0 : Sup} (f : M) (s : Sup) (h : Sm s0 s) (hf : s.err = none → s.exited = false → Sm s0 (f s)) :
    Sm s0 (sguard f s) := by
  unfold sguard
  cases he : s.err with
  | some x => simpa using h
  | none =>
    cases hx : s.exited with
    | true => simpa using h
    | false => simpa using hf he hx

theorem sm_semit {s0 : Sup} (o : SOut) (s : Sup) (ho : o ≠ .stopping) (h : Sm s0 s) : Sm s0 (semit o s) := by
  unfold semit
  apply sm_sguard _ _ h
  intro _ _
  exact sm_frame h rfl rfl (cnt_append_single _ _ ho)

theorem sm_foldl {s0 : Sup} {α : Type} (f : Sup → α → Sup) (hf : ∀ acc x, Sm s0 acc → Sm s0 (f acc x)) (l : List α) (s : Sup)
    (h : Sm s0 s) : Sm s0 (l.foldl f s) := by
  induction l generalizing s with
  | nil => exact h
  | cons x xs ih => exact ih _ (hf _ _ h)

theorem sm_onProc {s0 : Sup} (name : Nat) (f : Cfg → Proc.S → Proc.S) (s : Sup) (h : Sm s0 s) : Sm s0 (onProc name f s) := by
  by_cases hc : (s.err.isSome || s.exited) = true
  · rw [onProc_skip _ _ _ hc]; exact h
  · have he : s.err = none := by cases h : s.err <;> simp_all
    have hx : s.exited = false := by cases h : s.exited <;> simp_all
    cases hfe : findPE s.procs name with
    | none => rw [onProc_none _ _ _ hfe]; exact h
    | some e =>
      rw [onProc_eq name f s e he hx hfe]
      exact sm_frame h rfl rfl (cnt_append_procs _ _ _)

theorem sm_envExhausted {s0 s : Sup} (h : Sm s0 s) : Sm s0 { s with err := some .envExhausted } := sm_frame h rfl rfl rfl

theorem popKill_sm {s0 : Sup} {c : Prop} [Decidable c] (s : Sup) (h : Sm s0 s) :
    Sm s0 (if c then popKill s else (some KillRes.ok, s)).2 := by
  split
  · rcases popKill_cases s with h' | ⟨k, ks, h'⟩ <;> rw [h']
    · exact h
    · exact sm_frame h rfl rfl rfl
  · exact h

theorem sm_procTransition {s0 : Sup} (name : Nat) (s : Sup) (h : Sm s0 s) : Sm s0 (procTransition name s) := by
  unfold procTransition
  apply sm_sguard _ _ h
  intro _ _
  try dsimp only
  split
  · exact h
  · split
    · rcases popSpawn_cases s with h' | ⟨r, rs, _, h'⟩ <;> rw [h'] <;> dsimp only
      · exact sm_envExhausted h
      · exact sm_onProc _ _ _ (sm_frame h rfl rfl rfl)
    · split
      · rcases popKill_cases s with h' | ⟨k, ks, h'⟩ <;> rw [h'] <;> dsimp only
        · exact sm_envExhausted h
        · exact sm_onProc _ _ _ (sm_frame h rfl rfl rfl)
      · exact sm_onProc _ _ _ h

theorem sm_procGroupStop {s0 : Sup} (name : Nat) (s : Sup) (h : Sm s0 s) : Sm s0 (procGroupStop name s) := by
  unfold procGroupStop
  apply sm_sguard _ _ h
  intro _ _
  try dsimp only
  split
  · exact h
  · split
    · rcases popKill_cases s with h' | ⟨k, ks, h'⟩ <;> rw [h'] <;> dsimp only
      · exact sm_envExhausted h
      · exact sm_onProc _ _ _ (sm_frame h rfl rfl rfl)
    · exact sm_onProc _ _ _ h

theorem sm_stopAll {s0 : Sup} (gid : Nat) (s : Sup) (h : Sm s0 s) : Sm s0 (stopAll gid s) := by
  unfold stopAll
  apply sm_sguard _ _ h
  intro _ _
  exact sm_foldl _ (fun acc e h => sm_procGroupStop e.name acc h) _ _ h

theorem sm_exitTest {s0 : Sup} (s : Sup) (h : Sm s0 s) : Sm s0 (exitTest s) := by
  unfold exitTest
  apply sm_sguard _ _ h
  intro _ _
  try dsimp only
  split
  · exact sm_frame h rfl rfl (cnt_append_single _ _ (by simp))
  · exact h

theorem sm_shutdownPhase2 {s0 : Sup} (s : Sup) (h : Sm s0 s) : Sm s0 (shutdownPhase2 s) := by
  unfold shutdownPhase2
  apply sm_sguard _ _ h
  intro _ _
  try dsimp only
  split
  · split
    · exact h
    · split
      · exact sm_frame h rfl rfl rfl
      · exact h
  · exact h

theorem sm_delHist {s0 : Sup} (pid : Int) (s : Sup) (h : Sm s0 s) : Sm s0 (delHist pid s) := by
  unfold delHist
  apply sm_sguard _ _ h
  intro _ _
  exact sm_frame h rfl rfl rfl

theorem sm_reapOne {s0 : Sup} (pid es : Int) (name gen : Nat) (s : Sup) (h : Sm s0 s) : Sm s0 (reapOne pid es name gen s) := by
  unfold reapOne
  apply sm_delHist
  split
  · exact sm_onProc _ _ _ h
  · exact h

theorem sm_reapLoop {s0 : Sup} (ws : List (Int × Int)) : ∀ (k : Int) (s : Sup), Sm s0 s → Sm s0 (reapLoop k ws s) := by
  induction ws with
  | nil => intro k s h; exact h
  | cons w ws ih =>
    intro k s h
    obtain ⟨pid, es⟩ := w
    rw [reapLoop]
    apply sm_sguard _ _ h
    intro _ _
    try dsimp only
    split
    · exact h
    · split
      · exact h
      · split
        · exact ih _ _ (sm_semit _ _ (by simp) h)
        · exact ih _ _ (sm_reapOne _ _ _ _ _ h)

theorem sm_reap {s0 : Sup} (s : Sup) (h : Sm s0 s) : Sm s0 (reap s) := by
  unfold reap
  apply sm_sguard _ _ h
  intro _ _
  try dsimp only
  split
  · exact sm_envExhausted h
  · exact sm_reapLoop _ _ _ (sm_frame h rfl rfl rfl)

theorem sm_pollDeferred {s0 : Sup} (d : Deferred) (s : Sup) (h : Sm s0 s) : Sm s0 (pollDeferred d s) := by
  unfold pollDeferred
  apply sm_sguard _ _ h
  intro _ _
  cases d with
  | startWait id name =>
    dsimp only
    split
    · exact h
    · split
      · exact sm_semit _ _ (by simp) h
      · exact sm_frame h rfl rfl rfl
  | stopWait id name =>
    dsimp only
    have h1 : Sm s0 (onProc name (fun cfg => stopReport cfg s.env.now) s) := sm_onProc _ _ _ h
    split
    · exact h1
    · split
      · exact sm_semit _ _ (by simp) h1
      · exact sm_frame h1 rfl rfl rfl

theorem sm_pollAll {s0 : Sup} (s : Sup) (h : Sm s0 s) : Sm s0 (pollAll s) := by
  unfold pollAll
  apply sm_sguard _ _ h
  intro _ _
  try dsimp only
  exact sm_foldl _ (fun acc d h => sm_pollDeferred d acc h) _ _ (sm_frame h rfl rfl rfl)

theorem sm_transitions {s0 : Sup} (order : List (Nat × Nat)) (s : Sup) (h : Sm s0 s) : Sm s0 (transitions order s) := by
  unfold transitions
  apply sm_sguard _ _ h
  intro _ _
  try dsimp only
  apply sm_foldl _ _ _ _ h
  intro acc ng h
  try dsimp only
  split
  · split
    · exact sm_procTransition _ _ h
    · exact h
  · exact h

/-! ### the pass as a whole -/

/-- since `s0`: the `stopping` flag was not cleared; STOPPING was announced at most once, and only
    together with setting the flag; the mood did not rise (and stayed a valid mood) -/
structure Fr (s0 s : Sup) : Prop where
  stop_mono : s0.stopping = true → s.stopping = true
  cnt : cntStopping s = cntStopping s0 ∨ (s0.stopping = false ∧ s.stopping = true ∧ cntStopping s = cntStopping s0 + 1)
  mood : moodSHUTDOWN ≤ s0.mood → s.mood ≤ s0.mood ∧ moodSHUTDOWN ≤ s.mood

theorem Fr.refl (s : Sup) : Fr s s := ⟨id, Or.inl rfl, fun h => ⟨Int.le_refl _, h⟩⟩

theorem fr_of_sm {s0 s s' : Sup} (h : Fr s0 s) (h' : Sm s s') : Fr s0 s' := by
  obtain ⟨h1, h2, h3⟩ := h
  obtain ⟨g1, g2, g3⟩ := h'
  refine ⟨fun h0 => by rw [g1]; exact h1 h0, ?_, fun h0 => by rw [g2]; exact h3 h0⟩
  rw [g3, g1]; exact h2

theorem fr_sguard {s0 : Sup} (f : M) (s : Sup) (h : Fr s0 s) (hf : s.err = none → s.exited = false → Fr s0 (f s)) :
    Fr s0 (sguard f s) := by
  unfold sguard
  cases he : s.err with
  | some x => simpa using h
  | none =>
    cases hx : s.exited with
    | true => simpa using h
    | false => simpa using hf he hx

theorem fr_sguard' {s0 : Sup} (f : M) (s : Sup) (h : Fr s0 s) (hf : Fr s0 s → Fr s0 (f s)) : Fr s0 (sguard f s) :=
  fr_sguard f s h (fun _ _ => hf h)

theorem fr_foldl {s0 : Sup} {α : Type} (f : Sup → α → Sup) (hf : ∀ acc x, Fr s0 acc → Fr s0 (f acc x)) (l : List α) (s : Sup)
    (h : Fr s0 s) : Fr s0 (l.foldl f s) := by
  induction l generalizing s with
  | nil => exact h
  | cons x xs ih => exact ih _ (hf _ _ h)

theorem fr_semit {s0 : Sup} (o : SOut) (s : Sup) (ho : o ≠ .stopping) (h : Fr s0 s) : Fr s0 (semit o s) :=
  fr_of_sm h (sm_semit o s ho (Sm.refl s))

theorem fr_frame {s0 s s' : Sup} (h : Fr s0 s) (h1 : s'.stopping = s.stopping) (h2 : s'.mood = s.mood)
    (h3 : cntStopping s' = cntStopping s) : Fr s0 s' := fr_of_sm h ⟨h1, h2, h3⟩

theorem fr_setPending {s0 : Sup} (s : Sup) (o : List Deferred) (h : Fr s0 s) : Fr s0 { s with pending := o } :=
  fr_frame h rfl rfl rfl

theorem fr_filterOuts {s0 : Sup} (s : Sup) (h : Fr s0 s) :
    Fr s0 { s with outs := s.outs.filter fun o => match o with | .proc _ (.answer _) => false | _ => true } :=
  fr_frame h rfl rfl (cnt_filter_answers _)

theorem fr_envExhausted {s0 s : Sup} (h : Fr s0 s) : Fr s0 { s with err := some .envExhausted } := fr_frame h rfl rfl rfl

theorem fr_onProc {s0 : Sup} (name : Nat) (f : Cfg → Proc.S → Proc.S) (s : Sup) (h : Fr s0 s) : Fr s0 (onProc name f s) :=
  fr_of_sm h (sm_onProc _ _ _ (Sm.refl s))

theorem fr_reap {s0 : Sup} (s : Sup) (h : Fr s0 s) : Fr s0 (reap s) := fr_of_sm h (sm_reap _ (Sm.refl s))

theorem fr_procTransition {s0 : Sup} (name : Nat) (s : Sup) (h : Fr s0 s) : Fr s0 (procTransition name s) :=
  fr_of_sm h (sm_procTransition _ _ (Sm.refl s))

/-- lowering the mood to SHUTDOWN, or — from RUNNING or above — to RESTARTING -/
theorem fr_setMood {s0 : Sup} (s : Sup) (m : Int) (h : Fr s0 s) (hm : moodSHUTDOWN ≤ s.mood → m ≤ s.mood ∧ moodSHUTDOWN ≤ m) :
    Fr s0 { s with mood := m } := by
  obtain ⟨h1, h2, h3⟩ := h
  refine ⟨h1, h2, fun h0 => ?_⟩
  obtain ⟨a, b⟩ := h3 h0
  obtain ⟨c, d⟩ := hm b
  exact ⟨Int.le_trans c a, d⟩

theorem fr_stop_tail {s0 : Sup} (id name : Nat) (wait : Bool) (c : Bool) (code : Int) (s2 : Sup) (h2 : Fr s0 s2) :
    Fr s0 (if (c && wait) = true then
        match findPE (if c = true then reap s2 else s2).procs name with
        | some e2 =>
          if (!decide (e2.p.state ∈ stoppedStates)) = true then
            semit (.deferredStart id) { (if c = true then reap s2 else s2) with
              pending := (if c = true then reap s2 else s2).pending ++ [.stopWait id name] }
          else semit (.answer id faultSUCCESS false) (if c = true then reap s2 else s2)
        | none => (if c = true then reap s2 else s2)
      else semit (.answer id code false) (if c = true then reap s2 else s2)) := by
  have h3 : Fr s0 (if c = true then reap s2 else s2) := by
    split
    · exact fr_reap _ h2
    · exact h2
  generalize (if c = true then reap s2 else s2) = s3 at h3 ⊢
  split
  · split
    · split
      · exact fr_semit _ _ (by simp) (fr_setPending _ _ h3)
      · exact fr_semit _ _ (by simp) h3
    · exact h3
  · exact fr_semit _ _ (by simp) h3

theorem popSpawn_fr {s0 : Sup} {c : Prop} [Decidable c] (s : Sup) (h : Fr s0 s) :
    Fr s0 (if c then popSpawn s else (some (SpawnRes.ok 0), s)).2 := by
  split
  · rcases popSpawn_cases s with h' | ⟨r, rs, _, h'⟩ <;> rw [h']
    · exact h
    · exact fr_frame h rfl rfl rfl
  · exact h

theorem fr_rpcOne {s0 : Sup} (r : Rpc) (s : Sup) (h : Fr s0 s) : Fr s0 (rpcOne r s) := by
  unfold rpcOne
  apply fr_sguard _ _ h
  intro he hx
  cases r with
  | shutdown id =>
    dsimp only
    split
    · exact fr_semit _ _ (by simp) h
    · apply fr_semit _ _ (by simp)
      apply fr_setMood _ _ h
      intro hm
      exact ⟨hm, Int.le_refl _⟩
  | restart id =>
    dsimp only
    split
    · exact fr_semit _ _ (by simp) h
    · rename_i hlt
      apply fr_semit _ _ (by simp)
      apply fr_setMood _ _ h
      intro hm
      rw [Sv.ilt_iff] at hlt
      simp only [moodRESTARTING, moodRUNNING, moodSHUTDOWN] at *
      omega
  | addGroup id gid =>
    dsimp only
    split
    · exact fr_semit _ _ (by simp) h
    · split
      · split <;> exact fr_semit _ _ (by simp) h
      · exact fr_semit _ _ (by simp) (fr_frame h rfl rfl rfl)
  | removeGroup id gid =>
    dsimp only
    split
    · exact fr_semit _ _ (by simp) h
    · split
      · exact fr_semit _ _ (by simp) h
      · split
        · exact fr_semit _ _ (by simp) h
        · exact fr_semit _ _ (by simp) (fr_frame h rfl rfl rfl)
  | start id name wait missing =>
    dsimp only
    split
    · exact fr_semit _ _ (by simp) h
    · split
      · exact fr_semit _ _ (by simp) h
      · split
        · exact fr_semit _ _ (by simp) h
        · split
          · exact fr_envExhausted h
          · refine fr_sguard' _ _ (fr_reap _ (fr_onProc _ _ _ (popSpawn_fr s h))) ?_
            intro h2
            try dsimp only
            split
            · exact h2
            · split
              · exact fr_semit _ _ (by simp) h2
              · refine fr_sguard' _ _ (fr_procTransition _ _ h2) ?_
                intro h3
                try dsimp only
                split
                · exact h3
                · split
                  · exact fr_semit _ _ (by simp) (fr_setPending _ _ h3)
                  · exact fr_semit _ _ (by simp) h3
  | stop id name wait =>
    dsimp only
    split
    · exact fr_semit _ _ (by simp) h
    · split
      · exact fr_semit _ _ (by simp) h
      · split
        · exact fr_envExhausted h
        · apply fr_stop_tail
          apply fr_filterOuts
          apply fr_onProc
          exact fr_of_sm h (popKill_sm s (Sm.refl s))
  | signal id name sig =>
    dsimp only
    split
    · exact fr_semit _ _ (by simp) h
    · split
      · exact fr_semit _ _ (by simp) h
      · split
        · exact fr_semit _ _ (by simp) h
        · split
          · exact fr_envExhausted h
          · apply fr_semit _ _ (by simp)
            apply fr_filterOuts
            apply fr_onProc
            exact fr_of_sm h (popKill_sm s (Sm.refl s))

theorem fr_rpcGuarded {s0 : Sup} (r : Rpc) (s : Sup) (h : Fr s0 s) : Fr s0 (rpcGuarded r s) := by
  unfold rpcGuarded
  apply fr_sguard _ _ h
  intro _ _
  try dsimp only
  have h1 := fr_rpcOne r s h
  split
  · exact fr_frame h1 rfl rfl rfl
  · exact h1

theorem newMood_le (mood sig : Int) (hlo : moodSHUTDOWN ≤ mood) : newMood mood sig ≤ mood ∧ moodSHUTDOWN ≤ newMood mood sig := by
  simp only [newMood, handle_signal_g0, handle_signal_g1, handle_signal_g2, handle_signal_g3, handle_signal_a1, handle_signal_a2]
  (repeat' split) <;> (simp only [moodSHUTDOWN, moodRESTARTING, moodRUNNING, beq_iff_eq] at *) <;> omega

theorem fr_handleSignal {s0 : Sup} (s : Sup) (h : Fr s0 s) : Fr s0 (handleSignal s) := by
  unfold handleSignal
  apply fr_sguard _ _ h
  intro _ _
  try dsimp only
  split
  · exact h
  · exact fr_setMood _ _ h (fun hm => newMood_le _ _ hm)

/-- the only place the flag is set and STOPPING is announced -/
theorem fr_shutdownPhase1 {s0 : Sup} (s : Sup) (h : Fr s0 s) : Fr s0 (shutdownPhase1 s) := by
  unfold shutdownPhase1
  apply fr_sguard _ _ h
  intro he hx
  try dsimp only
  split
  · have h1 : Fr s0 (if runforever_g2 s.mood 0 0 0 s.stopping false = true then
        semit .stopping { s with stopping := true, stopGroups := (sortedGroups s).map (·.1) } else s) := by
      split
      · rename_i hg2
        have hst : s.stopping = false := by simpa [runforever_g2] using hg2
        have hsem : semit .stopping { s with stopping := true, stopGroups := (sortedGroups s).map (·.1) } =
            { s with stopping := true, stopGroups := (sortedGroups s).map (·.1), outs := s.outs ++ [.stopping] } := by
          simp [semit, sguard, he, hx]
        rw [hsem]
        obtain ⟨a, b, c⟩ := h
        have hs0 : s0.stopping = false := by
          cases h0 : s0.stopping with
          | false => rfl
          | true => rw [a h0] at hst; exact absurd hst (by simp)
        have hcnt : cntStopping s = cntStopping s0 := by
          rcases b with b | ⟨_, b, _⟩
          · exact b
          · rw [b] at hst; exact absurd hst (by simp)
        refine ⟨fun _ => rfl, Or.inr ⟨hs0, rfl, ?_⟩, c⟩
        rw [← hcnt]
        simp [cntStopping, List.filter_append]
      · exact h
    apply fr_of_sm _ (sm_exitTest _ (Sm.refl _))
    split
    · exact fr_of_sm h1 (sm_stopAll _ _ (Sm.refl _))
    · exact h1
  · exact h

theorem fr_pass {s0 : Sup} (env : Env) (s : Sup) (h : Fr s0 s) : Fr s0 (pass env s) := by
  unfold pass
  apply fr_sguard _ _ h
  intro _ _
  try dsimp only
  apply fr_shutdownPhase1
  apply fr_of_sm _ (sm_shutdownPhase2 _ (Sm.refl _))
  apply fr_handleSignal
  apply fr_reap
  apply fr_of_sm _ (sm_transitions _ _ (Sm.refl _))
  have h1 : Fr s0 (env.rpcs.foldl (fun acc r => rpcGuarded r acc) { s with env := env }) :=
    fr_foldl _ (fun acc r h => fr_rpcGuarded r acc h) _ _ (fr_frame h rfl rfl rfl)
  split
  · exact fr_of_sm h1 (sm_pollAll _ (Sm.refl _))
  · exact h1

theorem fr_passes (envs : List Env) (s : Sup) : Fr s (passes envs s) :=
  fr_foldl _ (fun acc e h => fr_pass e acc h) _ _ (Fr.refl s)

end Sv.Sup
