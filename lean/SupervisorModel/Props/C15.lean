-- stub: replaced by the property author
namespace Sv.Props.C15
end Sv.Props.C15
