import SupervisorModel.Lemmas.SupInvPass
import SupervisorModel.Model.Robust
/-
  C06 — the main loop survives anything its children, listeners or the kernel do.

  The only exceptions the process/daemon logic itself can raise are the AssertionErrors of
  `_assertInState`; everything else the loop does with a process is total.  The theorems show that
  no operation the main loop or an API request performs on a process can trip such an assertion,
  for any process state the daemon can be in (the bookkeeping invariant `Inv`, preserved by every
  history: `state_pid_agree` in C02), any configuration, clock reading, daemon mood and
  environment answer (spawn failures of every kind, signal-delivery failures, any exit status).
  Robustness of the dispatcher parsers against arbitrary bytes is C07/C08/C10.
-/
set_option linter.unusedSimpArgs false
set_option linter.unusedVariables false
namespace Sv.Props.C06
open Sv Sv.Proc Sv.Gen.Proc Sv.Sup Sv.Gen.Sup

/-- a pass over a process never raises -/
theorem no_assertion_in_transition (cfg : Cfg) (p : Proc) (now mood : Int) (res : SpawnRes) (kr : KillRes) (hi : Inv p) :
    (transition cfg now mood res kr { p := p }).err = none := transition_ok [] cfg p now mood res kr hi

/-- reaping never raises: whatever state the owner of the pid is in — STARTING, RUNNING, STOPPING or
    UNKNOWN after a failed signal delivery (fix F9) — whatever the exit status and the clock -/
theorem no_assertion_in_reap (cfg : Cfg) (p : Proc) (now es : Int) (busy : Bool) (hi : Inv p) (hp : p.pid ≠ 0)
    (hw : 0 ≤ cfg.startsecs) : (finish cfg now es busy { p := p }).err = none := finish_ok [] cfg p now es busy hi hp hw

/-- `stop_all` never raises, in any state -/
theorem no_assertion_in_group_stop (cfg : Cfg) (p : Proc) (now : Int) (kr : KillRes) :
    (groupStop cfg now kr { p := p }).err = none := groupStop_ok [] cfg now kr p

/-- stop and signal requests never raise, in any state and for any delivery result -/
theorem no_assertion_in_stop_signal (cfg : Cfg) (p : Proc) (now mood sig : Int) (kr : KillRes) :
    (rpcStop cfg now mood kr { p := p }).err = none ∧ (rpcSignal cfg now mood sig kr { p := p }).err = none :=
  ⟨rpcStop_ok [] cfg now mood kr p, rpcSignal_ok [] cfg now mood sig kr p⟩

/-- a start request never raises -/
theorem no_assertion_in_start (cfg : Cfg) (p : Proc) (now mood : Int) (res : SpawnRes) (hw : wfSpawn res) (hi : Inv p) :
    (rpcStart cfg now mood res { p := p }).err = none := by
  have hemit : ∀ (o : Out) (s : S), (emit o s).err = s.err := by
    intro o s; obtain ⟨q, os, err⟩ := s; cases err <;> simp [emit, guard]
  simp only [rpcStart, guard, Option.isSome_none, Bool.false_eq_true, if_false, answer]
  split
  · rw [hemit]
  · split
    · rw [hemit]
    · rename_i href
      have hst : p.state = .exited ∨ p.state = .stopped ∨ p.state = .backoff ∨ p.state = .fatal := by
        simp only [startRefusal] at href
        cases hs : p.state <;> simp_all [runningStates] <;> (split at href <;> simp_all)
      have hsp := spawn_ok [] cfg now res p hst
      (try dsimp only)
      split
      · rw [hemit]; exact hsp
      · rw [hemit]
        have hinv := spawn_inv cfg now res { p := p } hw hi
        generalize hr : spawn cfg now res { p := p } = r at *
        obtain ⟨q, os, err⟩ := r
        simp only at hsp; subst hsp
        exact transition_ok os cfg q now mood res .ok hinv

/-- **Every operation of the loop and of the API is total on reachable process states.** -/
theorem no_assertion_in_pass_ops (cfg : Cfg) (p : Proc) (op : Op) (hw : wfOp op) (hi : Inv p)
    (hreap : ∀ now es busy, op = .reap now es busy → p.pid ≠ 0 ∧ 0 ≤ cfg.startsecs) :
    (stepP cfg p op).err = none := by
  cases op <;> simp only [stepP, step]
  · exact transition_ok [] _ _ _ _ _ _ hi
  · rename_i now es busy
    obtain ⟨h1, h2⟩ := hreap now es busy rfl
    exact finish_ok [] _ _ _ _ _ hi h1 h2
  · exact no_assertion_in_start _ _ _ _ _ hw hi
  · exact rpcStop_ok [] _ _ _ _ _
  · exact rpcSignal_ok [] _ _ _ _ _ _
  · exact groupStop_ok [] _ _ _ _
  · -- stop_report: rollback and a timestamp
    simp only [stopReport, guard, Option.isSome_none, Bool.false_eq_true, if_false]
    split <;> simp [setP, guard]

/-- a history in which `waitpid` only returns pids of processes that hold a child -/
def reapsOwned (cfg : Cfg) : Proc → List Op → Prop
  | _, [] => True
  | p, op :: ops =>
    (∀ now es busy, op = .reap now es busy → p.pid ≠ 0) ∧ wfOp op ∧ reapsOwned cfg (stepP cfg p op).p ops

/-- **No history makes an operation raise**: from the initial state, for every sequence of operations
    with well-formed environment answers in which reaps are for held children, not a single
    operation ends with an exception -/
theorem history_no_exception (cfg : Cfg) (ops : List Op) (h : Hist) (hw : 0 ≤ cfg.startsecs) (hi : Inv h.p)
    (hr : reapsOwned cfg h.p ops) : (run cfg h ops).errs = h.errs := by
  induction ops generalizing h with
  | nil => rfl
  | cons op ops ih =>
    obtain ⟨h1, h2, h3⟩ := hr
    simp only [run]
    have hok := no_assertion_in_pass_ops cfg h.p op h2 hi (fun now es busy he => ⟨h1 now es busy he, hw⟩)
    rw [ih _ (step_inv cfg h.p op h2 hi) h3]
    simp [hok]

/-- an exception inside an API request is contained by the per-dispatcher guard of the loop:
    `rpcGuarded` never leaves the daemon in the failed state -/
theorem rpc_errors_contained (r : Rpc) (s : Sup) (he : s.err = none) : (rpcGuarded r s).err ≠ some .assertion := by
  simp only [rpcGuarded, sguard, he, Option.isSome_none, Bool.false_eq_true, Bool.false_or]
  split
  · simp [he]
  · split <;> simp_all

-- non-vacuity: a history with a failed delivery (UNKNOWN) followed by the reap that used to kill the daemon
def cfgX : Cfg where
  startsecs := 1024
  startretries := 3
  autostart := true
  autorestart := .unexpected
  exitcodes := [0]
  stopsignal := 15
  stopwaitsecs := 10240
  stopasgroup := false
  killasgroup := false
example : (run cfgX { p := {} } [.transition 1024000 1 (.ok 7) .ok, .transition 1026000 1 (.ok 8) .ok, .rpcStop 1030200 1 .fail,
    .reap 1030300 0 false]).errs = 0 ∧
  (run cfgX { p := {} } [.transition 1024000 1 (.ok 7) .ok, .transition 1026000 1 (.ok 8) .ok, .rpcStop 1030200 1 .fail,
    .reap 1030300 0 false]).p.state = .unknown := by decide +kernel

/-- **The daemon never dies of an AssertionError.**  From any configuration with distinct process
    names, fresh process objects and non-negative `startsecs`, after any number of passes of
    `runforever()` under any environments (any clock readings, any fork / signal-delivery / waitpid
    answers — fork honouring the kernel's contract —, any signals, any RPCs including group
    removal and re-addition), no `_assertInState` failure has escaped to the main loop: neither from
    `transition()`, nor from `finish()` in `reap()`, nor from `stop_all`, nor (swallowed or not) from
    an RPC. -/
theorem daemon_never_asserts (procs dormant : List PE) (hn : ((procs ++ dormant).map (·.name)).Nodup)
    (hp : ∀ e ∈ procs, e.p = {}) (hc : ∀ e ∈ procs ++ dormant, 0 ≤ e.cfg.startsecs) (envs : List Sup.Env) :
    (passes envs { procs := procs, dormant := dormant }).err ≠ some .assertion :=
  (passes_good envs _ (init_good procs dormant hn hp hc)).2

/-- **No RPC raises an AssertionError either** (so the per-dispatcher guard of `rpcGuarded` has nothing
    to swallow): on a state satisfying the daemon invariant, `rpcOne` ends without assertion. -/
theorem rpc_never_asserts (r : Rpc) (s : Sup) (h : Good s) : (rpcOne r s).err ≠ some .assertion :=
  (rpcOne_good r s h).2

-- non-vacuity: a two-process configuration meets the hypotheses
def peA : PE := { name := 0, gid := 0, gprio := 999, prio := 999, cfg := cfgX }
def peB : PE := { name := 1, gid := 1, gprio := 999, prio := 1, cfg := cfgX }
example : (List.map (fun (e : PE) => e.name) ([peA] ++ [peB])).Nodup ∧ (∀ e ∈ [peA], e.p = {}) ∧
    (∀ e ∈ [peA] ++ [peB], 0 ≤ e.cfg.startsecs) := by decide

/-! ### transient kernel errors on the spawn path, hostile bytes in the dispatchers

  The process/daemon model above abstracts a failing spawn as the environment answer `pipeerr` /
  `forkerr`.  That abstraction is only right if the failure really reaches `Subprocess.spawn` as an
  exception of a class it handles.  `Sv.Robust.makePipes` interprets the regenerated statement table
  of `ServerOptions.make_pipes` over a kernel in which any one `pipe()` / `fcntl()` call fails and in
  which closing or fcntl-ing `None` is a TypeError (as in the real `os` / `fcntl`). -/
section Robust
open Sv.Robust Sv.Gen.Robust

/-- `make_pipes` makes at most nine fallible system calls (three `pipe()`, two `fcntl()` for each of
    the three parent-side descriptors), so a single failure is a failure at an index below 9 -/
theorem make_pipes_call_count (us : Bool) : (makePipes us none).calls ≤ 9 := by
  cases us <;> decide

/-- without a failure: all requested descriptors, pairwise different, all open, `None` for the
    stderr pair when no stderr pipe is wanted -/
theorem make_pipes_ok :
    (makePipes true none).res = .ok [("child_stdin", some 0), ("stdin", some 1), ("stdout", some 2), ("child_stdout", some 3),
                                     ("stderr", some 4), ("child_stderr", some 5)] ∧
    (makePipes true none).stillOpen = [0, 1, 2, 3, 4, 5] ∧
    (makePipes false none).res = .ok [("child_stdin", some 0), ("stdin", some 1), ("stdout", some 2), ("child_stdout", some 3),
                                      ("stderr", none), ("child_stderr", none)] ∧
    (makePipes false none).stillOpen = [0, 1, 2, 3] := by decide

/-- the descriptor stored under `key` by a successful `make_pipes` -/
def fdOf (us : Bool) (key : String) : Option Nat :=
  match (makePipes us none).res with
  | .ok p => (p.lookup key).join
  | _ => none

/-- **every parent-side descriptor is non-blocking**: the ends the main loop reads (stdout, stderr) and
    writes (stdin) — a blocking one would hang the single-threaded loop on a child that does not
    read its stdin or on a spurious wake-up — and only those (the child's ends stay blocking) -/
theorem make_pipes_parent_ends_nonblocking (us : Bool) :
    (∀ key ∈ ["stdin", "stdout", "stderr"], ∀ fd, fdOf us key = some fd → fd ∈ (makePipes us none).nonblock) ∧
    (∀ key ∈ ["child_stdin", "child_stdout", "child_stderr"], ∀ fd, fdOf us key = some fd → fd ∉ (makePipes us none).nonblock) ∧
    fdOf us "stdin" ≠ none ∧ fdOf us "stdout" ≠ none ∧ (us = true → fdOf us "stderr" ≠ none) := by
  cases us <;> decide

/-- **a failing `pipe()` or `fcntl()` leaves `make_pipes` as an OSError with every descriptor it had
    opened closed again** — for the first, second and third pipe and every `fcntl`, with or without a
    stderr pipe (an index beyond the calls actually made is no failure at all).  In particular the
    clean-up never replaces the OSError by a TypeError (`os.close(None)`) and leaks nothing. -/
theorem make_pipes_fails_cleanly (us : Bool) (i : Fin 9) :
    ((makePipes us (some i.val)).res = .raised .oserror ∧ (makePipes us (some i.val)).stillOpen = []) ∨
    makePipes us (some i.val) = makePipes us none := by
  revert us i; decide

/-- every one of those indices below the call count is a real failure (the disjunction above is not
    satisfied trivially) -/
theorem make_pipes_failure_is_raised (us : Bool) (i : Fin 9) (h : i.val < (makePipes us none).calls) :
    (makePipes us (some i.val)).res = .raised .oserror := by
  revert us i; decide

/-- **`spawn()` handles whatever `make_pipes` raises**: the process goes to BACKOFF (the model's
    `pipeerr`), nothing travels on through `transition()` to `runforever()`; the same for `fork()` -/
theorem spawn_survives_pipe_failure (us : Bool) (f : Option (Fin 9)) :
    spawnSurvives (makePipes us (f.map (·.val))) = true := by
  cases f with
  | none => revert us; decide
  | some i => revert us i; decide

theorem spawn_handles_fork_failure : catchesOSError spawnForkCatches = true := by decide

-- why the `None` test of the clean-up matters: `os.close(None)` is a TypeError, which neither an `except OSError`
-- around `os.close` nor an `except (OSError, IOError)` around `make_dispatchers()` catches
example : catchesTypeError ["OSError"] = false ∧ catches ["OSError", "IOError"] .typeerror = false ∧
    catches ["OSError", "IOError"] .oserror = true := by decide

/-- **no conversion of child or listener bytes to text in a dispatcher is unguarded**: every strict
    decode in supervisor/dispatchers.py sits in the body of a `try` that catches UnicodeDecodeError
    (dispatcher code is run by `finish()` → `drain()` outside the loop's per-dispatcher guard, where an
    escaping exception ends `runforever()`) -/
theorem dispatcher_decodes_guarded : ∀ site ∈ dispatcherDecodeSites, catchesDecodeError site.2.2 = true := by decide

/-- `readfd` turns the transient errnos of a non-blocking pipe read into "no data" -/
theorem readfd_tolerates_transient :
    catchesOSError readfdCatches = true ∧ errnoEAGAIN ∈ readfdToleratesNum ∧ errnoEINTR ∈ readfdToleratesNum ∧
    errnoEBADF ∈ readfdToleratesNum := by decide

end Robust

end Sv.Props.C06
