"""
supervisor/loggers.py FileHandler / RotatingFileHandler: every comparison of doRollover,
removeAndRename and FileHandler.remove as sites; plus (TABLES) what the statement-level
extractor does not reach: the range() bounds of the backup-shifting loop, the index arithmetic
of the "%s.%d" names, the literal open() modes and errno.ENOENT.
"""
import ast, errno, os
import extract
from extract import Site, Tr, find_func, Untranslatable

LEAN_MODULE = 'Rotate'
IMPORTS = []
OPENS = []

_PARAMS = '(maxBytes backupCount tell i : Int) (sfnExists : Bool)'
_vars = {
    'self.maxBytes': ('maxBytes', 'int'), 'self.backupCount': ('backupCount', 'int'),
    'self.stream.tell()': ('tell', 'int'), 'i': ('i', 'int'),
    'os.path.exists(sfn)': ('sfnExists', 'bool'),
}
_EPARAMS = '(dfnExists : Bool) (oserrno : Int)'
_evars = {
    'self._exists(dfn)': ('dfnExists', 'bool'), 'why.args[0]': ('oserrno', 'int'),
}
_econsts = {'errno.ENOENT': 'ENOENT'}

SITES = [
    Site('supervisor/loggers.py', 'RotatingFileHandler.doRollover', 'doRollover', _PARAMS, _vars),
    Site('supervisor/loggers.py', 'RotatingFileHandler.removeAndRename', 'removeAndRename', _EPARAMS, _evars, _econsts),
    Site('supervisor/loggers.py', 'FileHandler.remove', 'fhRemove', _EPARAMS, _evars, _econsts),
    Site('supervisor/loggers.py', 'RotatingFileHandler.emit', 'rfhEmit', _EPARAMS, _evars, _econsts),
    Site('supervisor/loggers.py', 'FileHandler.reopen', 'fhReopen', _EPARAMS, _evars, _econsts),
]


def _name_index(tr, e, what):
    """index expression of a backup file name:  "%s.%d" % (self.baseFilename, X) -> X ;
    self.baseFilename + ".K" -> K ; self.baseFilename -> 0"""
    if ast.unparse(e) == 'self.baseFilename':
        return '(0 : Int)'
    if (isinstance(e, ast.BinOp) and isinstance(e.op, ast.Mod) and isinstance(e.left, ast.Constant)
            and e.left.value == '%s.%d' and isinstance(e.right, ast.Tuple) and len(e.right.elts) == 2
            and ast.unparse(e.right.elts[0]) == 'self.baseFilename'):
        return tr.expr(e.right.elts[1])
    if (isinstance(e, ast.BinOp) and isinstance(e.op, ast.Add) and ast.unparse(e.left) == 'self.baseFilename'
            and isinstance(e.right, ast.Constant) and isinstance(e.right.value, str)
            and e.right.value.startswith('.') and e.right.value[1:].isdigit()):
        return '(%d : Int)' % int(e.right.value[1:])
    raise Untranslatable('%s: file name expression %s' % (what, ast.unparse(e)))


def _mode_truncates(e, what):
    if isinstance(e, ast.Constant) and isinstance(e.value, str):
        m = e.value
        if 'a' in m and 'w' not in m: return 'false'
        if 'w' in m and 'a' not in m: return 'true'
    raise Untranslatable('%s: open mode %s' % (what, ast.unparse(e)))


def TABLES():
    src = open(os.path.join(extract.REPO, 'supervisor/loggers.py')).read()
    tree = ast.parse(src)
    out = ['def ENOENT : Int := %d' % errno.ENOENT, '']
    # ---- doRollover: loop bounds, name indices, mode of the final open --------------------
    func = find_func(tree, 'RotatingFileHandler.doRollover')
    tr = Tr(SITES[0], func)
    loops = [n for n in ast.walk(func) if isinstance(n, ast.For)]
    if len(loops) != 1:
        raise Untranslatable('doRollover: expected exactly one for loop, found %d' % len(loops))
    loop = loops[0]
    it = loop.iter
    if not (isinstance(it, ast.Call) and ast.unparse(it.func) == 'range' and len(it.args) == 3
            and isinstance(loop.target, ast.Name) and loop.target.id == 'i'):
        raise Untranslatable('doRollover: loop is not `for i in range(a, b, c)`: ' + ast.unparse(it))
    for nm, a in zip(('rangeStart', 'rangeStop', 'rangeStep'), it.args):
        out.append('-- doRollover:%d  range(...) %s = %s' % (loop.lineno, nm, ast.unparse(a)))
        out.append('def doRollover_%s %s : Int := %s' % (nm, _PARAMS, tr.expr(a)))
    assigns = {}
    for n in ast.walk(loop):
        if isinstance(n, ast.Assign) and isinstance(n.targets[0], ast.Name):
            assigns[n.targets[0].id] = n
    calls = [n for n in ast.walk(loop) if isinstance(n, ast.Call) and ast.unparse(n.func) == 'self.removeAndRename']
    if len(calls) != 1 or [ast.unparse(a) for a in calls[0].args] != ['sfn', 'dfn'] or not {'sfn', 'dfn'} <= set(assigns):
        raise Untranslatable('doRollover: loop body is not sfn=..; dfn=..; removeAndRename(sfn, dfn)')
    for nm in ('sfn', 'dfn'):
        n = assigns[nm]
        out.append('-- doRollover:%d  %s = %s' % (n.lineno, nm, ast.unparse(n.value)))
        out.append('def doRollover_%sIdx %s : Int := %s' % (nm, _PARAMS, _name_index(tr, n.value, nm)))
    # the rename of the live file after the loop
    post = [n for n in ast.walk(func) if isinstance(n, ast.Call) and ast.unparse(n.func) == 'self.removeAndRename'
            and n is not calls[0]]
    if len(post) != 1 or len(post[0].args) != 2:
        raise Untranslatable('doRollover: expected one removeAndRename call after the loop')
    top = {n.targets[0].id: n for n in ast.walk(func) if isinstance(n, ast.Assign) and isinstance(n.targets[0], ast.Name)
           and n.lineno > loop.end_lineno}
    def resolve(e):
        if isinstance(e, ast.Name) and e.id in top:
            return top[e.id].value
        return e
    out.append('-- doRollover:%d  %s' % (post[0].lineno, ast.unparse(post[0])))
    out.append('def doRollover_liveSrcIdx : Int := %s' % _name_index(tr, resolve(post[0].args[0]), 'live source'))
    out.append('def doRollover_liveDstIdx : Int := %s' % _name_index(tr, resolve(post[0].args[1]), 'live destination'))
    opens = [n for n in ast.walk(func) if isinstance(n, ast.Call) and ast.unparse(n.func) == 'open']
    if len(opens) != 1 or len(opens[0].args) != 2:
        raise Untranslatable('doRollover: expected exactly one open(name, mode)')
    out.append('-- doRollover:%d  %s' % (opens[0].lineno, ast.unparse(opens[0])))
    out.append('def doRollover_openIdx : Int := %s' % _name_index(tr, opens[0].args[0], 'open'))
    out.append('def doRollover_openTruncates : Bool := %s' % _mode_truncates(opens[0].args[1], 'doRollover open'))
    # ---- constructors: the mode the handler re-opens with ---------------------------------
    init = find_func(tree, 'FileHandler.__init__')
    d = dict(zip([a.arg for a in init.args.args][-len(init.args.defaults):], init.args.defaults))
    out.append("-- FileHandler.__init__:%d  mode=%s   (reopen() uses self.mode)" % (init.lineno, ast.unparse(d['mode'])))
    out.append('def fileHandler_modeTruncates : Bool := %s' % _mode_truncates(d['mode'], 'FileHandler mode'))
    rinit = find_func(tree, 'RotatingFileHandler.__init__')
    forced = [n for n in ast.walk(rinit) if isinstance(n, ast.Assign) and ast.unparse(n.targets[0]) == 'mode']
    if len(forced) != 1:
        raise Untranslatable('RotatingFileHandler.__init__: expected one `mode = ...`')
    out.append("-- RotatingFileHandler.__init__:%d  if maxBytes > 0: mode = %s" % (forced[0].lineno, ast.unparse(forced[0].value)))
    out.append('def rotatingHandler_modeTruncates : Bool := %s' % _mode_truncates(forced[0].value, 'RotatingFileHandler mode'))
    # FileHandler.remove / reopen: which name they act on
    rm = find_func(tree, 'FileHandler.remove')
    rcalls = [n for n in ast.walk(rm) if isinstance(n, ast.Call) and ast.unparse(n.func) == 'os.remove']
    if len(rcalls) != 1:
        raise Untranslatable('FileHandler.remove: expected one os.remove')
    out.append('-- FileHandler.remove:%d  %s' % (rcalls[0].lineno, ast.unparse(rcalls[0])))
    out.append('def fhRemove_idx : Int := %s' % _name_index(tr, rcalls[0].args[0], 'remove'))
    ro = find_func(tree, 'FileHandler.reopen')
    ocalls = [n for n in ast.walk(ro) if isinstance(n, ast.Call) and ast.unparse(n.func) == 'open']
    if len(ocalls) != 1 or ast.unparse(ocalls[0].args[1]) != 'self.mode':
        raise Untranslatable('FileHandler.reopen: expected open(self.baseFilename, self.mode)')
    out.append('-- FileHandler.reopen:%d  %s' % (ocalls[0].lineno, ast.unparse(ocalls[0])))
    out.append('def fhReopen_idx : Int := %s' % _name_index(tr, ocalls[0].args[0], 'reopen'))
    # ---- POutputDispatcher.removelogs / reopenlogs: which loggers they walk, which handler methods they call ----
    dsrc = open(os.path.join(extract.REPO, 'supervisor/dispatchers.py')).read()
    dtree = ast.parse(dsrc)
    for fn in ('removelogs', 'reopenlogs'):
        f = find_func(dtree, 'POutputDispatcher.' + fn)
        loops = [n for n in ast.walk(f) if isinstance(n, ast.For)]
        inner = [l for l in loops if isinstance(l.target, ast.Name) and l.target.id == 'handler']
        if len(inner) != 1:
            raise Untranslatable('POutputDispatcher.%s: one `for handler in ...` loop expected' % fn)
        it = ast.unparse(inner[0].iter)
        outer = [l for l in loops if l is not inner[0]]
        if it == 'log.handlers' and len(outer) == 1 and isinstance(outer[0].iter, (ast.Tuple, ast.List)) \
                and isinstance(outer[0].target, ast.Name) and outer[0].target.id == 'log':
            targets = [ast.unparse(e) for e in outer[0].iter.elts]
        elif it.endswith('.handlers') and not outer:
            targets = [it[:-len('.handlers')]]
        else:
            raise Untranslatable('POutputDispatcher.%s: loop shape %s' % (fn, it))
        calls = []
        for st in inner[0].body:
            if not (isinstance(st, ast.Expr) and isinstance(st.value, ast.Call) and isinstance(st.value.func, ast.Attribute)
                    and ast.unparse(st.value.func.value) == 'handler' and not st.value.args):
                raise Untranslatable('POutputDispatcher.%s: handler.<method>() statements expected' % fn)
            calls.append(st.value.func.attr)
        out.append('-- POutputDispatcher.%s:%d  for handler in the handlers of %s: %s' % (
            fn, f.lineno, ', '.join(targets), '; '.join('handler.%s()' % c for c in calls)))
        out.append('def %s_targets : List String := [%s]' % (fn, ', '.join(extract.lean_str(t) for t in targets)))
        out.append('def %s_calls : List String := [%s]' % (fn, ', '.join(extract.lean_str(c) for c in calls)))
    return out
