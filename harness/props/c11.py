"""
C11 -- event notifications tell the truth.

Implementation side:
  * envelopes: a real EventListenerPool with one READY listener (DummyProcess from the repo's test kit as the
    listener's stdin); a real event object of every concrete class is dispatched with _dispatchEvent and the bytes
    that arrive on the listener's stdin are the observable;
  * payloads: the real event classes' payload();
  * ticks: the real Supervisor.tick() under a patched clock (time.time), events observed through events.subscribe.
  * what is announced and when (props/_c11_notify.py): histories of group additions / removals on the real Supervisor with a
    fault at every point where one can fail; the real Subprocess.finish over a real POutputDispatcher; the real
    Subprocess.change_state; and the unmodified Supervisor.run()/runforever() over harness/simkernel.py with children that
    write, exit, are restarted, groups added / removed at run time (a FastCGI group whose socket cannot be bound included),
    clock steps, shutdown requests, sendRemoteCommEvent calls.
  * several listener pools with listeners of the same names (props/_c11_pools.py): what every listener was told, read back
    from its stdin, against what was announced -- one notification per announcement and pool, only of subscribed types.
Correspondence against Model/Envelope.lean, Model/Tick.lean, Model/Notify.lean and (pools) Model/Pool.lean.
Monitors: an independent, byte-oriented listener-side parser (not childutils) applied to the bytes written, the tick rule
recomputed with exact integer arithmetic, and every notification kind against the ground truth it announces (the keys of
supervisord.process_groups, the simulated kernel's child table and pipe reads, the daemon state, the clock, the RPC calls).
"""
import os, sys, types
from framework import Infra

ID = 'C11'
LEAN_PROPS = 'SupervisorModel.Props.C11'
DRIVER = 'drv_c11'
GENERATED = ['Envelope', 'EventNames', 'Tick', 'Notify', 'OutDisp', 'Events', 'Listener', 'Pool']
TRUSTED = [
    "docs/events.rst of the tree under verification is the reference for the event type names and their hierarchy (harness/sites/events.py)",
    "modelled, not verified: Python's '%' formatting with %s/%(k)s conversions of str and int, str.encode('utf-8') "
    "(the encoder is defined in Lean and compared with Python's on every payload), dict iteration order = insertion order",
    "getProcessStateDescription (the state-name table belongs to C01) and the values pid/tries/expected handed to the "
    "event constructor: that they are the values at the moment of the change is C01's observer theorem, not re-proved here",
    "a group is 'live' (for a listener pool: subscribed) from make_group() until before_remove(): proved equal to membership of the table over every "
    "history and fault point, refused removals included (okLive / group_history_subscriptions); observed through the group objects' before_remove "
    "calls and, for the listener pool, by announcing an event after every operation; "
    "one-notification-per-announced-thing is proved here for sendRemoteCommEvent, for group additions / removals (every history, "
    "every fault point; over the regenerated statement order of add_process_group / remove_process_group), for the output flushed "
    "while a child is reaped (over the regenerated statement order of Subprocess.finish and the dispatcher model of C07/C08) and for "
    "change_state; SUPERVISOR_STATE_CHANGE and the agreement of PROCESS_STATE notifications with the kernel's child table over daemon "
    "histories are monitored under the real main loop (L2), not proved here (C05's daemon invariant proves STOPPING is announced once)",
    "Model/Notify.lean: opaque calls (after_setuid, make_group, before_remove, ...) either return or raise and have no other effect on "
    "the table or the notifications; harness/simkernel.py stands for the kernel in the L2 runs (as in C02/C05/C06/C07)",
    "clock readings are dyadic (n/1024 s) so that float % and int() are exact; lone surrogates in names/payloads are outside the inputs",
]
ASSUMPTIONS = ["names and identifiers are free of spaces, colons and newlines (the property's own restriction)"]
RULE = ("envelope cases = (identifier, pool name, serials, concrete event class, payload text) with payload classes empty / ASCII / "
        "Latin-1 / BMP / astral / mixed / containing newlines, colons and 'len:' look-alikes; payload cases = every event class "
        "with its constructor arguments incl. non-UTF-8 byte data; tick cases = clock reading sequences (regular, irregular, "
        "skipping slices, backwards, repeated); group histories = every sequence of up to 3 (thorough: 4) operations add / remove x two groups x "
        "every fault point (after_setuid, make_group, before_remove raising; processes still running), directly or through the RPC methods, "
        "plus random longer ones with a FastCGI group whose socket directory comes and goes; reaping cases = (dispatcher configuration, "
        "token-aware stream, cut into reads made while the child lives and the read made by finish(), which branch of finish()), every cut of "
        "every stream of up to 3 symbols over {BEGIN, END, token prefix, x}; change_state cases = all state pairs, random counters; L2 scenarios "
        "= random simkernel scripts (2-5 programs in 2-3 groups, tagged writes incl. whole and split capture sections, exits in the pass of the "
        "last write with 20-50% of ready descriptors not reported, autorestart, fork/pipe faults, start/stop RPCs, group add/remove/stop, "
        "sendRemoteCommEvent, clock jumps forwards and backwards, shutdown signals); after every group operation (refused removals of a pool with "
        "a running member included) a TICK_5 is announced and must be offered to listener pool b exactly when b is in the table; "
        "pool histories = 2-3 real listener pools in the process_groups of a real Supervisor, pools removed (refused while a listener runs, or "
        "after a stop) and added (new names, names of removed pools) by the real remove_process_group / add_process_group while the others "
        "keep being notified (1-2 listeners, names "
        "shared across pools or unique, overlapping / disjoint / abstract subscriptions), announcements of every kind, listeners answering OK / FAIL / "
        "garbage (whole or split) or dying while busy, then a well-behaved final phase; non-trivial = non-ASCII payload, at least one tick / a backward "
        "step, at least one notification; distinct = distinct canonical case")

SP = {'EventListenerStates': None}


def T(s):
    """text -> protocol argument (code points)"""
    return '.'.join(str(ord(c)) for c in s) if s else '-'


def hexs(b):
    return b.hex() if b else '-'


def class_table():
    """the same numbering as harness/sites/eventnames.py"""
    from supervisor import events
    classes = [v for k, v in vars(events).items() if isinstance(v, type) and issubclass(v, events.Event)]
    for k, v in vars(events.EventTypes).items():
        if not k.startswith('_') and v not in classes:
            classes.append(v)
    return classes


# ---------------------------------------------------------------------------------------------
# independent listener-side parser: bytes only
# ---------------------------------------------------------------------------------------------
EXPECTED_KEYS = [b'ver', b'server', b'serial', b'pool', b'poolserial', b'eventname', b'len']


def listener_parse(buf):
    """returns (ordered [(key, value)], declared_len, following_bytes) or raises ValueError"""
    nl = buf.find(b'\n')
    if nl < 0:
        raise ValueError('no header line')
    line, rest = buf[:nl], buf[nl + 1:]
    pairs = []
    for tok in line.split(b' '):
        k, sep, v = tok.partition(b':')
        if not sep:
            raise ValueError('token without colon: %r' % tok)
        pairs.append((k, v))
    d = dict(pairs)
    if b'len' not in d or not d[b'len'].isdigit():
        raise ValueError('no numeric len')
    return pairs, int(d[b'len']), rest


def make_event(cls, rng, payload_text):
    """a real event object whose payload() is payload_text where the class allows it; returns (event, expected_payload_or_None)"""
    from supervisor import events
    if issubclass(cls, events.RemoteCommunicationEvent):
        # payload = 'type:%s\n%s'
        return cls('t', payload_text), 'type:t\n' + payload_text
    if issubclass(cls, (events.ProcessLogEvent, events.ProcessCommunicationEvent)):
        proc = fake_process('p', 'g', 7)
        ev = cls(proc, 7, payload_text.encode('utf-8'))
        head = 'processname:p groupname:g pid:7' + (' channel:%s' % cls.channel if issubclass(cls, events.ProcessLogEvent) else '')
        return ev, head + '\n' + payload_text
    if issubclass(cls, events.ProcessStateEvent):
        proc = fake_process(payload_text or 'p', 'g', 7)
        return cls(proc, 20), None
    if issubclass(cls, events.ProcessGroupEvent):
        return cls(payload_text), 'groupname:%s\n' % payload_text
    if issubclass(cls, events.TickEvent):
        return cls(rng.randrange(0, 10 ** 9), None), None
    if issubclass(cls, events.SupervisorStateChangeEvent):
        return cls(), ''
    raise Infra('no constructor recipe for ' + cls.__name__)


def fake_process(name, group, pid, backoff=0):
    cfg = types.SimpleNamespace(name=name)
    grp = types.SimpleNamespace(config=types.SimpleNamespace(name=group)) if group is not None else None
    return types.SimpleNamespace(config=cfg, group=grp, pid=pid, backoff=backoff)


PAYLOADS = ['', 'x', 'hello world', 'a:b c\nd', 'len:99\n', 'type:x\néé', 'é', 'naïve café', '€100',
            '中文\n', '\U0001f600', 'a\U0001f600béc€', '\x00\x01\x7f', '\x80߿ࠀ￿\U00010000\U0010ffff']


def gen_text(rng):
    r = rng.random()
    if r < 0.25:
        return ''.join(rng.choice('abc xyz:\n019') for _ in range(rng.randrange(0, 12)))
    if r < 0.5:
        return ''.join(chr(rng.choice([0x41, 0xe9, 0xff, 0x100, 0x7ff])) for _ in range(rng.randrange(1, 8)))
    if r < 0.75:
        return ''.join(chr(rng.choice([0x61, 0x800, 0x20ac, 0xd7ff, 0xe000, 0xffff, 0x10000, 0x1f600, 0x10ffff])) for _ in range(rng.randrange(1, 6)))
    return rng.choice(PAYLOADS)


def gen_name(rng):
    return ''.join(rng.choice('abcXYZ019_-.é') for _ in range(rng.randrange(1, 9)))


class EnvelopeSide:
    def __init__(self, ctx):
        self.ctx = ctx
        self.ops, self.impl = [], []

    def one(self, ident, poolname, serial, poolserial, cls, text, classes):
        from supervisor import events
        from supervisor.process import EventListenerPool
        from supervisor.states import ProcessStates, EventListenerStates
        from supervisor.tests.base import DummyOptions, DummyPConfig, DummyPGroupConfig
        ctx = self.ctx
        options = DummyOptions()
        options.identifier = ident
        gconfig = DummyPGroupConfig(options, name=poolname, pconfigs=[DummyPConfig(options, 'listener', '/bin/listener')])
        pool = EventListenerPool(gconfig)
        try:
            proc = pool.processes['listener']
            proc.state = ProcessStates.RUNNING
            proc.listener_state = EventListenerStates.READY
            ev, expected_payload = make_event(cls, ctx.rng, text)
            ev.serial = serial
            ev.pool_serials = {poolname: poolserial}
            payload = ev.payload()
            if not pool._dispatchEvent(ev):
                raise Infra('event not dispatched')
            buf = bytes(proc.stdin_buffer)
        finally:
            pool._unsubscribe()
        inp = {'what': 'envelope', 'identifier': ident, 'pool': poolname, 'serial': serial, 'poolserial': poolserial,
               'class': cls.__name__, 'text': text}
        # ---- monitor: parse the bytes like a listener written in another language ----
        want_name = [k for k, v in vars(events.EventTypes).items() if v is cls]
        from props.listener_world import DocTypes
        doc = DocTypes.get()
        try:
            pairs, declared, rest = listener_parse(buf)
            keys = [k for k, _ in pairs]
            vals = dict(pairs)
            if keys != EXPECTED_KEYS:
                ctx.violation('header-keys-wrong', 'header keys %r' % keys, inp)
            else:
                exp = {b'ver': b'3.0', b'server': ident.encode(), b'serial': b'%d' % serial, b'pool': poolname.encode(),
                       b'poolserial': b'%d' % poolserial}
                for k, v in exp.items():
                    if vals[k] != v:
                        ctx.violation('header-value-wrong', 'header %s is %r, sent %r' % (k.decode(), vals[k], v), inp)
                if len(want_name) != 1 or vals[b'eventname'] != want_name[0].encode():
                    ctx.violation('eventname-not-the-concrete-type', 'eventname %r for class %s (registered: %r)' % (
                        vals[b'eventname'], cls.__name__, want_name), inp)
                # ... and that name is a concrete type of the documentation (docs/events.rst), whose documented supertypes
                # are the names under which the class's base classes are registered
                got_name = vals[b'eventname'].decode('ascii', 'replace')
                if got_name not in doc.concrete:
                    ctx.violation('eventname-not-a-documented-concrete-type', 'eventname %r for class %s; documented concrete types: %r' % (
                        got_name, cls.__name__, doc.concrete), inp)
                else:
                    bases = [k for c in cls.__mro__ for k, v in vars(events.EventTypes).items() if v is c]
                    if bases != doc.chain[got_name]:
                        ctx.violation('eventname-documented-supertypes-differ', 'class %s is notified as %s; its registered bases are %r, the documented supertypes %r' % (
                            cls.__name__, got_name, bases[1:], doc.chain[got_name][1:]), inp)
            if declared != len(rest):
                nonascii = any(b > 127 for b in rest)
                ctx.violation('len-counts-characters-not-bytes' if nonascii and declared == len(payload) else 'len-wrong',
                              'len:%d but %d payload bytes follow' % (declared, len(rest)), inp)
            if rest != payload.encode('utf-8'):
                ctx.violation('payload-bytes-differ', 'bytes after the header are not the payload', inp)
            if expected_payload is not None and payload != expected_payload:
                ctx.violation('payload-content-wrong', 'payload %r, announced %r' % (payload, expected_payload), inp)
        except ValueError as ex:
            ctx.violation('header-unparseable', str(ex), inp)
        ctx.count('envelope:' + ('ascii' if all(ord(c) < 128 for c in payload) else 'non-ascii'))
        ctx.count('class:' + cls.__name__)
        ctx.case_done(('env', ident, poolname, serial, poolserial, cls.__name__, payload), nontrivial=any(ord(c) > 127 for c in payload))
        self.ops.append('env id=%s serial=%d pool=%s poolserial=%d cls=%d payload=%s' % (
            T(ident), serial, T(poolname), poolserial, classes.index(cls), T(payload)))
        self.impl.append('ok ' + hexs(buf))


class PayloadSide:
    def __init__(self, ctx):
        self.ctx = ctx
        self.ops, self.impl = [], []

    def process_state(self, cls, name, group, from_state, backoff, expected, pid):
        from supervisor.states import getProcessStateDescription
        proc = fake_process(name, group, pid, backoff)
        ev = cls(proc, from_state, expected)
        # the values are rendered eagerly: changing the process afterwards must not change the payload
        proc.pid, proc.backoff = pid + 1000, backoff + 7
        p = ev.payload()
        inp = {'what': 'process_state', 'class': cls.__name__, 'name': name, 'group': group, 'from_state': from_state,
               'backoff': backoff, 'expected': expected, 'pid': pid}
        fields = [tuple(t.split(':', 1)) for t in p.split(' ')]
        want = [('processname', name), ('groupname', group), ('from_state', getProcessStateDescription(from_state))]
        nm = cls.__name__
        if 'Starting' in nm or 'Backoff' in nm: want.append(('tries', str(backoff)))
        if 'Exited' in nm: want += [('expected', str(int(expected))), ('pid', str(pid))]
        if nm in ('ProcessStateRunningEvent', 'ProcessStateStoppingEvent', 'ProcessStateStoppedEvent'): want.append(('pid', str(pid)))
        if fields != want:
            self.ctx.violation('process-state-payload-wrong', 'payload %r, values at the change %r' % (p, want), inp)
        self.ctx.count('payload:' + nm)
        self.ctx.case_done(('ps', nm, name, group, from_state, backoff, expected, pid))
        self.ops.append('ps mro=%s name=%s group=%s from=%s tries=%d expected=%d pid=%d' % (
            ','.join(c.__name__ for c in cls.__mro__ if c is not object), T(name), T(group),
            T(getProcessStateDescription(from_state)), backoff, 1 if expected else 0, pid))
        self.impl.append('ok ' + hexs(p.encode('utf-8')))

    def fmt(self, which, ev, args, data_bytes=None):
        p = ev.payload()
        inp = {'what': which, 'args': args, 'data_hex': data_bytes.hex() if data_bytes is not None else None}
        if data_bytes is not None:
            try:
                data_bytes.decode('utf-8')
                valid = True
            except UnicodeDecodeError:
                valid = False
            body = p.split('\n', 1)[1].encode('utf-8', 'surrogateescape') if '\n' in p else None
            if body != data_bytes:
                self.ctx.violation('process-log-payload-is-repr' if not valid and p.split('\n', 1)[1].startswith('Undecodable: ') else 'process-data-altered',
                                   'event body %r for child data %r' % (p.split('\n', 1)[1][:60], data_bytes[:40]), inp)
            if not valid:
                self.ctx.count('payload:%s:undecodable' % which)
                self.ctx.case_done((which, tuple(args), data_bytes))
                return      # the repr fallback is not modelled (open finding F15): monitor only
        self.ctx.count('payload:' + which)
        self.ctx.case_done((which, tuple(args)), nontrivial=any(ord(c) > 127 for a in args for c in a))
        self.ops.append('fmt %s %s' % (which, ' '.join(T(a) for a in args)))
        self.impl.append('ok ' + hexs(p.encode('utf-8')))


def remote_case(ctx, iface, got, t, d):
    del got[:]
    r = iface.sendRemoteCommEvent(t, d)
    inp = {'what': 'remote', 'type': t, 'data': d}
    if r is not True or len(got) != 1:
        ctx.violation('remote-comm-not-one-to-one', 'sendRemoteCommEvent answered %r and raised %d notifications' % (r, len(got)), inp)
    for e in got:
        p = e.payload()
        first, sep, rest = p.partition('\n')
        if first != 'type:' + t or sep != '\n' or rest != d:
            ctx.violation('remote-comm-payload-wrong', 'payload %r for type %r data %r' % (p[:80], t, d[:60]), inp)
    ctx.count('remote-comm:' + ('ascii' if all(ord(c) < 128 for c in t + d) else 'non-ascii'))
    ctx.case_done(('remote', t, d), nontrivial=bool(d))
    return 'remote %s %s' % (T(t), T(d)), 'ok ' + ' '.join(hexs(e.payload().encode('utf-8')) for e in got)


def remote_side(ctx):
    from supervisor import events
    from supervisor.rpcinterface import SupervisorNamespaceRPCInterface
    from supervisor.tests.base import DummySupervisor
    rng = ctx.rng
    iface = SupervisorNamespaceRPCInterface(DummySupervisor())
    got = []
    events.subscribe(events.RemoteCommunicationEvent, got.append)
    ops, impl = [], []
    try:
        for t, d in [('foo', 'bar'), ('t', ''), ('x', 'type:y\nlen:3\n\n'), ('é', 'naïve\n€'), ('a:b', '\U0001f600')] + \
                    [(gen_name(rng), gen_text(rng)) for _ in range(ctx.n(60, 1500))]:
            o, i = remote_case(ctx, iface, got, t, d)
            ops.append(o); impl.append(i)
    finally:
        events.unsubscribe(events.RemoteCommunicationEvent, got.append)
    for cls in (events.SupervisorRunningEvent, events.SupervisorStoppingEvent):
        p = cls().payload()
        if p != '':
            ctx.violation('supervisor-state-payload-not-empty', repr(p), {'what': 'supstate', 'class': cls.__name__})
        ops.append('supstate'); impl.append('ok ' + hexs(p.encode('utf-8')))
        ctx.case_done(('supstate', cls.__name__), nontrivial=False)
    return ops, impl


def slice_exact(period, ticks):
    """start of the time slice of `period` seconds containing clock reading ticks/1024 s, in whole seconds"""
    return (ticks // (1024 * period)) * period


def tick_case(ctx, readings, classes):
    """real Supervisor.tick under a patched clock; returns impl lines"""
    from supervisor import events, supervisord
    from supervisor.tests.base import DummyOptions
    sup = supervisord.Supervisor(DummyOptions())
    got = []
    cb = lambda e: got.append(e)
    events.subscribe(events.TickEvent, cb)
    clock = {'t': 0.0}
    real_time = supervisord.time.time
    supervisord.time.time = lambda: clock['t']
    lines = []
    prev = None
    inp = {'what': 'tick', 'readings': list(readings)}
    try:
        for k, n in enumerate(readings):
            clock['t'] = n / 1024.0
            del got[:]
            sup.tick()
            lines.append(' '.join('%d:%d:%d' % (classes.index(type(e)), e.period, e.when) for e in got) or '-')
            # monitor: exactly the periods whose slice changed since the previous pass, when = start of the new slice
            want = []
            for cls in events.TICK_EVENTS:
                if prev is not None and slice_exact(cls.period, n) != slice_exact(cls.period, prev):
                    want.append((cls, slice_exact(cls.period, n)))
            have = [(type(e), e.when) for e in got]
            if have != want:
                ctx.violation('tick-not-on-slice-change', 'pass %d (clock %d/1024 after %r/1024): emitted %r, slices changed %r' % (
                    k, n, prev, [(c.__name__, w) for c, w in have], [(c.__name__, w) for c, w in want]), inp)
            for e in got:
                if e.payload() != 'when:%d' % e.when:
                    ctx.violation('tick-payload-wrong', repr(e.payload()), inp)
                ctx.count('tick:' + type(e).__name__)
            if prev is not None and n < prev: ctx.count('tick:backward-step')
            prev = n
    finally:
        supervisord.time.time = real_time
        events.unsubscribe(events.TickEvent, cb)
    ctx.count('tick-passes', len(readings))
    ctx.case_done(('tick', tuple(readings)), nontrivial=any(l != '-' for l in lines))
    return lines


def gen_clock(rng):
    t = rng.choice([0, 1, 4 * 1024 + 1023, 1024 * 3599, 1024 * 1700000000, rng.randrange(0, 2 ** 40)])
    out = [t]
    for _ in range(rng.randrange(2, 25)):
        r = rng.random()
        if r < 0.35: t += rng.randrange(0, 2048)
        elif r < 0.55: t += rng.choice([5, 60, 3600]) * 1024 + rng.randrange(-3, 4)
        elif r < 0.7: t += rng.randrange(0, 3 * 3600 * 1024)
        elif r < 0.85: t = max(0, t - rng.randrange(0, 7300 * 1024))
        elif r < 0.93: t = (t // 5120) * 5120 + rng.choice([-1, 0, 1])
        else: pass
        t = max(t, 0)
        out.append(t)
    return out


CLOCK_CORPUS = [
    [0, 5119, 5120, 5121, 10239, 10240],
    [1024 * 59, 1024 * 60, 1024 * 3599, 1024 * 3600, 1024 * 3600 + 1],
    [1024 * 100, 1024 * 50, 1024 * 100, 1024 * 100],          # backwards and forwards again
    [1024 * 7, 1024 * 20000, 1024 * 20000 + 1, 1024 * 3],     # skipping many slices, then far back
    [5119, 5119, 5120, 5120],
]


def run(ctx):
    from supervisor import events
    from supervisor.states import ProcessStates
    rng = ctx.rng
    classes = class_table()
    concrete = [c for c in classes if not any(d is not c and issubclass(d, c) for d in classes)]
    # ---- registry: name of every class ----
    ops = ['name %d' % i for i in range(len(classes) + 2)]
    impl = []
    for i in range(len(classes) + 2):
        nm = events.getEventNameByType(classes[i]) if i < len(classes) else None
        impl.append('ok ' + nm if nm else 'none')
        ctx.case_done(('name', i))
    ctx.correspond('envelope', [('case envelope registry', ops)], [impl])
    # ---- envelopes ----
    E = EnvelopeSide(ctx)
    for cls in concrete:                      # corpus: every concrete class, F2's probe payload first
        for text in ('type:x\néé', 'plain ascii', ''):
            E.one('supervisor', 'pool', 0, 0, cls, text, classes)
    for text in PAYLOADS:
        E.one('sup-1', 'mypool', 12345678901, 4, events.RemoteCommunicationEvent, text, classes)
    for _ in range(ctx.n(150, 4000)):
        E.one(gen_name(rng), gen_name(rng), rng.choice([0, 1, 9, 10, 99, 100, rng.randrange(0, 2 ** 40)]),
              rng.randrange(0, 1000), rng.choice(concrete), gen_text(rng), classes)
    ctx.sample({'op': E.ops[0], 'impl': E.impl[0]})
    ctx.correspond('envelope', [('case envelope env', E.ops)], [E.impl])
    # ---- payloads ----
    P = PayloadSide(ctx)
    pstate = [c for c in concrete if issubclass(c, events.ProcessStateEvent)]
    codes = [v for k, v in vars(ProcessStates).items() if isinstance(v, int)]
    for cls in pstate:
        for code in codes:
            P.process_state(cls, 'proc', 'grp', code, 0, True, 0)
    for _ in range(ctx.n(100, 2000)):
        P.process_state(rng.choice(pstate), gen_name(rng), gen_name(rng), rng.choice(codes), rng.randrange(0, 12),
                        rng.random() < 0.5, rng.choice([0, 1, 77, 32768, 4194304]))
    datas = [b'', b'hello\n', 'café\n'.encode(), '\U0001f600'.encode(), b'\xff\xfe', b'abc\x80def', b'\xc3', b'\xe2\x82', b"it's \xff \"q\"\n\t\\"]
    for _ in range(ctx.n(60, 1500)):
        datas.append(gen_text(rng).encode('utf-8') if rng.random() < 0.7 else bytes(rng.randrange(256) for _ in range(rng.randrange(1, 9))))
    for data in datas:
        nm, gr, pid = gen_name(rng), gen_name(rng), rng.randrange(1, 99999)
        text = data.decode('utf-8', 'replace')
        for cls, which in ((events.ProcessLogStdoutEvent, 'processLog'), (events.ProcessLogStderrEvent, 'processLog'),
                           (events.ProcessCommunicationStdoutEvent, 'processComm'), (events.ProcessCommunicationStderrEvent, 'processComm')):
            ev = cls(fake_process(nm, gr, pid), pid, data)
            args = [nm, gr, str(pid)] + ([cls.channel] if which == 'processLog' else []) + [text]
            P.fmt(which, ev, args, data_bytes=data)
    for _ in range(ctx.n(40, 600)):
        t, d, g, w = gen_name(rng), gen_text(rng), gen_name(rng), rng.randrange(0, 2 ** 34)
        P.fmt('remoteComm', events.RemoteCommunicationEvent(t, d), [t, d])
        P.fmt('processGroup', rng.choice([events.ProcessGroupAddedEvent, events.ProcessGroupRemovedEvent])(g), [g])
        P.fmt('tick', rng.choice(events.TICK_EVENTS)(w, None), [str(w)])
    ctx.sample({'op': P.ops[0], 'impl': P.impl[0]})
    ctx.correspond('envelope', [('case envelope payloads', P.ops)], [P.impl])
    # ---- sendRemoteCommEvent through the real RPC interface; supervisor state change payloads ----
    rops, rimpl = remote_side(ctx)
    ctx.correspond('envelope', [('case envelope remote', rops)], [rimpl])
    # ---- ticks ----
    cases, impls = [], []
    for readings in CLOCK_CORPUS + [gen_clock(rng) for _ in range(ctx.n(150, 4000))]:
        impls.append(tick_case(ctx, readings, classes))
        cases.append(('case tick x', ['tick %d' % n for n in readings]))
    ctx.sample({'case': cases[2][1], 'impl': impls[2]})
    ctx.correspond('tick', cases, impls)
    # ---- what is announced, and when ----
    from props import _c11_notify as nt
    nt.group_histories(ctx)
    nt.finish_cases(ctx)
    nt.change_cases(ctx)
    nt.l2_all(ctx)
    # ---- several pools (listeners of the same names): one notification per announcement and pool ----
    from props import _c11_pools
    _c11_pools.run(ctx)


def replay(ctx, data):
    from supervisor import events
    inp = data['input']
    from props import _c11_notify as nt
    if inp.get('what') in ('group-history', 'finish', 'change', 'l2'):
        nt.replay(ctx, inp)
        return
    if inp.get('what') == 'pools':
        from props import _c11_pools
        _c11_pools.replay(ctx, inp)
        return
    classes = class_table()
    if inp['what'] == 'envelope':
        cls = [c for c in classes if c.__name__ == inp['class']][0]
        EnvelopeSide(ctx).one(inp['identifier'], inp['pool'], inp['serial'], inp['poolserial'], cls, inp['text'], classes)
    elif inp['what'] == 'tick':
        tick_case(ctx, inp['readings'], classes)
    elif inp['what'] == 'remote':
        from supervisor.rpcinterface import SupervisorNamespaceRPCInterface
        from supervisor.tests.base import DummySupervisor
        got = []
        events.subscribe(events.RemoteCommunicationEvent, got.append)
        try:
            remote_case(ctx, SupervisorNamespaceRPCInterface(DummySupervisor()), got, inp['type'], inp['data'])
        finally:
            events.unsubscribe(events.RemoteCommunicationEvent, got.append)
    elif inp['what'] == 'process_state':
        cls = [c for c in classes if c.__name__ == inp['class']][0]
        PayloadSide(ctx).process_state(cls, inp['name'], inp['group'], inp['from_state'], inp['backoff'], inp['expected'], inp['pid'])
    elif inp['what'] in ('processLog', 'processComm') and inp.get('data_hex') is not None:
        data_b = bytes.fromhex(inp['data_hex'])
        cls = events.ProcessLogStdoutEvent if inp['what'] == 'processLog' else events.ProcessCommunicationStdoutEvent
        a = inp['args']
        PayloadSide(ctx).fmt(inp['what'], cls(fake_process(a[0], a[1], int(a[2])), int(a[2]), data_b), a, data_bytes=data_b)
    else:
        raise Infra('replay of %r not supported' % inp['what'])


# ---- MANIFEST metadata -----------------------------------------------------------------------
TECHNIQUE = ("Lean 4 theorems over an interpreter of the regenerated header template, field bindings, payload templates, event "
             "registry and tick comparisons; UTF-8 encoder defined in Lean; differential correspondence against the real pool, "
             "event classes and Supervisor.tick under a patched clock; independent byte-level listener parser as monitor; statement "
             "sequences of add_process_group / remove_process_group / Subprocess.finish / change_state regenerated as step lists, interpreted "
             "by Model/Notify.lean (finish through the dispatcher model of C07/C08), order checked by decided predicates whose soundness is "
             "proved for every step list; differential correspondence against the real Supervisor / Subprocess; ground-truth monitors for "
             "every notification kind under the unmodified main loop on the simulated kernel")
LEVEL_TEXT = ("header_roundtrip, eventname_concrete (decided over the whole regenerated registry), eventname_documented / "
              "registry_names_are_the_documented_ones (the names are those of docs/events.rst), rejection_renotifies_own_pool_only, len_ascii_partial with the "
              "counterexample len_not_byte_length (open finding F2), payload content theorems for every notification kind, send_remote_comm (one-to-one), slice_seconds and tick_exact (every clock reading "
              "sequence, also backwards and skipping), add_truthful / remove_truthful / group_history_view (group notifications and the table in bijection over every history and fault point), "
              "finish_truthful / finish_pids (output flushed at reap time carries the child's pid and precedes the exit notification), change_state_truthful are proved; the model is run against the real implementation on every "
              "concrete event class with ASCII / non-ASCII payloads and on random clock sequences")
LEVEL_NOTE = "F2 (len counts characters) and F15 (repr payload for undecodable child output) are open known findings; see DESIGN.md C11"
DESIGN_REF = "DESIGN.md section 6, C11"
