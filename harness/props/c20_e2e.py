"""
C20 -- the end-to-end level: the real client through the real XML-RPC layer.

The scripted and the world level of c20.py replace `options.getServerProxy()` by an object that hands the client ready-made
Python values and raises ready-made `xmlrpclib.Fault`s: nothing between rpcinterface.py and supervisorctl is run.  Here the
same cases are run once more with everything in between being the real thing:

    real Controller / DefaultControllerPlugin
      -> real xmlrpclib.ServerProxy -> real supervisor.xmlrpc.SupervisorTransport (request marshalling, HTTP status check,
         response parser; its connection is a http.client.HTTPConnection whose socket is one end of a socketpair)
      -> real deferring_http_channel (header parsing, body collector, producers, keep-alive)                 [props.c12.Wire]
      -> real supervisor_xmlrpc_handler.continue_request -> traverse -> a registered `supervisor` namespace
      -> the answer: marshalled at once (xmlrpc_marshal, request.done()) or, when the method returns a callback, by the real
         DeferredXMLRPCResponse polled by the channel until the callback answers or raises RPCError

The `supervisor` namespace is either
  * scripted (`ScriptedNs`): every public method name of the real SupervisorNamespaceRPCInterface, answering from the same
    source of answers as the other levels (a fixed script, or the simulated supervisord of c20_world.py): a value is
    returned, a fault is raised as RPCError -- at once, or from a callback after d polls (`plan[k]` = None: at once,
    d >= 0: deferred, answered at poll d); or
  * the real SupervisorNamespaceRPCInterface over scripted processes (props.c12.WaitWorld), wrapped so that what it answered
    (above the XML-RPC layer: the value returned or the RPCError raised, also by a deferred callback) is recorded in the
    script language of c20.py -- the monitors judge the client's lines and exit status against that record.
Transport-level answers of a script (ProtocolError 401, socket errors) are produced where they arise in reality: below the
XML-RPC layer (the connection fails / the response status is 401); an HTTP 500 is the real one (the method raises).
"""
import http.client, io, os, socket, types

_NAMES = None


def server_method_names():
    global _NAMES
    if _NAMES is None:
        import inspect
        from supervisor.rpcinterface import SupervisorNamespaceRPCInterface as I
        _NAMES = sorted(n for n, f in vars(I).items() if not n.startswith('_') and inspect.isfunction(f))
    return _NAMES


class _Abort(Exception):
    """the scripted answer is a transport-level one: produced by the connection, not by the namespace"""


def _raise_fault(code, text):
    from supervisor.xmlrpc import RPCError
    e = RPCError(code)
    e.text = text
    raise e


_NS_CLASS = None


def scripted_ns_class():
    """a namespace class with one real method per public method of the real interface (traverse only calls bound methods)"""
    global _NS_CLASS
    if _NS_CLASS is not None:
        return _NS_CLASS

    class ScriptedNs(object):
        def __init__(self, run, plan, B):
            self._run, self._plan, self._B = run, plan, B

        def _answer(self, meth, args):
            from supervisor.http import NOT_DONE_YET
            run, B = self._run, self._B
            k = len(run.log)
            try:
                a = run.answer(meth, args)
            except B.ScriptEnd:
                run.more_calls = (meth, [str(x) for x in args])      # the client asks for more than the script has
                raise _Abort()
            d = self._plan[k] if k < len(self._plan) else None
            def produce():
                kind = a[0]
                if kind == 'F':
                    _raise_fault(a[1], a[2])
                if kind == 'H' and a[1] == 500:
                    raise RuntimeError('scripted internal error')
                if kind in ('H', 'E'):
                    run.transport = a
                    raise _Abort()
                return B.realize(a)
            if d is None or a[0] == 'E' or (a[0] == 'H' and a[1] != 500):
                return produce()
            left = [int(d)]
            def callback():
                if left[0] > 0:
                    left[0] -= 1
                    return NOT_DONE_YET
                return produce()
            callback.delay = 0.05
            run.deferred = getattr(run, 'deferred', 0) + 1
            return callback

    def mk(name):
        def method(self, *args):
            return self._answer(name, args)
        method.__name__ = name
        return method
    for n in server_method_names():
        setattr(ScriptedNs, n, mk(n))
    _NS_CLASS = ScriptedNs
    return ScriptedNs


# ---------------------------------------------------------------------------------------------------
# the real interface, recorded
def tokenize(meth, v):
    """a value the real interface answered -> the script language of c20.py"""
    if isinstance(v, bool):
        return ('V',) if v else ('S', 'False')
    if isinstance(v, int):
        return ('I', v)
    if isinstance(v, str):
        return ('S', v)
    if isinstance(v, dict) and 'statename' in v:
        return ('Q', _info(v))
    if isinstance(v, list) and v and all(isinstance(x, dict) and 'statename' in x for x in v):
        return ('P', [_info(x) for x in v])
    if isinstance(v, list) and all(isinstance(x, dict) and 'status' in x for x in v):
        return ('R', [(x['group'], x['name'], x['status'], x['description']) for x in v]) if meth != 'getAllProcessInfo' else ('P', [])
    raise ValueError('no token for %s -> %r' % (meth, v))


def _info(d):
    return (d['group'], d['name'], d['state'], d['statename'], d['description'], d['pid'])


def recorded_ns(iface, run):
    """the real interface object `iface` behind a namespace that records what it answers"""
    from supervisor.xmlrpc import RPCError
    from supervisor.http import NOT_DONE_YET

    class RecordedNs(object):
        pass

    def mk(name):
        real = getattr(iface, name)
        def method(self, *args):
            entry = [name, [str(x) for x in args], None]
            run.log.append(entry)
            def record(fn):
                try:
                    v = fn()
                except RPCError as e:
                    entry[2] = ('F', e.code, e.text)
                    raise
                if v is NOT_DONE_YET:
                    return v
                if isinstance(v, types.FunctionType):
                    inner = v
                    def callback():
                        return record(inner)
                    callback.delay = getattr(inner, 'delay', 0.05)
                    run.deferred = getattr(run, 'deferred', 0) + 1
                    return callback
                entry[2] = tokenize(name, v)
                return v
            return record(lambda: real(*args))
        method.__name__ = name
        return method
    for n in server_method_names():
        setattr(RecordedNs, n, mk(n))
    return RecordedNs()


# ---------------------------------------------------------------------------------------------------
# the connection
class _Canned(object):
    """the bytes the client received, as the socket http.client reads its response from"""
    def __init__(self, data):
        self.data = data
    def makefile(self, *a, **k):
        return io.BytesIO(self.data)
    def close(self):
        pass
    def sendall(self, *a):
        raise OSError('closed')


class WireConnection(http.client.HTTPConnection):
    """http.client.HTTPConnection whose socket is one end of a socketpair into a real deferring_http_channel (props.c12.Wire):
    the request is written by http.client itself; before the response is read the server side is run the way the daemon's
    main loop runs it (asyncore.read for everything that arrived, then one poll of a pending deferred producer per
    iteration, `ticks(i)` being what else happens in iteration i), and the bytes the channel sent are what http.client's own
    response parser reads"""
    def __init__(self, handler, run, ticks=None):
        http.client.HTTPConnection.__init__(self, 'localhost')
        self._handler, self._run, self._ticks = handler, run, ticks
        self.wire = None

    def connect(self):
        from props import c12
        self.wire = c12.Wire(self._handler)
        self.wire.ch.del_channel()      # driven by hand (Wire.exchange); the process-wide asyncore map is the CLIENT's (tail -f loops over it)
        self._run.wires.append(self.wire)
        self._run.connections = getattr(self._run, 'connections', 0) + 1
        self.sock = self.wire.b

    def send(self, data):
        if self.sock is None:
            self.connect()
        self.sock.setblocking(True)
        http.client.HTTPConnection.send(self, data)

    def getresponse(self):
        run, w = self._run, self.wire
        run.transport = None
        out, polls, deferred, never = w.exchange(b'', None, None, 200, self._ticks)
        run.requests_on_wire = getattr(run, 'requests_on_wire', 0) + 1
        a = run.transport
        if a is not None and a[0] == 'E':
            self.close()
            raise socket.error(a[1], os.strerror(a[1]))
        if a is not None and a[0] == 'H':
            out = ('HTTP/1.1 %d Scripted\r\nContent-Length: 0\r\nConnection: close\r\n\r\n' % a[1]).encode('ascii')
        if never:
            out = b''               # a response that never completes: the client's read ends without one
        real = self.sock
        self.sock = _Canned(out)
        try:
            r = http.client.HTTPConnection.getresponse(self)
        finally:
            if self.sock is not None:           # http.client closes the connection itself when the response says so
                self.sock = real
            elif w is not None:
                w.close()
        if w.closed and self.sock is not None:  # the server hung up
            self.close()
        return r

    def close(self):
        http.client.HTTPConnection.close(self)
        if self.wire is not None:
            self.wire.close()
            self.wire = None


_SUPD = None


def _supervisord():
    global _SUPD
    if _SUPD is None:
        from supervisor.tests.base import DummySupervisor
        _SUPD = DummySupervisor()
    return _SUPD


def make_handler(ns):
    from supervisor import xmlrpc
    subs = [('supervisor', ns)]
    subs.append(('system', xmlrpc.SystemNamespaceRPCInterface(subs)))
    return xmlrpc.supervisor_xmlrpc_handler(_supervisord(), subs)


def proxy_factory(B, run, handler, ticks=None):
    """what options.getServerProxy() returns on this level: as ClientOptions.getServerProxy builds it, the transport's
    connection being a WireConnection"""
    from supervisor import xmlrpc
    from supervisor.compat import xmlrpclib
    run.wires = []
    def get():
        t = xmlrpc.SupervisorTransport('u', 'p', B.URL)
        t._get_connection = lambda: WireConnection(handler, run, ticks)
        return xmlrpclib.ServerProxy('http://127.0.0.1', transport=t)
    return get


def close_all(run):
    for w in getattr(run, 'wires', []):
        try:
            w.close()
        except Exception:
            pass
    run.wires = []
