"""EventListenerPool._eventEnvelope: the header template (key:%(field)s tokens in order) and what each field of the
dict D is bound to; events.py payload templates that are plain '%'-formats."""
import ast, os, re
import extract
from extract import find_func, Untranslatable, lean_str

LEAN_MODULE = 'Envelope'
IMPORTS = []
OPENS = []

BIND = {  # python expression text -> Lean constructor of Sv.Gen.Envelope.Src
    'self.config.options.identifier': '.identifier', 'serial': '.serial', 'self.config.name': '.poolName',
    'pool_serial': '.poolSerial', 'event_name': '.eventName', 'payload_len': '.payloadLen', 'payload': '.payload',
}


def TABLES():
    src = open(os.path.join(extract.REPO, 'supervisor/process.py')).read()
    f = find_func(ast.parse(src), 'EventListenerPool._eventEnvelope')
    out = ['inductive Src where', '  | lit (s : String) | identifier | serial | poolName | poolSerial | eventName | payloadLen | payload',
           'deriving DecidableEq, Repr', '']
    assigns = {n.targets[0].id: n.value for n in ast.walk(f) if isinstance(n, ast.Assign) and isinstance(n.targets[0], ast.Name)}
    if ast.unparse(assigns.get('event_name')) != 'events.getEventNameByType(event_type)':
        raise Untranslatable('_eventEnvelope: event_name = events.getEventNameByType(event_type) expected')
    pl = ast.unparse(assigns.get('payload_len'))
    if pl != 'len(payload)':
        raise Untranslatable('_eventEnvelope: payload_len = len(payload) expected, found ' + pl)
    out.append('-- _eventEnvelope: payload_len = %s : the number of characters of the str payload' % pl)
    out.append('def payloadLenCountsCharacters : Bool := true')
    D = assigns.get('D')
    if not isinstance(D, ast.Dict):
        raise Untranslatable('_eventEnvelope: D = {...} expected')
    rows = []
    for k, v in zip(D.keys, D.values):
        if not isinstance(k, ast.Constant):
            raise Untranslatable('D key')
        if isinstance(v, ast.Constant) and isinstance(v.value, str):
            b = '.lit ' + lean_str(v.value)
        else:
            t = ast.unparse(v)
            if t not in BIND:
                raise Untranslatable('_eventEnvelope: D[%r] = %s' % (k.value, t))
            b = BIND[t]
        rows.append('(%s, %s)' % (lean_str(k.value), b))
    out.append('-- the dict D of _eventEnvelope')
    out.append('def fields : List (String × Src) := [%s]' % ', '.join(rows))
    ret = [n for n in ast.walk(f) if isinstance(n, ast.Return)][0].value
    if not (isinstance(ret, ast.BinOp) and isinstance(ret.op, ast.Mod) and isinstance(ret.left, ast.Constant) and ast.unparse(ret.right) == 'D'):
        raise Untranslatable('_eventEnvelope: return <template> % D expected')
    tpl = ret.left.value
    m = re.fullmatch(r'((?:[a-z_]+:%\([a-z_]+\)s )*[a-z_]+:%\([a-z_]+\)s)\n%\(([a-z_]+)\)s', tpl)
    if not m:
        raise Untranslatable('_eventEnvelope: template shape ' + repr(tpl))
    toks = re.findall(r'([a-z_]+):%\(([a-z_]+)\)s', m.group(1))
    out.append('-- the header template %r' % tpl)
    out.append('def headerTokens : List (String × String) := [%s]' % ', '.join('(%s, %s)' % (lean_str(a), lean_str(b)) for a, b in toks))
    out.append('def bodyField : String := %s' % lean_str(m.group(2)))
    # payload() templates of events.py that are a single '%' format over a tuple / value
    esrc = open(os.path.join(extract.REPO, 'supervisor/events.py')).read()
    et = ast.parse(esrc)
    def tpl_of(qual):
        fn = find_func(et, qual)
        r = [n for n in ast.walk(fn) if isinstance(n, ast.Return)]
        e = r[-1].value
        if isinstance(e, ast.Name):   # result = fmt % (...)
            asg = {n.targets[0].id: n.value for n in ast.walk(fn) if isinstance(n, ast.Assign) and isinstance(n.targets[0], ast.Name)}
            e = asg[e.id]
            if isinstance(e.left, ast.Name):
                l = asg[e.left.id]
                if isinstance(l, ast.Call):
                    l = l.args[0]
                e = ast.BinOp(left=l, op=e.op, right=e.right)
        if not (isinstance(e, ast.BinOp) and isinstance(e.op, ast.Mod) and isinstance(e.left, ast.Constant)):
            raise Untranslatable(qual + ': template % args expected')
        args = e.right.elts if isinstance(e.right, ast.Tuple) else [e.right]
        def clean(a):
            t = ast.unparse(a)
            mm = re.fullmatch(r'as_string\((.*)\)', t)
            return mm.group(1) if mm else t
        return e.left.value, [clean(a) for a in args]
    for nm, qual in (('processLog', 'ProcessLogEvent.payload'), ('processComm', 'ProcessCommunicationEvent.payload'),
                     ('remoteComm', 'RemoteCommunicationEvent.payload'), ('processGroup', 'ProcessGroupEvent.payload'),
                     ('tick', 'TickEvent.payload')):
        t, args = tpl_of(qual)
        out.append('-- events.py %s: %r %% %r' % (qual, t, args))
        out.append('def %sTemplate : String := %s' % (nm, lean_str(t)))
        out.append('def %sArgs : List String := [%s]' % (nm, ', '.join(lean_str(a) for a in args)))
    # SupervisorStateChangeEvent.payload: a constant
    ss = find_func(et, 'SupervisorStateChangeEvent.payload')
    r = [n for n in ast.walk(ss) if isinstance(n, ast.Return)]
    if len(r) != 1 or not (isinstance(r[0].value, ast.Constant) and isinstance(r[0].value.value, str)):
        raise Untranslatable('SupervisorStateChangeEvent.payload: constant expected')
    out.append('-- events.py SupervisorStateChangeEvent.payload: return %r' % r[0].value.value)
    out.append('def supervisorStatePayload : String := %s' % lean_str(r[0].value.value))
    # RemoteCommunicationEvent.__init__ and rpcinterface.sendRemoteCommEvent: which argument ends up in which field
    ci = find_func(et, 'RemoteCommunicationEvent.__init__')
    params = [a.arg for a in ci.args.args][1:]
    binds = []
    for n in ci.body:
        if not (isinstance(n, ast.Assign) and isinstance(n.targets[0], ast.Attribute) and ast.unparse(n.targets[0].value) == 'self'
                and isinstance(n.value, ast.Name)):
            raise Untranslatable('RemoteCommunicationEvent.__init__: self.x = param expected')
        binds.append((n.targets[0].attr, n.value.id))
    out.append('-- events.py RemoteCommunicationEvent.__init__(self, %s): %s' % (', '.join(params), '; '.join('self.%s = %s' % b for b in binds)))
    out.append('def remoteCommCtorParams : List String := [%s]' % ', '.join(lean_str(x) for x in params))
    out.append('def remoteCommCtorBinds : List (String × String) := [%s]' % ', '.join('(%s, %s)' % (lean_str(a), lean_str(b)) for a, b in binds))
    rsrc = open(os.path.join(extract.REPO, 'supervisor/rpcinterface.py')).read()
    sf = find_func(ast.parse(rsrc), 'SupervisorNamespaceRPCInterface.sendRemoteCommEvent')
    notes = [n for n in ast.walk(sf) if isinstance(n, ast.Call) and ast.unparse(n.func) == 'notify']
    calls = [n.args[0] for n in notes if n.args and isinstance(n.args[0], ast.Call)]
    if len(notes) != len(calls) or any(ast.unparse(c.func) != 'RemoteCommunicationEvent' or c.keywords
                                       or not all(isinstance(a, ast.Name) for a in c.args) for c in calls):
        raise Untranslatable('sendRemoteCommEvent: notify(RemoteCommunicationEvent(name, ...)) expected')
    if [a.arg for a in sf.args.args][1:] != ['type', 'data']:
        raise Untranslatable('sendRemoteCommEvent signature')
    in_loop = any(isinstance(n, (ast.For, ast.While)) for n in ast.walk(sf))
    if in_loop:
        raise Untranslatable('sendRemoteCommEvent: loop')
    out.append('-- rpcinterface.py sendRemoteCommEvent(self, type, data): the notify(RemoteCommunicationEvent(...)) calls, in order')
    out.append('def sendRemoteCommCalls : List (List String) := [%s]' % ', '.join(
        '[%s]' % ', '.join(lean_str(a.id) for a in c.args) for c in calls))
    # ProcessStateEvent.payload: the fixed leading fields and the extra values of each subclass
    ps = find_func(et, 'ProcessStateEvent.payload')
    L = [n for n in ast.walk(ps) if isinstance(n, ast.Assign) and ast.unparse(n.targets[0]) == 'L'][0].value
    lead = [(el.elts[0].value, ast.unparse(el.elts[1])) for el in L.elts]
    out.append('-- ProcessStateEvent.payload: L = %s ; L.extend(self.extra_values) ; joined by %r as name:value' % (ast.unparse(L), ' '))
    out.append('def processStateLead : List (String × String) := [%s]' % ', '.join('(%s, %s)' % (lean_str(a), lean_str(b)) for a, b in lead))
    rows = []
    for cls in [n for n in et.body if isinstance(n, ast.ClassDef)]:
        for fn in cls.body:
            if isinstance(fn, ast.FunctionDef) and fn.name == 'get_extra_values':
                r = [n for n in ast.walk(fn) if isinstance(n, ast.Return)][0].value
                vals = [(el.elts[0].value, ast.unparse(el.elts[1])) for el in r.elts]
                rows.append('(%s, [%s])' % (lean_str(cls.name), ', '.join('(%s, %s)' % (lean_str(a), lean_str(b)) for a, b in vals)))
    out.append('-- get_extra_values() per class (inherited by subclasses)')
    out.append('def extraValues : List (String × List (String × String)) := [%s]' % ', '.join(rows))
    return out
