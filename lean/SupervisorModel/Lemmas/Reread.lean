/-  Helper lemmas for Props/C15.lean: the effect of stop+remove, add and the three blocks of do_update on the
    daemon's group table, by group name.  Core Lean only. -/
import SupervisorModel.Model.Reread
set_option linter.unusedSimpArgs false
namespace Sv.Reread
open Sv.Config

/-- process_config installs the parsed list unconditionally (decided on the generated facts about
    ServerOptions.process_config; a guard around the assignment makes this fail) -/
theorem installParsed_eq (old new : List GConfig) : installParsed old new = new := by
  simp [installParsed, Sv.Gen.Reread.processConfigInstalls, Sv.Gen.Reread.processConfigInstallGuards]

def nameIs (n : String) (a : Active) : Bool := a.cfg.name == n

theorem find_eq (s : State) (n : String) : s.find n = s.active.find? (nameIs n) := rfl

theorem find_filter_ne (A : List Active) (g n : String) :
    (A.filter fun x => x.cfg.name != g).find? (nameIs n) = if n = g then none else A.find? (nameIs n) := by
  induction A with
  | nil => simp
  | cons x xs ih =>
    by_cases hx : x.cfg.name = g
    · have : (x.cfg.name != g) = false := by simp [hx]
      rw [List.filter_cons, this]
      simp only [Bool.false_eq_true, if_false]
      rw [ih]
      by_cases hn : n = g
      · simp [hn]
      · have : nameIs n x = false := by simp [nameIs, hx]; exact fun e => hn e.symm
        simp [hn, List.find?_cons, this]
    · have : (x.cfg.name != g) = true := by simp [hx]
      rw [List.filter_cons, this]
      simp only [if_true, List.find?_cons]
      by_cases hnx : nameIs n x = true
      · have : ¬ n = g := by
          intro e; apply hx; simp [nameIs] at hnx; rw [hnx, e]
        simp [hnx, this]
      · have hnx' : nameIs n x = false := by simpa using hnx
        simp only [hnx']
        exact ih

theorem find_map_pres (A : List Active) (f : Active → Active) (hf : ∀ x, (f x).cfg.name = x.cfg.name) (n : String) :
    (A.map f).find? (nameIs n) = (A.find? (nameIs n)).map f := by
  induction A with
  | nil => rfl
  | cons x xs ih =>
    simp only [List.map_cons, List.find?_cons]
    have : nameIs n (f x) = nameIs n x := by simp [nameIs, hf]
    rw [this]
    cases nameIs n x <;> simp [ih]

theorem find_some_name (A : List Active) (n : String) (a : Active) (h : A.find? (nameIs n) = some a) : a.cfg.name = n := by
  have := List.find?_some h
  simpa [nameIs] using this

def stopF (g : String) (a : Active) : Active :=
  if a.cfg.name == g then { a with procs := a.procs.map fun p => { p with pid := 0, stopped := true } } else a

theorem stopF_name (g : String) (x : Active) : (stopF g x).cfg.name = x.cfg.name := by
  unfold stopF; split <;> rfl

/-- stop (stops complete) followed by remove: the group named `g` is gone, every other entry untouched -/
theorem stopRemove_find (s : State) (g n : String) :
    ((removeProcessGroup (stopProcessGroup s g).2 g).2).find n = (if n = g then none else s.find n) ∧
    ((removeProcessGroup (stopProcessGroup s g).2 g).2).file = s.file := by
  cases hf : s.find g with
  | none =>
    have h1 : (stopProcessGroup s g).2 = s := by simp [stopProcessGroup, hf]
    rw [h1]
    have h2 : (removeProcessGroup s g).2 = s := by simp [removeProcessGroup, hf]
    rw [h2]
    refine ⟨?_, rfl⟩
    by_cases hn : n = g
    · simp [hn, hf]
    · simp [hn]
  | some a =>
    have h1 : (stopProcessGroup s g).2 = { s with active := s.active.map (stopF g) } := by
      simp only [stopProcessGroup, hf]; rfl
    rw [h1]
    have hfa : ({ s with active := s.active.map (stopF g) } : State).find g = some (stopF g a) := by
      rw [find_eq] at hf ⊢
      show (s.active.map (stopF g)).find? (nameIs g) = _
      rw [find_map_pres _ _ (stopF_name g), hf]; rfl
    have hname : a.cfg.name = g := find_some_name _ _ _ (by rw [find_eq] at hf; exact hf)
    have hstopped : (stopF g a).procs.any (fun p => !p.stopped) = false := by
      simp [stopF, hname, List.any_map, Function.comp_def]
    have h2 : (removeProcessGroup { s with active := s.active.map (stopF g) } g).2 =
        { s with active := (s.active.map (stopF g)).filter fun x => x.cfg.name != g } := by
      simp only [removeProcessGroup, hfa, hstopped]; rfl
    rw [h2]
    refine ⟨?_, rfl⟩
    rw [find_eq]
    show ((s.active.map (stopF g)).filter fun x => x.cfg.name != g).find? (nameIs n) = _
    rw [find_filter_ne, find_map_pres _ _ (stopF_name g)]
    by_cases hn : n = g
    · simp [hn]
    · simp only [hn, if_false, find_eq]
      cases hx : s.active.find? (nameIs n) with
      | none => rfl
      | some x =>
        have : x.cfg.name = n := find_some_name _ _ _ hx
        have : stopF g x = x := by
          unfold stopF
          have : (x.cfg.name == g) = false := by simp [this]; exact hn
          simp [this]
        simp [this]

/-- the entry a group gets when it is activated: AUTO log files resolved, processes never started -/
def freshActive (c : GConfig) : Active := { cfg := resolveCfg c, procs := freshProcs c }

def fileCfg (file : List GConfig) (g : String) : Option GConfig := file.find? fun c => c.name == g

theorem fileCfg_name (file : List GConfig) (g : String) (c : GConfig) (h : fileCfg file g = some c) : c.name = g := by
  have := List.find?_some h
  simpa using this

/-- addProcessGroup: a group of the file that is not active becomes active with fresh (never started) processes;
    anything else is a refusal that changes nothing -/
theorem add_find (s : State) (g n : String) :
    ((addProcessGroup s g).2).find n =
      (if n = g then (match s.find g with
                      | some a => some a
                      | none => (fileCfg s.file g).map freshActive)
       else s.find n) ∧
    ((addProcessGroup s g).2).file = s.file := by
  unfold addProcessGroup
  cases hc : s.file.find? (fun c => c.name == g) with
  | none =>
    refine ⟨?_, rfl⟩
    by_cases hn : n = g
    · subst hn
      simp only [if_true, fileCfg, hc, Option.map_none]
      cases s.find n <;> rfl
    · simp [hn]
  | some c =>
    dsimp only
    cases hf : s.find g with
    | some a =>
      simp only [Option.isSome_some, if_true]
      refine ⟨?_, trivial⟩
      by_cases hn : n = g
      · subst hn; simp [hf]
      · simp [hn]
    | none =>
      simp only [Option.isSome_none, Bool.false_eq_true, if_false]
      refine ⟨?_, trivial⟩
      have hcn : c.name = g := fileCfg_name s.file g c hc
      rw [find_eq]
      show (s.active ++ [({ cfg := resolveCfg c, procs := freshProcs c } : Active)]).find? (nameIs n) = _
      rw [List.find?_append]
      by_cases hn : n = g
      · subst hn
        rw [find_eq] at hf
        simp [hf, fileCfg, hc, freshActive, nameIs, resolveCfg, hcn]
      · simp only [hn, if_false, find_eq]
        cases s.active.find? (nameIs n) with
        | some x => rfl
        | none =>
          have : nameIs n ({ cfg := resolveCfg c, procs := freshProcs c } : Active) = false := by
            simp [nameIs, resolveCfg, hcn]; exact fun e => hn e.symm
          simp [this]

theorem runCalls_append (s : State) (a b : List Call) : runCalls s (a ++ b) = runCalls (runCalls s a) b := by
  simp [runCalls, List.foldl_append]

theorem runCalls_cons (s : State) (c : Call) (cs : List Call) : runCalls s (c :: cs) = runCalls (runCall s c) cs := rfl

def F (file : List GConfig) (n : String) : Option Active := (fileCfg file n).map freshActive

/-- the "removed" block of do_update: stop, remove for each listed group -/
theorem removedBlock (R : List String) (s : State) (n : String) :
    (runCalls s (R.flatMap fun g => [Call.stop g, Call.remove g])).find n = (if n ∈ R then none else s.find n) ∧
    (runCalls s (R.flatMap fun g => [Call.stop g, Call.remove g])).file = s.file := by
  induction R generalizing s with
  | nil => simp [runCalls]
  | cons g rest ih =>
    simp only [List.flatMap_cons, runCalls_append]
    obtain ⟨h1, h2⟩ := stopRemove_find s g n
    have hs : runCalls s [Call.stop g, Call.remove g] = (removeProcessGroup (stopProcessGroup s g).2 g).2 := rfl
    rw [hs]
    obtain ⟨i1, i2⟩ := ih ((removeProcessGroup (stopProcessGroup s g).2 g).2)
    refine ⟨?_, by rw [i2, h2]⟩
    rw [i1, h1]
    by_cases hn : n = g
    · subst hn; simp
    · by_cases hr : n ∈ rest <;> simp [hn, hr]

/-- the "changed" block: stop, remove, add for each listed group -/
theorem changedBlock (C : List String) (s : State) (n : String) :
    (runCalls s (C.flatMap fun g => [Call.stop g, Call.remove g, Call.add g])).find n = (if n ∈ C then F s.file n else s.find n) ∧
    (runCalls s (C.flatMap fun g => [Call.stop g, Call.remove g, Call.add g])).file = s.file := by
  induction C generalizing s with
  | nil => simp [runCalls]
  | cons g rest ih =>
    simp only [List.flatMap_cons, runCalls_append]
    have hs : runCalls s [Call.stop g, Call.remove g, Call.add g] =
        (addProcessGroup (removeProcessGroup (stopProcessGroup s g).2 g).2 g).2 := rfl
    rw [hs]
    obtain ⟨h1, h2⟩ := stopRemove_find s g n
    obtain ⟨h1g, _⟩ := stopRemove_find s g g
    obtain ⟨a1, a2⟩ := add_find (removeProcessGroup (stopProcessGroup s g).2 g).2 g n
    obtain ⟨i1, i2⟩ := ih ((addProcessGroup (removeProcessGroup (stopProcessGroup s g).2 g).2 g).2)
    refine ⟨?_, by rw [i2, a2, h2]⟩
    rw [i1, a2, h2, a1, h1g, h2, h1]
    by_cases hn : n = g
    · subst hn; by_cases hr : n ∈ rest <;> simp [hr, F]
    · by_cases hr : n ∈ rest <;> simp [hn, hr]

/-- the "added" block: add for each listed group -/
theorem addedBlock (D : List String) (s : State) (n : String) :
    (runCalls s (D.map Call.add)).find n =
      (match s.find n with
       | some a => some a
       | none => if n ∈ D then F s.file n else none) ∧
    (runCalls s (D.map Call.add)).file = s.file := by
  induction D generalizing s with
  | nil => simp [runCalls]; cases s.find n <;> rfl
  | cons g rest ih =>
    simp only [List.map_cons, runCalls_cons]
    have hs : runCall s (Call.add g) = (addProcessGroup s g).2 := rfl
    rw [hs]
    obtain ⟨a1, a2⟩ := add_find s g n
    obtain ⟨i1, i2⟩ := ih ((addProcessGroup s g).2)
    refine ⟨?_, by rw [i2, a2]⟩
    rw [i1, a2, a1]
    by_cases hn : n = g
    · subst hn
      cases hf : s.find n with
      | some a => simp
      | none =>
        simp only [if_true, List.mem_cons, true_or]
        cases hF : fileCfg s.file n with
        | none => simp [F, hF]
        | some c => simp [F, hF]
    · cases hf : s.find n with
      | some a => simp [hn]
      | none => by_cases hr : n ∈ rest <;> simp [hn, hr]

/-- the entry named `n` after an unrestricted `supervisorctl update`, in terms of the three reported lists -/
theorem doUpdate_find (s : State) (new : List GConfig) (n : String) :
    let d := diffToActive new (s.active.map (·.cfg))
    let R := d.removed.map (·.name)
    let C := d.changed.map (·.name)
    let D := d.added.map (·.name)
    (doUpdate s new []).find n =
      (match (if n ∈ C then F new n else if n ∈ R then none else s.find n) with
       | some a => some a
       | none => if n ∈ D then F new n else none) ∧
    (doUpdate s new []).file = new := by
  intro d R C D
  have hu : doUpdate s new [] = runCalls { s with file := new }
      ((R.flatMap fun g => [Call.stop g, Call.remove g]) ++
       (C.flatMap fun g => [Call.stop g, Call.remove g, Call.add g]) ++ D.map Call.add) := by
    have hf : ∀ l : List String, List.filter (selected []) l = l := by
      intro l; apply List.filter_eq_self.mpr; intro a _; simp [selected]
    have hv : validNames [] = [] := rfl
    simp only [doUpdate, reloadConfig, installParsed_eq, hv, updateCalls, hf, List.contains_nil, Bool.false_eq_true, if_false]
    rfl
  rw [hu, runCalls_append, runCalls_append]
  obtain ⟨r1, r2⟩ := removedBlock R { s with file := new } n
  obtain ⟨c1, c2⟩ := changedBlock C (runCalls { s with file := new } (R.flatMap fun g => [Call.stop g, Call.remove g])) n
  obtain ⟨d1, d2⟩ := addedBlock D (runCalls (runCalls { s with file := new } (R.flatMap fun g => [Call.stop g, Call.remove g]))
      (C.flatMap fun g => [Call.stop g, Call.remove g, Call.add g])) n
  refine ⟨?_, by rw [d2, c2, r2]⟩
  rw [d1, c1, c2, r1, r2]
  rfl

def inFile (new : List GConfig) (n : String) : Prop := ∃ c ∈ new, c.name = n
def isActive (s : State) (n : String) : Prop := ∃ a ∈ s.active, a.cfg.name = n

theorem find_none_iff (s : State) (n : String) : s.find n = none ↔ ¬ isActive s n := by
  rw [find_eq, List.find?_eq_none]
  simp [isActive, nameIs]

theorem find_isSome_iff (s : State) (n : String) : (s.find n).isSome = true ↔ isActive s n := by
  cases h : s.find n with
  | none => simp [(find_none_iff s n).mp h]
  | some a =>
    simp only [Option.isSome_some, true_iff]
    have := List.mem_of_find?_eq_some (by rw [find_eq] at h; exact h)
    exact ⟨a, this, find_some_name _ _ _ (by rw [find_eq] at h; exact h)⟩

theorem fileCfg_none_iff (new : List GConfig) (n : String) : fileCfg new n = none ↔ ¬ inFile new n := by
  unfold fileCfg
  rw [List.find?_eq_none]
  simp [inFile]

theorem lastNamed_none_iff (l : List GConfig) (n : String) : lastNamed l n = none ↔ ∀ c ∈ l, c.name ≠ n := by
  unfold lastNamed
  rw [List.find?_eq_none]
  simp

theorem lastNamed_active_none_iff (s : State) (n : String) :
    lastNamed (s.active.map (·.cfg)) n = none ↔ ¬ isActive s n := by
  rw [lastNamed_none_iff]
  simp [isActive]

theorem lastNamed_file_none_iff (new : List GConfig) (n : String) : lastNamed new n = none ↔ ¬ inFile new n := by
  rw [lastNamed_none_iff]
  simp [inFile]

theorem mem_removed_names (s : State) (new : List GConfig) (n : String) :
    n ∈ (diffToActive new (s.active.map (·.cfg))).removed.map (·.name) ↔ isActive s n ∧ ¬ inFile new n := by
  simp only [diffToActive, List.mem_map, List.mem_filter, Option.isNone_iff_eq_none]
  constructor
  · rintro ⟨c, ⟨⟨a, ha, rfl⟩, hl⟩, rfl⟩
    exact ⟨⟨a, ha, rfl⟩, (lastNamed_file_none_iff new _).mp hl⟩
  · rintro ⟨⟨a, ha, rfl⟩, hnf⟩
    exact ⟨a.cfg, ⟨⟨a, ha, rfl⟩, (lastNamed_file_none_iff new _).mpr hnf⟩, rfl⟩

theorem mem_added_names (s : State) (new : List GConfig) (n : String) :
    n ∈ (diffToActive new (s.active.map (·.cfg))).added.map (·.name) ↔ inFile new n ∧ ¬ isActive s n := by
  simp only [diffToActive, List.mem_map, List.mem_filter, Option.isNone_iff_eq_none]
  constructor
  · rintro ⟨c, ⟨hc, hl⟩, rfl⟩
    exact ⟨⟨c, hc, rfl⟩, (lastNamed_active_none_iff s _).mp hl⟩
  · rintro ⟨⟨c, hc, rfl⟩, hna⟩
    exact ⟨c, ⟨hc, (lastNamed_active_none_iff s _).mpr hna⟩, rfl⟩

theorem mem_changed_names (s : State) (new : List GConfig) (n : String)
    (h : n ∈ (diffToActive new (s.active.map (·.cfg))).changed.map (·.name)) : inFile new n := by
  simp only [diffToActive, List.mem_map, List.mem_filter] at h
  obtain ⟨c, ⟨hc, _⟩, rfl⟩ := h
  exact ⟨c, hc, rfl⟩

end Sv.Reread
