import SupervisorModel.Model.Reread
/-
  Line protocol for C15:  case reread <old config tokens> -- <new config tokens>   (tokens as in ConfigIO)
  ops: diff | calls <hex group name>* | callsf <hex,hex|-> <hex group name>* | after <hex group name>*
-/
namespace Sv.Reread
open Sv.Config

def splitAt2 (sep : String) : List String → List String → List String × List String
  | acc, [] => (acc.reverse, [])
  | acc, t :: r => if t == sep then (acc.reverse, r) else splitAt2 sep (t :: acc) r

def namesS (l : List String) : String := if l.isEmpty then "-" else ",".intercalate (l.map hexS)

def callS : Call → String
  | .stop g => "stop:" ++ hexS g
  | .remove g => "remove:" ++ hexS g
  | .add g => "add:" ++ hexS g

def decodeArgs (l : List String) : Option (List String) := l.mapM strOfHex

def runCase (cfg : List String) (ops : List String) : List String :=
  let parts := splitAt2 "--" [] cfg
  match parseIni parts.1 emptyIni, parseIni parts.2 emptyIni with
  | some oldIni, some newIni =>
    match readConfig oldIni with
    | .error _ => ops.map fun _ => "bad-config"
    | .ok old =>
      -- the daemon runs the old file: every group active, every process running
      let st : State := { file := old.groups,
                          active := old.groups.map fun g => { cfg := g, procs := g.procs.map fun p => { name := p.name, pid := 1, stopped := false } } }
      let parsed := (readConfig newIni).map (·.groups)
      let r := reloadConfig st (match parsed with | .ok g => .ok g | .error e => .error e)
      ops.map fun op =>
        match words op with
        | ["diff"] =>
          match r.1 with
          | .ok (a, c, rm) => s!"added={namesS a} changed={namesS c} removed={namesS rm}"
          | .error _ => "CANT_REREAD"
        | "calls" :: args =>
          match decodeArgs args, r.1 with
          | some as, .ok (a, c, rm) => " ".intercalate ((updateCalls (validNames as) [] a c rm).map callS)
          | some _, .error _ => "CANT_REREAD"
          | none, _ => "bad-op"
        | "callsf" :: fl :: args =>
          -- fl: comma-separated hex names of the groups whose stop reports a failure ("-" for none)
          match decodeArgs (if fl == "-" then [] else fl.splitOn ","), decodeArgs args, r.1 with
          | some fs, some as, .ok (a, c, rm) => " ".intercalate ((updateCalls (validNames as) fs a c rm).map callS)
          | some _, some _, .error _ => "CANT_REREAD"
          | _, _, _ => "bad-op"
        | "after" :: args =>
          match decodeArgs args, parsed with
          | some as, .ok new => namesS ((doUpdate st new as).active.map (·.cfg.name))
          | some _, .error _ => namesS (r.2.active.map (·.cfg.name))
          | none, _ => "bad-op"
        | _ => "bad-op"
  | _, _ => ops.map fun _ => "bad-config"

end Sv.Reread
