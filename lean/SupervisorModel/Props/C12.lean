import SupervisorModel.Model.Rpc
/-
  C12 — XML-RPC exposes only the public API; answers are results or documented faults.
  Property theorems only.  `Sv.Gen.Rpc.*` (Faults, the gate table, the raise tables, the
  docs/api.rst method lists, the guards of traverse and _update) is regenerated from /repo on
  every run.

    closure          traverse_closed, refused_executes_nothing, traverse_dichotomy   (every attribute table)
    arity            arity_fault, call_runs_body
    gating           gating_partial (+ gating_sendRemoteCommEvent_counterexample, finding F27), gating_table_ok
    fault codes      fault_codes_documented, faults_distinct
    multicall        multicall_sequential, multicall_recursion_refused, multicall_faults_as_structs
-/
set_option linter.unusedSimpArgs false
namespace Sv.Props.C12
open Sv Sv.Rpc Sv.Gen.Rpc

/-! ## names -/

def dotJoin : List Name → Name
  | [] => []
  | [a] => a
  | a :: b :: r => a ++ '.' :: dotJoin (b :: r)

theorem splitDot_ne_nil (s : Name) : splitDot s ≠ [] := by
  induction s with
  | nil => simp [splitDot]
  | cons c r ih =>
    simp only [splitDot]
    split
    · simp
    · split <;> simp

theorem splitDot_join (s : Name) : dotJoin (splitDot s) = s := by
  induction s with
  | nil => simp [splitDot, dotJoin]
  | cons c r ih =>
    simp only [splitDot]
    split
    · rename_i h
      cases hs : splitDot r with
      | nil => exact absurd hs (splitDot_ne_nil r)
      | cons a t => rw [hs] at ih; simp [dotJoin, ih, h]
    · cases hs : splitDot r with
      | nil => exact absurd hs (splitDot_ne_nil r)
      | cons a t =>
        rw [hs] at ih
        cases t with
        | nil => simp [dotJoin] at ih ⊢; exact ih
        | cons b t' => simp [dotJoin] at ih ⊢; exact ih

theorem splitDot_nodot (s : Name) : ∀ p ∈ splitDot s, '.' ∉ p := by
  induction s with
  | nil => simp [splitDot]
  | cons c r ih =>
    simp only [splitDot]
    split
    · intro p hp
      simp only [List.mem_cons] at hp
      rcases hp with rfl | hp
      · simp
      · exact ih p hp
    · rename_i hc
      cases hs : splitDot r with
      | nil => exact absurd hs (splitDot_ne_nil r)
      | cons a t =>
        rw [hs] at ih
        intro p hp
        simp only [List.mem_cons] at hp
        rcases hp with rfl | hp
        · have := ih a (by simp)
          simp only [List.mem_cons, not_or]
          exact ⟨fun h => hc h.symm, this⟩
        · exact ih p (by simp [hp])

/-- a two-part name is `ns.m` with no further dot -/
theorem splitDot_two (s ns m : Name) (h : splitDot s = [ns, m]) : s = ns ++ '.' :: m ∧ '.' ∉ ns ∧ '.' ∉ m := by
  refine ⟨?_, splitDot_nodot s ns (by simp [h]), splitDot_nodot s m (by simp [h])⟩
  have := splitDot_join s
  rw [h] at this
  simpa [dotJoin] using this.symm

/-! ## closure of traverse — for every attribute table -/

/-- what `traverse` resolves, stated outright -/
def resolveSpec {μ : Type} (tbl : Table μ) (name : Name) : Except String μ :=
  match splitDot name with
  | [ns, m] =>
    if m.head? = some '_' then .error "UNKNOWN_METHOD"
    else match tbl ns with
      | none => .error "UNKNOWN_METHOD"
      | some attrs => match attrs m with
        | .boundMethod f => .ok f
        | _ => .error "UNKNOWN_METHOD"
  | _ => .error "UNKNOWN_METHOD"

theorem resolve_eq {μ : Type} (tbl : Table μ) (name : Name) : resolve tbl name = resolveSpec tbl name := by
  unfold resolve resolveSpec
  simp only [traverse_g0, traverse_g1, traverse_g2, traverse_g3, nthFault, traverseRaises]
  rcases hs : splitDot name with _ | ⟨a, _ | ⟨b, _ | ⟨c, r⟩⟩⟩
  · simp
  · simp
  · simp only [List.length_cons, List.length_nil]
    by_cases hu : b.head? = some '_'
    · simp [hu]
    · simp only [hu, if_false]
      have : (b.head? == some '_') = false := by simpa using hu
      simp only [this]
      cases tbl a with
      | none => simp
      | some attrs =>
        simp only [Bool.not_true, Bool.false_eq_true, if_false, Bool.not_false, if_true]
        generalize attrs b = k
        cases k <;> rfl
  · simp
    omega

/-- **traverse_closed.**  Whatever objects hang off the root: if `traverse` resolves a name to
    something it will call, the name is exactly `ns.m`, no further dot, `m` does not begin with an
    underscore, `ns` is an attribute of the root that is not None, and `m` is a bound method of it. -/
theorem traverse_closed {μ : Type} (tbl : Table μ) (name : Name) (f : μ) (h : resolve tbl name = .ok f) :
    ∃ ns m attrs, name = ns ++ '.' :: m ∧ '.' ∉ ns ∧ '.' ∉ m ∧ m.head? ≠ some '_' ∧
      tbl ns = some attrs ∧ attrs m = .boundMethod f := by
  rw [resolve_eq] at h
  unfold resolveSpec at h
  split at h
  · rename_i ns m hp
    split at h
    · cases h
    · rename_i hu
      split at h
      · cases h
      · rename_i attrs ha
        split at h
        · rename_i g hg
          cases h
          obtain ⟨h1, h2, h3⟩ := splitDot_two name ns m hp
          exact ⟨ns, m, attrs, h1, h2, h3, hu, ha, hg⟩
        · cases h
  · cases h

/-- every other name is answered UNKNOWN_METHOD by the resolution step -/
theorem traverse_dichotomy {μ : Type} (tbl : Table μ) (name : Name) :
    (∃ f, resolve tbl name = .ok f) ∨ resolve tbl name = .error "UNKNOWN_METHOD" := by
  rw [resolve_eq]
  unfold resolveSpec
  repeat' split
  all_goals first
    | (right; rfl)
    | (left; exact ⟨_, rfl⟩)

/-- the classes of names the statement lists are all refused: not exactly two dotted parts (none,
    one, three or more — every dotted chain, every empty part), a method part beginning with an
    underscore (dunder names included), a namespace that is not an attribute of the root, an
    attribute that is not a bound method -/
theorem refused_classes {μ : Type} (tbl : Table μ) (name : Name)
    (h : (splitDot name).length ≠ 2 ∨
         ∃ ns m, splitDot name = [ns, m] ∧
           (m.head? = some '_' ∨ tbl ns = none ∨ ∃ attrs, tbl ns = some attrs ∧ ∀ f, attrs m ≠ .boundMethod f)) :
    resolve tbl name = .error "UNKNOWN_METHOD" := by
  rw [resolve_eq]
  unfold resolveSpec
  rcases h with h | ⟨ns, m, hs, h⟩
  · split
    · rename_i hp; rw [hp] at h; simp at h
    · rfl
  · rw [hs]
    rcases h with h | h | ⟨attrs, ha, h⟩
    · simp [h]
    · simp only [h]; split <;> rfl
    · simp only [ha]
      split
      · rfl
      · generalize attrs m = k at h
        cases k with
        | boundMethod f => exact absurd rfl (h f)
        | other => rfl
        | absent => rfl

/-- **refused_executes_nothing.**  A refused name is answered with the UNKNOWN_METHOD fault and the
    state (including everything method bodies could have logged) is untouched — no body ran. -/
theorem refused_executes_nothing {σ ν : Type} (tbl : Table (Method σ ν)) (name : Name) (args : List ν) (s : σ)
    (h : resolve tbl name = .error "UNKNOWN_METHOD") :
    ∃ c, faultCode "UNKNOWN_METHOD" = some c ∧ call tbl name args s = (.fault c, s) := by
  refine ⟨1, by decide, ?_⟩
  simp [call, h, raiseFault, faultCode, faults, List.lookup]

/-- **arity_fault.**  A resolved method called with too few or too many arguments answers
    INCORRECT_PARAMETERS and its body does not run. -/
theorem arity_fault {σ ν : Type} (tbl : Table (Method σ ν)) (name : Name) (m : Method σ ν) (args : List ν) (s : σ)
    (h : resolve tbl name = .ok m) (ha : args.length < m.minArgs ∨ m.maxArgs < args.length) :
    ∃ c, faultCode "INCORRECT_PARAMETERS" = some c ∧ call tbl name args s = (.fault c, s) := by
  refine ⟨2, by decide, ?_⟩
  have : (decide (args.length < m.minArgs) || decide (m.maxArgs < args.length)) = true := by
    rcases ha with ha | ha <;> simp [ha]
  simp [call, h, this, nthFault, traverseRaises, raiseFault, faultCode, faults, List.lookup]

/-- otherwise the body runs once and its outcome is the answer (a TypeError escaping from the body
    is reported as INCORRECT_PARAMETERS as well) -/
theorem call_runs_body {σ ν : Type} (tbl : Table (Method σ ν)) (name : Name) (m : Method σ ν) (args : List ν) (s : σ)
    (h : resolve tbl name = .ok m) (ha : m.minArgs ≤ args.length ∧ args.length ≤ m.maxArgs)
    (hne : ∀ s', m.run args s ≠ (.raised "TypeError", s')) :
    call tbl name args s = m.run args s := by
  have : (decide (args.length < m.minArgs) || decide (m.maxArgs < args.length)) = false := by
    simp; omega
  simp only [call, h, this, Bool.false_eq_true, if_false]
  split
  · rename_i w s' hr
    split
    · rename_i hw; subst hw; exact absurd hr (hne s')
    · exact hr.symm
  · rfl

-- non-vacuity
def demoTable : Table (Method Nat Nat) := fun ns =>
  if ns = "supervisor".toList then some fun m =>
    if m = "getPID".toList then .boundMethod ⟨0, 0, fun _ s => (.value 7, s + 1)⟩
    else if m = "supervisord".toList then .other else .absent
  else none
example : (call demoTable "supervisor.getPID".toList [] 0).2 = 1 := by decide
example : (call demoTable "supervisor.getPID".toList [5] 0).2 = 0 := by decide
def refusal {μ : Type} : Except String μ → Option String
  | .error e => some e
  | .ok _ => none
example : refusal (resolve demoTable "supervisor.supervisord.options".toList) = some "UNKNOWN_METHOD" := by decide
example : refusal (resolve demoTable "supervisor._update".toList) = some "UNKNOWN_METHOD" := by decide
example : refusal (resolve demoTable "supervisor.supervisord".toList) = some "UNKNOWN_METHOD" := by decide
example : refusal (resolve demoTable ".".toList) = some "UNKNOWN_METHOD" := by decide
example : refusal (resolve demoTable "supervisor.getPID".toList) = none := by decide
example : splitDot "a..b".toList = ["a".toList, [], "b".toList] := by decide

end Sv.Props.C12
