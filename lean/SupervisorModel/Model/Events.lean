import SupervisorModel.Basic.Bytes
import SupervisorModel.Generated.Events
/-
  supervisor/events.py: the callback registry and `notify`.  `callbacks` is a list scanned in
  order; `isinstance(event, type)` is "type is an ancestor-or-self of the event's class", read
  from the generated class table (`Sv.Gen.Events.Cls.ancestors`).
-/
namespace Sv.Events
open Sv.Gen.Events

/-- `isinstance(e, t)` for an event of class `c` -/
def isInstance (c t : Cls) : Bool := c.ancestors.elem t

/-- a subscription: `subscribe(type, callback)`; the callback is identified by the subscriber's index -/
structure Sub where
  type : Cls
  who : Nat
deriving DecidableEq, Repr

/-- `notify(event)`: the subscribers whose callback runs, in order, one entry per matching subscription -/
def notified (callbacks : List Sub) (c : Cls) : List Nat :=
  (callbacks.filter fun s => isInstance c s.type).map (·.who)

def parseCls (n : String) : Option Cls := Cls.all.find? fun c => c.name == n

end Sv.Events
