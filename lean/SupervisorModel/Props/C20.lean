import SupervisorModel.Lemmas.CtlSpec
import SupervisorModel.Lemmas.CtlFwd
import SupervisorModel.Lemmas.CtlNames
/-
  C20 — supervisorctl reports what the server said.

  Model: Model/Ctl.lean (`Controller.onecmd`, `upcheck`, the 17 actions; non-interactive).  One invocation is
  `run url line script`: the command line and the answers the server proxy gives, in the order asked.
  The definitions unfolded here (`Sv.Gen.Ctl.*`: fault codes, LSB exit statuses, every fault comparison,
  every exit-status assignment, the tolerated-fault arguments, the wording tables, the fault codes the server
  side raises) are regenerated from /repo on every run.

  The exit-status claim is two implications (not an equivalence); both are kept in that shape.
-/
set_option linter.unusedSimpArgs false
set_option linter.unusedVariables false
namespace Sv.Props.C20
open Sv Sv.Ctl Sv.Gen.Ctl Sv.Ctl.Spec

/-! ## the specification predicates (defined in Lemmas/CtlSpec.lean; restated here, checked by `rfl`) -/

/-- the four answers the statement counts as success although they are faults, by RPC method -/
theorem toleratedCode_def (meth : String) : toleratedCode meth =
    if meth = "startProcess" ∨ meth = "startProcessGroup" ∨ meth = "startAllProcesses" then some Faults_ALREADY_STARTED
    else if meth = "stopProcess" ∨ meth = "stopProcessGroup" ∨ meth = "stopAllProcesses" then some Faults_NOT_RUNNING
    else if meth = "addProcessGroup" then some Faults_ALREADY_ADDED
    else if meth = "shutdown" then some Faults_SHUTDOWN_STATE
    else none := rfl

/-- `refused c`: the server refused or failed the request `c`, or could not be reached: a ProtocolError (incl.
    401), a socket error, a fault other than the tolerated one of a per-process method (any fault of a group/all
    method), a result list with an entry that is neither SUCCESS nor the tolerated code, a wrong API version,
    an HTTP error status of `tail -f`.  (A Fault carrying the code SUCCESS is not counted: no server sends one.) -/
theorem refused_def (c : Call) : refused c =
    match c.ans with
    | .proto _ => true
    | .sock _ => true
    | .fault code _ => code != Faults_SUCCESS && (listMethods.contains c.meth || some code != toleratedCode c.meth)
    | .ok (.results rs) => rs.any fun r => r.status != Faults_SUCCESS && some r.status != toleratedCode c.meth
    | .ok (.str api) => c.meth == "getVersion" && api != API_VERSION
    | .ok (.int _) => c.meth == "GET"
    | .ok _ => false := rfl

/-- well-formed argument lists, per action -/
theorem argsOk_def (a : Action) (arg : String) : argsOk a arg =
    match a with
    | .start | .stop | .restart | .clear | .add | .remove => pySplit arg ≠ []
    | .signal => 2 ≤ (pySplit arg).length
    | .shutdown | .reload | .version | .reread | .avail => arg = ""
    | .tail => tailArgsOk (pySplit arg) = true
    | .maintail => maintailArgsOk (pySplit arg) = true
    | .status | .pid | .update => True := rfl

/-- `tail [-f | -N] <name> [stdout|stderr]`, `maintail [-f | -N]` -/
theorem tailArgsOk_def (args : List String) : tailArgsOk args =
    match args with
    | [] => false
    | a0 :: rest =>
      decide (args.length ≤ 3) &&
        (if a0.toList.head? == some '-' then modifierOk a0 && tailRestOk rest else tailRestOk args) := rfl
theorem maintailArgsOk_def (args : List String) : maintailArgsOk args =
    match args with
    | [] => true
    | [a0] => a0.toList.head? == some '-' && modifierOk a0
    | _ => false := by
  rcases args with _ | ⟨x, _ | ⟨y, r⟩⟩ <;> rfl
theorem modifierOk_def (m : String) : modifierOk m =
    (String.ofList (m.toList.drop 1) == "f" || (pyInt (String.ofList (m.toList.drop 1))).isSome) := rfl
example : tailArgsOk ["-f", "foo", "stderr"] = true ∧ tailArgsOk ["foo", "bogus"] = false ∧ tailArgsOk ["-x", "foo"] = false ∧
    tailArgsOk [] = false ∧ maintailArgsOk ["-f"] = true ∧ maintailArgsOk ["foo"] = false := by decide

/-! ## exit status: failure ⇒ non-zero -/

/-- For every action, every argument string and every answer script: if the invocation ends with exit status 0
    (and the script fitted the calls), then no request the client made was refused or failed -- no ProtocolError
    (incl. 401), no socket error, no fault other than the four tolerated ones, no result entry other than SUCCESS
    or the tolerated code, no wrong API version, no HTTP error of `tail -f` -- and the argument list was
    well-formed.  (F23, F24, F36 were the exceptions; they are fixed in /repo and the theorem is now full.) -/
theorem failure_exit_nonzero (a : Action) (arg url : String) (script : List Ans)
    (h0 : (protect (a.run arg) (init url script)).p.exit = 0)
    (herr : (protect (a.run arg) (init url script)).err = none) :
    (∀ c ∈ (protect (a.run arg) (init url script)).p.calls, refused c = false) ∧ argsOk a arg := by
  obtain ⟨_, hp, hc⟩ := safeP_protect (safe_run a arg) (init url script) ⟨h0, herr⟩
  refine ⟨fun c hcm => ?_, hp⟩
  rcases hc c hcm with h | h
  · simp [init] at h
  · simpa [okP] using h

-- non-vacuity: an invocation that ends with exit status 0 after three calls
example : (protect (Action.restart.run "foo") (init "u" [.ok (.str "3.0"), .ok (.str "3.0"), .ok .unit,
    .ok (.str "3.0"), .ok .unit])).p.exit = 0 := by decide

/-- contrapositive form: a refused request that is not excluded makes the exit status non-zero -/
theorem refused_call_exit_nonzero (a : Action) (arg url : String) (script : List Ans) (c : Call)
    (hc : c ∈ (protect (a.run arg) (init url script)).p.calls) (hr : refused c = true)
    (herr : (protect (a.run arg) (init url script)).err = none) :
    (protect (a.run arg) (init url script)).p.exit ≠ 0 := by
  intro h0
  have := (failure_exit_nonzero a arg url script h0 herr).1 c hc
  simp_all

example : (protect (Action.start.run "foo") (init "u" [.ok (.str "3.0"), .fault 10 "BAD_NAME: foo"])).p.exit = 1 := by
  decide
example : (protect (Action.status.run "") (init "u" [.proto 401, .proto 401])).p.exit = 1 := by decide
example : (protect (Action.stop.run "g:*") (init "u" [.sock 111])).p.exit = 4 := by decide

/-- an unknown action, a missing action word or a `!` line: "*** Unknown syntax" and status GENERIC -/
theorem unknown_syntax_exit_nonzero (l : String) (s : S) (h : s.err = none) :
    (unknownSyntax l s).p.exit = 1 ∧ (unknownSyntax l s).outs = s.outs ++ ["*** Unknown syntax: " ++ l] := by
  simp [unknownSyntax, out, emit, setExit, setP, guard, h, ctl_gen]

/-- the former exceptions, now as the code has them: `add` without a name, `tail -f` of an unknown name, `update`
    with a failed stop in a changed group -/
theorem former_findings_exit_nonzero :
    (run "u" "add" []).p.exit = 1 ∧ (run "u" "remove" []).p.exit = 1 ∧
    (run "u" "tail -f nosuch" [.ok (.str "3.0"), .ok (.int 404)]).p.exit = 1 ∧
    (run "u" "update" [.ok (.reload [] ["foo"] []), .ok (.results [⟨"foo", "foo", 30, "FAILED: x"⟩])]).p.exit = 1 ∧
    (run "u" "update" [.ok (.reload [] ["foo"] []), .ok (.results [⟨"foo", "foo", 30, "FAILED: x"⟩])]).outs =
      ["foo: stopped", "foo: has problems; not updating"] := by decide

/-! ## exit status: success ⇒ zero -/

/-- the tolerated answer of a method, as used by the action that asks: ALREADY_STARTED for the start requests of
    start/restart, NOT_RUNNING for the stop requests of stop/restart (and of update), ALREADY_ADDED for add,
    SHUTDOWN_STATE for shutdown -/
theorem ownTolerated_def (a : Action) (meth : String) : ownTolerated a meth =
    match a with
    | .start => if startMethods.contains meth then some Faults_ALREADY_STARTED else none
    | .stop => if stopMethods.contains meth then some Faults_NOT_RUNNING else none
    | .restart => if startMethods.contains meth then some Faults_ALREADY_STARTED
                  else if stopMethods.contains meth then some Faults_NOT_RUNNING else none
    | .update => if meth == "stopProcessGroup" then some Faults_NOT_RUNNING else none
    | .add => if meth == "addProcessGroup" then some Faults_ALREADY_ADDED else none
    | .shutdown => if meth == "shutdown" then some Faults_SHUTDOWN_STATE else none
    | _ => none := by cases a <;> rfl

/-- the namespec rules for `status`: which processes a name matches, which are shown, whether every name matched -/
theorem nameMatches_def (n : String) (i : Info) : nameMatches n i =
    (i.group == (splitNamespec n).1 && ((splitNamespec n).2 == none || (splitNamespec n).2 == some i.name)) := rfl
theorem statusShown_def (all : List Info) (names : List String) : statusShown all names =
    if names.isEmpty || names.contains "all" then all else names.flatMap fun n => all.filter (nameMatches n) := rfl
theorem statusNamesKnown_def (all : List Info) (names : List String) : statusNamesKnown all names =
    (names.isEmpty || names.contains "all" || names.all fun n => !(all.filter (nameMatches n)).isEmpty) := rfl

/-- `succeeded a arg c`: the request `c` made by action `a` succeeded -/
theorem succeeded_def (a : Action) (arg : String) (c : Call) : succeeded a arg c =
    match c.ans with
    | .proto _ => false
    | .sock _ => false
    | .fault code _ => !listMethods.contains c.meth && some code == ownTolerated a c.meth
    | .ok (.results rs) => rs.all fun r => r.status == Faults_SUCCESS || some r.status == ownTolerated a c.meth
    | .ok (.str api) => c.meth != "getVersion" || api == API_VERSION
    | .ok (.int _) => c.meth != "GET"
    | .ok (.info i) => a != .pid || i.pid != 0
    | .ok (.infos all) =>
      (a != .status || (statusNamesKnown all (pySplit arg) &&
          (statusShown all (pySplit arg)).all fun i => !STOPPED_STATES.contains i.state)) &&
      (a != .update || (validOf arg).all fun g => (all.map (·.group)).contains g)
    | .ok _ => true := rfl

/-- For every action, every well-formed argument string and every answer script: if every request the client made
    succeeded -- a value of the right API version, result lists whose entries are all SUCCESS or the action's
    tolerated code, the action's tolerated fault for a per-process request (start of a started process, stop of a
    process that is not running, add of an active group, shutdown of a daemon that is shutting down), and for
    `status` every name known and no shown process stopped, for `pid <name>` a running process, for
    `update <groups>` only known groups -- then the exit status is 0.
    (What lies between this theorem and `failure_exit_nonzero` -- e.g. `pid` of a stopped process exits 7 -- is
    left as the code has it.) -/
theorem all_ok_exit_zero (a : Action) (arg url : String) (script : List Ans) (hargs : argsOk a arg)
    (h : ∀ c ∈ (protect (a.run arg) (init url script)).p.calls, succeeded a arg c = true) :
    (protect (a.run arg) (init url script)).p.exit = 0 :=
  ((fwd_protect (fwd_run a arg hargs)).2 (init url script) ⟨rfl, Or.inl rfl⟩ h).1

-- non-vacuity: the hypotheses are satisfiable with several calls, incl. both tolerated faults of restart
example : pySplit "foo" ≠ [] ∧
    ((protect (Action.restart.run "foo") (init "u" [.ok (.str "3.0"), .ok (.str "3.0"),
      .fault 70 "NOT_RUNNING: foo", .ok (.str "3.0"), .fault 60 "ALREADY_STARTED: foo"])).p.calls.all
        fun c => succeeded .restart "foo" c) = true ∧
    (protect (Action.restart.run "foo") (init "u" [.ok (.str "3.0"), .ok (.str "3.0"),
      .fault 70 "NOT_RUNNING: foo", .ok (.str "3.0"), .fault 60 "ALREADY_STARTED: foo"])).p.calls.length = 5 := by
  decide

/-! ### function level and the list forms -/


/-- Controller.set_exitstatus_from_xmlrpc_fault, completely: SUCCESS and the tolerated code leave the status,
    the DEAD_PROGRAM_FAULTS give NOT_RUNNING (7), everything else GENERIC (1) -/
theorem setExitFromFault_spec (code : Int) (ign : Option Int) (s : S) (h : s.err = none) :
    (setExitFromFault code ign s).p.exit =
      (if code = Faults_SUCCESS ∨ some code = ign then s.p.exit
       else if code = Faults_SPAWN_ERROR ∨ code = Faults_ABNORMAL_TERMINATION ∨ code = Faults_NOT_RUNNING then 7
       else 1) ∧ (setExitFromFault code ign s).err = none ∧ (setExitFromFault code ign s).outs = s.outs := by
  unfold setExitFromFault guard
  simp only [h, Option.isSome_none, Bool.false_eq_true, if_false]
  simp only [onIgn, setexit_g0, setexit_g1, setexit_a0, setexit_a1, K, DEAD_PROGRAM_FAULTS, List.map, List.elem_eq_contains]
  cases ign <;> simp [setExit, setP, guard, h, ctl_gen] <;> (repeat' split) <;> simp_all <;> omega

/-- the tolerated-fault argument at every call site of set_exitstatus_from_xmlrpc_fault is the documented one:
    ALREADY_STARTED for start, NOT_RUNNING for stop, none for signal and clear -/
theorem tolerated_arguments :
    K do_start_c0_1 = Faults_ALREADY_STARTED ∧ K do_start_c1_1 = Faults_ALREADY_STARTED ∧ K do_start_c2_1 = Faults_ALREADY_STARTED ∧
    K do_stop_c0_1 = Faults_NOT_RUNNING ∧ K do_stop_c1_1 = Faults_NOT_RUNNING ∧ K do_stop_c2_1 = Faults_NOT_RUNNING := by decide

/-! ## one line per result, wording -/
theorem out_spec (l : String) (s : S) (h : s.err = none) :
    (out l s).outs = s.outs ++ [l] ∧ (out l s).err = none ∧ (out l s).p = s.p := by
  simp [out, emit, guard, h]

/-- the loop over a result list: when every status has a wording, exactly one line per entry is printed, in
    order, each the wording of that entry's status, and no exception is raised -/
theorem one_line_per_result (line : LineFn) (ign : Option Int) (rs : List Res) (s : S) (h : s.err = none)
    (hw : ∀ r ∈ rs, (line r.group (some r.name) r.status r.desc).isSome) :
    (printResults line ign rs s).outs = s.outs ++ rs.filterMap (fun r => line r.group (some r.name) r.status r.desc) ∧
    (printResults line ign rs s).err = none := by
  induction rs generalizing s with
  | nil => simp [printResults, h]
  | cons r rs ih =>
    have hr := hw r (List.mem_cons_self)
    obtain ⟨l, hl⟩ := Option.isSome_iff_exists.1 hr
    have e1 := out_spec l s h
    have e2 := setExitFromFault_spec r.status ign (out l s) e1.2.1
    have := ih (setExitFromFault r.status ign (out l s)) e2.2.1 (fun x hx => hw x (List.mem_cons_of_mem _ hx))
    simp only [printResults, printOne, hl, List.filterMap_cons]
    rw [this.1, e2.2.2, e1.1]
    exact ⟨by simp, this.2⟩

example : (printResults startLine (some 60) [⟨"a", "a", 80, "OK"⟩, ⟨"g", "b", 30, "FAILED: x"⟩, ⟨"c", "c", 60, ""⟩]
    (init "u" [])).outs = ["a: started", "FAILED: x", "c: ERROR (already started)"] := by decide

/-- a status has a wording exactly when it is in the action's table -/
theorem line_isSome (tbl : List (Int × Word)) (tmpl : String × String × String) (succ g : String) (n : Option String)
    (st : Int) (d : String) : (resultLine tbl tmpl succ g n st d).isSome = (lookupWord tbl st).isSome := by
  simp [resultLine]

/-- every code the per-process RPC methods can raise (read from rpcinterface.py) has a wording in the table of
    the action that prints it, so `_startresult`/`_signalresult`/`_clearresult` never reach their final `raise`
    for an answer of the server (F35, SHUTDOWN_STATE, was the exception; fixed in /repo) -/
theorem wording_covers_server_codes :
    (∀ c ∈ serverCodes_start, (lookupWord startWording c).isSome) ∧
    (∀ c ∈ serverCodes_stop, (lookupWord signalWording c).isSome) ∧
    (∀ c ∈ serverCodes_signal, (lookupWord signalWording c).isSome) ∧
    (∀ c ∈ serverCodes_clear, (lookupWord clearWording c).isSome) ∧
    (lookupWord startWording Faults_SUCCESS).isSome ∧ (lookupWord signalWording Faults_SUCCESS).isSome ∧
    (lookupWord clearWording Faults_SUCCESS).isSome := by decide

/-- a daemon that is shutting down: one line per name, every name asked, exit status GENERIC -/
theorem shutdown_state_one_line_per_name :
    (run "u" "start foo g:*" [.ok (.str "3.0"), .fault 6 "SHUTDOWN_STATE", .fault 6 "SHUTDOWN_STATE"]).outs =
      ["foo: ERROR (supervisor shutting down)", "g: ERROR (supervisor shutting down)"] ∧
    (run "u" "start foo g:*" [.ok (.str "3.0"), .fault 6 "SHUTDOWN_STATE", .fault 6 "SHUTDOWN_STATE"]).p.exit = 1 := by
  decide

/-- wording corresponds to the status: only SUCCESS is worded as a success; every other status in a table is
    worded `ERROR (...)` or is the server's own description (FAILED) -/
def successWord : Word → Bool
  | .ok _ => true
  | .okparam => true
  | _ => false
def errorWord (code : Int) : Word → Bool
  | .err _ => true
  | .desc => code == Faults_FAILED
  | _ => false

theorem wording_matches_table :
    (∀ e ∈ startWording ++ signalWording ++ clearWording,
      (e.1 = Faults_SUCCESS → successWord e.2 = true) ∧ (e.1 ≠ Faults_SUCCESS → errorWord e.1 e.2 = true)) ∧
    startWording_raisesOnUnknown = true ∧ signalWording_raisesOnUnknown = true ∧ clearWording_raisesOnUnknown = true := by
  decide

/-- distinct statuses of one table have distinct wordings -/
theorem wording_injective :
    (startWording.map (·.2)).Nodup ∧ (signalWording.map (·.2)).Nodup ∧ (clearWording.map (·.2)).Nodup ∧
    (startWording.map (·.1)).Nodup ∧ (signalWording.map (·.1)).Nodup ∧ (clearWording.map (·.1)).Nodup := by decide

/-! ## success ⇒ zero for the list forms -/
/-- a result list whose entries are all SUCCESS or the tolerated code leaves the exit status as it was -/
theorem all_ok_results_keep_exit (line : LineFn) (ign : Option Int) (rs : List Res) (s : S) (h : s.err = none)
    (hw : ∀ r ∈ rs, (line r.group (some r.name) r.status r.desc).isSome)
    (hok : ∀ r ∈ rs, r.status = Faults_SUCCESS ∨ some r.status = ign) :
    (printResults line ign rs s).p.exit = s.p.exit := by
  induction rs generalizing s with
  | nil => simp [printResults]
  | cons r rs ih =>
    obtain ⟨l, hl⟩ := Option.isSome_iff_exists.1 (hw r List.mem_cons_self)
    have e1 := out_spec l s h
    have e2 := setExitFromFault_spec r.status ign (out l s) e1.2.1
    have := ih (setExitFromFault r.status ign (out l s)) e2.2.1 (fun x hx => hw x (List.mem_cons_of_mem _ hx))
      (fun x hx => hok x (List.mem_cons_of_mem _ hx))
    simp only [printResults, printOne, hl]
    rw [this, e2.1, if_pos (hok r List.mem_cons_self), e1.2.2]

theorem filterMap_length_of_isSome {α β : Type} (f : α → Option β) (l : List α) (h : ∀ x ∈ l, (f x).isSome) :
    (l.filterMap f).length = l.length := by
  induction l with
  | nil => rfl
  | cons x l ih =>
    obtain ⟨y, hy⟩ := Option.isSome_iff_exists.1 (h x List.mem_cons_self)
    simp [List.filterMap_cons, hy, ih (fun z hz => h z (List.mem_cons_of_mem _ hz))]

theorem startLine_ok (g : String) (n : Option String) (st : Int) (d : String)
    (h : st = Faults_SUCCESS ∨ st = Faults_ALREADY_STARTED) : (startLine g n st d).isSome := by
  unfold startLine; rw [line_isSome]; rcases h with h | h <;> subst h <;> decide

/-- `start all`: the server up, every entry SUCCESS or ALREADY_STARTED ⇒ exit status 0, one line per entry -/
theorem all_ok_exit_zero_start_all (url : String) (rs : List Res)
    (hok : ∀ r ∈ rs, r.status = Faults_SUCCESS ∨ r.status = Faults_ALREADY_STARTED) :
    (protect (Action.start.run "all") (init url [.ok (.str API_VERSION), .ok (.results rs)])).p.exit = 0 ∧
    (protect (Action.start.run "all") (init url [.ok (.str API_VERSION), .ok (.results rs)])).outs.length = rs.length := by
  have hs : pySplit "all" = ["all"] := by decide
  let s1 : S := { p := { script := [], calls := [⟨"getVersion", [], .ok (.str API_VERSION)⟩,
    ⟨"startAllProcesses", [], .ok (.results rs)⟩], url := url } }
  have hrun : Action.start.run "all" (init url [.ok (.str API_VERSION), .ok (.results rs)]) =
      printResults startLine (some 60) rs s1 := by
    simp [Action.run, doStart, upcheck, rpc, guard, init, hs, startNames, ctl_gen, expectResults, s1]
  have hw : ∀ r ∈ rs, (startLine r.group (some r.name) r.status r.desc).isSome :=
    fun r hr => startLine_ok _ _ _ _ (hok r hr)
  have h1 := one_line_per_result startLine (some 60) rs s1 rfl hw
  have h2 := all_ok_results_keep_exit startLine (some 60) rs s1 rfl hw
    (fun r hr => by rcases hok r hr with h | h <;> simp [h, ctl_gen])
  have hp : protect (Action.start.run "all") (init url [.ok (.str API_VERSION), .ok (.results rs)]) =
      printResults startLine (some 60) rs s1 := by
    simp only [protect, hrun, h1.2, net]
  rw [hp, h2, h1.1]
  refine ⟨rfl, ?_⟩
  simp only [s1, List.nil_append]
  exact filterMap_length_of_isSome _ _ hw

/-- the four tolerated answers, end to end: exit status 0 -/
theorem tolerated_answers_exit_zero :
    (run "u" "start foo" [.ok (.str "3.0"), .fault 60 "ALREADY_STARTED: foo"]).p.exit = 0 ∧
    (run "u" "stop foo" [.ok (.str "3.0"), .fault 70 "NOT_RUNNING: foo"]).p.exit = 0 ∧
    (run "u" "add foo" [.fault 90 "ALREADY_ADDED: foo"]).p.exit = 0 ∧
    (run "u" "shutdown" [.fault 6 "SHUTDOWN_STATE"]).p.exit = 0 ∧
    -- and the same codes where they are not tolerated
    (run "u" "start foo" [.ok (.str "3.0"), .fault 50 "SPAWN_ERROR: foo"]).p.exit = 7 ∧
    (run "u" "reload" [.fault 6 "SHUTDOWN_STATE"]).p.exit = 1 := by decide

/-! ## status exits 3 when a shown process is in a stopped state -/
theorem setExit_spec (n : Int) (s : S) (h : s.err = none) :
    (setExit n s).p.exit = n ∧ (setExit n s).err = none := by
  simp [setExit, setP, guard, h]

theorem g6_eq (st : Int) : onState do_status_g6 st = STOPPED_STATES.contains st := rfl

/-- the last loop of do_status: exit status NOT_RUNNING (3) as soon as one shown process is in a stopped state -/
theorem markStopped_exit (infos : List Info) (s : S) (h : s.err = none) :
    (markStopped infos s).err = none ∧
    (markStopped infos s).p.exit = if infos.any (fun i => STOPPED_STATES.contains i.state) then 3 else s.p.exit := by
  unfold markStopped
  induction infos generalizing s with
  | nil => exact ⟨h, rfl⟩
  | cons i rest ih =>
    simp only [List.foldl_cons, List.any_cons]
    by_cases hi : STOPPED_STATES.contains i.state = true
    · have hg : onState do_status_g6 i.state = true := by rw [g6_eq]; exact hi
      rw [if_pos hg]
      have e := setExit_spec (K do_status_a14) s h
      have := ih (setExit (K do_status_a14) s) e.2
      refine ⟨this.1, ?_⟩
      rw [this.2, e.1]
      have hk : K do_status_a14 = 3 := by decide
      rw [hk]
      simp only [hi, Bool.true_or, if_true]
      split <;> rfl
    · have hg : ¬ onState do_status_g6 i.state = true := by rw [g6_eq]; exact hi
      rw [if_neg hg]
      have hf : STOPPED_STATES.contains i.state = false := by
        cases hc : STOPPED_STATES.contains i.state
        · rfl
        · exact absurd hc hi
      simp only [hf, Bool.false_or]
      exact ih s h

theorem statusName_spec (all : List Info) (n : String) (acc : S × List Info) (h : acc.1.err = none) :
    (statusName all n acc).1.err = none ∧ (statusName all n acc).2 = acc.2 ++ all.filter (nameMatches n) := by
  have hf : all.filter (statusMatches (splitNamespec n)) = all.filter (nameMatches n) := by
    congr 1; funext i; exact statusMatches_eq n i
  unfold statusName
  simp only [hf]
  split
  · rename_i he
    refine ⟨?_, by simp [List.isEmpty_iff.1 he]⟩
    have e1 := out_spec (if onPname do_status_g5 (splitNamespec n).2 = true then (splitNamespec n).1 ++ ": ERROR (no such group)"
      else n ++ ": ERROR (no such process)") acc.1 h
    exact (setExit_spec _ _ e1.2.1).2
  · exact ⟨h, rfl⟩

theorem statusSelect_spec (all : List Info) (names : List String) (acc : S × List Info) (h : acc.1.err = none) :
    (names.foldl (fun acc n => statusName all n acc) acc).1.err = none ∧
    (names.foldl (fun acc n => statusName all n acc) acc).2 = acc.2 ++ names.flatMap fun n => all.filter (nameMatches n) := by
  induction names generalizing acc with
  | nil => simp [h]
  | cons n names ih =>
    simp only [List.foldl_cons, List.flatMap_cons]
    have e := statusName_spec all n acc h
    have := ih _ e.1
    exact ⟨this.1, by rw [this.2, e.2, List.append_assoc]⟩

theorem showStatuses_spec (infos : List Info) (s : S) (h : s.err = none) :
    (showStatuses infos s).err = none ∧ (showStatuses infos s).p = s.p := by
  unfold showStatuses outs
  generalize (infos.map _) = ls
  induction ls generalizing s with
  | nil => exact ⟨h, rfl⟩
  | cons l ls ih =>
    simp only [List.foldl_cons]
    have e := out_spec l s h
    have := ih (out l s) e.2.1
    exact ⟨this.1, by rw [this.2, e.2.2]⟩

/-- `status` exits 3 when any shown process is in a stopped state: for every argument string, every process table
    the server answers and whatever else is in the script -/
theorem status_exit_3 (arg url : String) (all : List Info) (rest : List Ans)
    (h : (statusShown all (pySplit arg)).any (fun i => STOPPED_STATES.contains i.state) = true) :
    (protect (Action.status.run arg) (init url (.ok (.str API_VERSION) :: .ok (.infos all) :: rest))).p.exit = 3 := by
  let s1 : S := { p := { script := rest, calls := [⟨"getVersion", [], .ok (.str API_VERSION)⟩,
    ⟨"getAllProcessInfo", [], .ok (.infos all)⟩], url := url } }
  have hrun : Action.status.run arg (init url (.ok (.str API_VERSION) :: .ok (.infos all) :: rest)) =
      (if onNames do_status_g1 (pySplit arg) = true then markStopped all (showStatuses all s1)
       else markStopped (statusSelect all (pySplit arg) s1).2
              (showStatuses (statusSelect all (pySplit arg) s1).2 (statusSelect all (pySplit arg) s1).1)) := by
    simp [Action.run, doStatus, upcheck, rpc, guard, init, s1, ctl_gen]
  have key : (Action.status.run arg (init url (.ok (.str API_VERSION) :: .ok (.infos all) :: rest))).err = none ∧
      (Action.status.run arg (init url (.ok (.str API_VERSION) :: .ok (.infos all) :: rest))).p.exit = 3 := by
    rw [hrun]
    by_cases hall : onNames do_status_g1 (pySplit arg) = true
    · rw [if_pos hall]
      have hsh : statusShown all (pySplit arg) = all := by
        unfold statusShown
        have : ((pySplit arg).isEmpty || (pySplit arg).contains "all") = true := by simpa [ctl_gen] using hall
        simp only [this, if_true]
      rw [hsh] at h
      have e1 := showStatuses_spec all s1 rfl
      have e2 := markStopped_exit all _ e1.1
      exact ⟨e2.1, by rw [e2.2, h]; rfl⟩
    · rw [if_neg hall]
      have hnall : ((pySplit arg).isEmpty || (pySplit arg).contains "all") = false := by
        cases hh : ((pySplit arg).isEmpty || (pySplit arg).contains "all")
        · rfl
        · exact absurd (by simpa [ctl_gen] using hh) hall
      have hsh : statusShown all (pySplit arg) = (pySplit arg).flatMap fun n => all.filter (nameMatches n) := by
        unfold statusShown; simp only [hnall, Bool.false_eq_true, if_false]
      rw [hsh] at h
      have e0 := statusSelect_spec all (pySplit arg) (s1, []) rfl
      have e0' : (statusSelect all (pySplit arg) s1).2 = (pySplit arg).flatMap fun n => all.filter (nameMatches n) := by
        unfold statusSelect; rw [e0.2]; simp
      have e1 := showStatuses_spec (statusSelect all (pySplit arg) s1).2 (statusSelect all (pySplit arg) s1).1 e0.1
      have e2 := markStopped_exit (statusSelect all (pySplit arg) s1).2 _ e1.1
      exact ⟨e2.1, by rw [e2.2, e0', h]; rfl⟩
  have hp : protect (Action.status.run arg) (init url (.ok (.str API_VERSION) :: .ok (.infos all) :: rest)) =
      Action.status.run arg (init url (.ok (.str API_VERSION) :: .ok (.infos all) :: rest)) := by
    simp only [protect, key.1, net]
  rw [hp]; exact key.2


/-- end to end for `status` without names -/
example : (run "u" "status" [.ok (.str "3.0"), .ok (.infos [⟨"a", "a", 20, "RUNNING", "", 5⟩, ⟨"b", "b", 0, "STOPPED", "", 0⟩])]).p.exit = 3 := by
  decide
example : (run "u" "status a" [.ok (.str "3.0"), .ok (.infos [⟨"a", "a", 20, "RUNNING", "", 5⟩, ⟨"b", "b", 0, "STOPPED", "", 0⟩])]).p.exit = 0 := by
  decide
example : (run "u" "status nosuch" [.ok (.str "3.0"), .ok (.infos [⟨"a", "a", 20, "RUNNING", "", 5⟩])]).p.exit = 4 := by
  decide

/-- the states that make `status` exit 3 are exactly the documented stopped states -/
theorem stopped_states_table :
    (STOPPED_STATES.all fun c => ((processStateCodes.filter fun kv => kv.1 ∈ ["STOPPED", "EXITED", "FATAL", "UNKNOWN"]).map (·.2)).contains c) ∧
    (((processStateCodes.filter fun kv => kv.1 ∈ ["STOPPED", "EXITED", "FATAL", "UNKNOWN"]).map (·.2)).all fun c => STOPPED_STATES.contains c) ∧
    K do_status_a14 = 3 ∧ K do_status_a13 = 4 ∧ K do_status_a0 = 4 := by
  decide

/-! ## a fault is never silent, never a traceback -/
/-- the outer exception net of onecmd: every Python exception raised by an action ends as one `error:` line and
    exit status GENERIC; nothing escapes -/
theorem fault_never_silent (s : S) (e : Exc) (h : s.err = some e) (hh : isHarnessErr (some e) = false) :
    (net s).err = none ∧ (net s).outs = s.outs ++ ["error: " ++ excName e] ∧ (net s).p.exit = 1 := by
  simp [net, h, hh, out, emit, setExit, setP, guard, ctl_gen]

/-- no exception leaves `onecmd` (the only pending "errors" are the harness' own: a script that does not fit
    the calls, an action outside the model) -/
theorem no_traceback (f : S → S) (s : S) :
    (protect f s).err = none ∨ isHarnessErr (protect f s).err = true := by
  have hnet : ∀ x : S, (net x).err = none ∨ isHarnessErr (net x).err = true := by
    intro x
    unfold net
    split
    · left; assumption
    · rename_i e he
      split
      · right; rw [he]; assumption
      · left; simp [out, emit, setExit, setP, guard]
  unfold protect
  dsimp only
  split
  · split <;> exact hnet _
  · exact hnet _

/-! ## which processes the arguments select -/
theorem splitColon_none (l : List Char) (h : ':' ∉ l) : splitColon l = none := by
  induction l with
  | nil => rfl
  | cons c l ih =>
    have h1 : c ≠ ':' := fun e => h (by simp [e])
    have h2 : ':' ∉ l := fun e => h (List.mem_cons_of_mem _ e)
    simp [splitColon, h1, ih h2]

theorem splitColon_first (g p : List Char) (h : ':' ∉ g) : splitColon (g ++ ':' :: p) = some (g, p) := by
  induction g with
  | nil => simp [splitColon]
  | cons c g ih =>
    have h1 : c ≠ ':' := fun e => h (by simp [e])
    have h2 : ':' ∉ g := fun e => h (List.mem_cons_of_mem _ e)
    simp [splitColon, h1, ih h2]

/-- a plain name selects the process of that name in the group of that name -/
theorem namespec_plain (n : String) (h : ':' ∉ n.toList) : splitNamespec n = (n, some n) := by
  simp [splitNamespec, splitColon_none _ h]

/-- `group:*` and `group:` select the whole group -/
theorem namespec_group (g : String) (h : ':' ∉ g.toList) :
    splitNamespec (g ++ ":*") = (g, none) ∧ splitNamespec (g ++ ":") = (g, none) := by
  constructor
  · have : (g ++ ":*").toList = g.toList ++ ':' :: ['*'] := by simp [String.toList_append]
    simp [splitNamespec, this, splitColon_first _ _ h, String.ofList_toList]
  · have : (g ++ ":").toList = g.toList ++ ':' :: [] := by simp [String.toList_append]
    simp [splitNamespec, this, splitColon_first _ _ h, String.ofList_toList]

/-- `group:name` selects one process of the group (the name may itself contain colons) -/
theorem namespec_group_name (g p : String) (h : ':' ∉ g.toList) (hp : p ≠ "") (hs : p ≠ "*") :
    splitNamespec (g ++ ":" ++ p) = (g, some p) := by
  have : (g ++ ":" ++ p).toList = g.toList ++ ':' :: p.toList := by simp [String.toList_append]
  have h1 : p.toList ≠ [] := fun e => hp (by rw [← String.ofList_toList (s := p), e])
  have h2 : p.toList ≠ ['*'] := fun e => hs (by rw [← String.ofList_toList (s := p), e])
  simp [splitNamespec, this, splitColon_first _ _ h, String.ofList_toList, h1, h2]

/-- which request a name selects: the group request with the group name for `group:*` / `group:`, the
    per-process request with the name as given otherwise -/
def selected (single group : String) (extra : List String) (n : String) : String × List String :=
  if (splitNamespec n).2.isNone then (group, (splitNamespec n).1 :: extra) else (single, n :: extra)

theorem selection_startOne (n : String) (s : S) (a : Ans) (rest : List Ans) (herr : s.err = none)
    (hs : s.p.script = a :: rest) :
    (startOne n s).p.calls = s.p.calls ++
      [⟨(selected "startProcess" "startProcessGroup" [] n).1, (selected "startProcess" "startProcessGroup" [] n).2, a⟩] := by
  unfold startOne selected; (try dsimp only)
  have hg : onPname do_start_g3 (splitNamespec n).2 = (splitNamespec n).2.isNone := rfl
  rw [hg]
  split
  · exact rpc_calls (fun v => keeps_expectResults (fun rs => keeps_printResults _ _ rs) v) (fun c t => by keeps_straight)
      (fun e => keeps_raise _) s a rest herr hs
  · exact rpc_calls (fun v => keeps_expectUnit (keeps_out _) v) (fun c t => keeps_printOne _ _ _ _ _ _)
      (fun e => keeps_raise _) s a rest herr hs

theorem selection_stopOne (n : String) (s : S) (a : Ans) (rest : List Ans) (herr : s.err = none)
    (hs : s.p.script = a :: rest) :
    (stopOne n s).p.calls = s.p.calls ++
      [⟨(selected "stopProcess" "stopProcessGroup" [] n).1, (selected "stopProcess" "stopProcessGroup" [] n).2, a⟩] := by
  unfold stopOne selected; (try dsimp only)
  have hg : onPname do_stop_g3 (splitNamespec n).2 = (splitNamespec n).2.isNone := rfl
  rw [hg]
  split
  · exact rpc_calls (fun v => keeps_expectResults (fun rs => keeps_printResults _ _ rs) v) (fun c t => by keeps_straight)
      (fun e => keeps_raise _) s a rest herr hs
  · exact rpc_calls (fun v => keeps_expectUnit (keeps_out _) v) (fun c t => keeps_printOne _ _ _ _ _ _)
      (fun e => keeps_raise _) s a rest herr hs

theorem selection_signalOne (sig n : String) (s : S) (a : Ans) (rest : List Ans) (herr : s.err = none)
    (hs : s.p.script = a :: rest) :
    (signalOne sig n s).p.calls = s.p.calls ++
      [⟨(selected "signalProcess" "signalProcessGroup" [sig] n).1, (selected "signalProcess" "signalProcessGroup" [sig] n).2, a⟩] := by
  unfold signalOne selected; (try dsimp only)
  have hg : onPname do_signal_g3 (splitNamespec n).2 = (splitNamespec n).2.isNone := rfl
  rw [hg]
  split
  · exact rpc_calls (fun v => keeps_expectResults (fun rs => keeps_printResults _ _ rs) v) (fun c t => by keeps_straight)
      (fun e => keeps_raise _) s a rest herr hs
  · exact rpc_calls (fun v => keeps_expectUnit (keeps_out _) v) (fun c t => keeps_printOne _ _ _ _ _ _)
      (fun e => keeps_raise _) s a rest herr hs

/-- `clear` has no group form: every name is passed to clearProcessLogs as given -/
theorem selection_clearOne (n : String) (s : S) (a : Ans) (rest : List Ans) (herr : s.err = none)
    (hs : s.p.script = a :: rest) :
    (clearOne n s).p.calls = s.p.calls ++ [⟨"clearProcessLogs", [n], a⟩] := by
  unfold clearOne; (try dsimp only)
  exact rpc_calls (fun v => keeps_expectUnit (keeps_out _) v) (fun c t => keeps_printOne _ _ _ _ _ _)
    (fun e => keeps_raise _) s a rest herr hs

/-- `all` anywhere among the names: one request for everything -/
theorem selection_all (names : List String) (h : names.contains "all" = true) (sig : String) (s : S) (a : Ans)
    (rest : List Ans) (herr : s.err = none) (hs : s.p.script = a :: rest) :
    (startNames names s).p.calls = s.p.calls ++ [⟨"startAllProcesses", [], a⟩] ∧
    (stopNames names s).p.calls = s.p.calls ++ [⟨"stopAllProcesses", [], a⟩] ∧
    (signalNames sig names s).p.calls = s.p.calls ++ [⟨"signalAllProcesses", [sig], a⟩] ∧
    (clearNames names s).p.calls = s.p.calls ++ [⟨"clearAllProcessLogs", [], a⟩] := by
  have h1 : onNames do_start_g2 names = true := h
  have h2 : onNames do_stop_g2 names = true := h
  have h3 : onNames do_signal_g2 names = true := h
  have h4 : onNames do_clear_g2 names = true := h
  refine ⟨?_, ?_, ?_, ?_⟩
  · unfold startNames; rw [if_pos h1]
    exact rpc_calls (fun v => keeps_expectResults (fun rs => keeps_printResults _ _ rs) v) (fun c t => keeps_raise _)
      (fun e => keeps_raise _) s a rest herr hs
  · unfold stopNames; rw [if_pos h2]
    exact rpc_calls (fun v => keeps_expectResults (fun rs => keeps_printResults _ _ rs) v) (fun c t => keeps_raise _)
      (fun e => keeps_raise _) s a rest herr hs
  · unfold signalNames; rw [if_pos h3]
    exact rpc_calls (fun v => keeps_expectResults (fun rs => keeps_printResults _ _ rs) v) (fun c t => keeps_raise _)
      (fun e => keeps_raise _) s a rest herr hs
  · unfold clearNames; rw [if_pos h4]
    exact rpc_calls (fun v => keeps_expectResults (fun rs => keeps_printResults _ _ rs) v) (fun c t => keeps_raise _)
      (fun e => keeps_raise _) s a rest herr hs

/-- without `all`: the names are handled one after the other, in the order given -/
theorem selection_each (names : List String) (h : names.contains "all" = false) (sig : String) (s : S) :
    startNames names s = names.foldl (fun s n => startOne n s) s ∧
    stopNames names s = names.foldl (fun s n => stopOne n s) s ∧
    signalNames sig names s = names.foldl (fun s n => signalOne sig n s) s ∧
    clearNames names s = names.foldl (fun s n => clearOne n s) s := by
  have h1 : ¬ onNames do_start_g2 names = true := by rw [show onNames do_start_g2 names = names.contains "all" from rfl, h]; simp
  have h2 : ¬ onNames do_stop_g2 names = true := by rw [show onNames do_stop_g2 names = names.contains "all" from rfl, h]; simp
  have h3 : ¬ onNames do_signal_g2 names = true := by rw [show onNames do_signal_g2 names = names.contains "all" from rfl, h]; simp
  have h4 : ¬ onNames do_clear_g2 names = true := by rw [show onNames do_clear_g2 names = names.contains "all" from rfl, h]; simp
  refine ⟨?_, ?_, ?_, ?_⟩
  · unfold startNames; rw [if_neg h1]
  · unfold stopNames; rw [if_neg h2]
  · unfold signalNames; rw [if_neg h3]
  · unfold clearNames; rw [if_neg h4]


/-! ## a name was unknown: names the client itself resolves (`update <groups>`, `status <names>`)

  For start / stop / restart / signal / clear / pid / tail / add / remove the server resolves the name and answers
  BAD_NAME, which `refused` counts (`failure_exit_nonzero`), and every name gets its own request
  (`selection_each`).  `update` and `status` resolve the names against the process table the server returns; the
  theorems below say that an unknown name is reported by a line that names it and makes the exit status non-zero
  *whatever else* the server answered -- in particular when `reloadConfig` reports no added, changed or removed
  group at all, and when the process table is empty. -/

/-- `update <names>`: a name that is neither the group of a process the server lists nor a group `reloadConfig`
    reports as added gets the line "ERROR: no such group: <name>", and the exit status is non-zero -- for every
    argument string, every reloadConfig answer (pending changes or none), every process table (empty or not) and
    whatever follows in the script. -/
theorem update_unknown_group_reported (arg url : String) (added changed removed : List String) (infos : List Info)
    (rest : List Ans) (g : String) (hg : g ∈ validOf arg) (hk : g ∉ infos.map (·.group)) (ha : g ∉ added) :
    ("ERROR: no such group: " ++ g) ∈
      (protect (Action.update.run arg) (init url (.ok (.reload added changed removed) :: .ok (.infos infos) :: rest))).outs ∧
    ((protect (Action.update.run arg) (init url (.ok (.reload added changed removed) :: .ok (.infos infos) :: rest))).err = none →
     (protect (Action.update.run arg) (init url (.ok (.reload added changed removed) :: .ok (.infos infos) :: rest))).p.exit ≠ 0) := by
  have hne : (validOf arg).isEmpty = false := by
    cases h : validOf arg with
    | nil => rw [h] at hg; cases hg
    | cons x xs => rfl
  let s2 : S := { p := { script := rest, calls := [⟨"reloadConfig", [], .ok (.reload added changed removed)⟩,
    ⟨"getAllProcessInfo", [], .ok (.infos infos)⟩], url := url } }
  have hrun : Action.update.run arg (init url (.ok (.reload added changed removed) :: .ok (.infos infos) :: rest)) =
      updApply (validOf arg) added changed removed
        ((validOf arg).foldl (fun s v => updNoSuch (infos.map (·.group) ++ added) v s) s2) := by
    simp [Action.run, doUpdate, updChecked, rpc, guard, init, hne, s2]
  have hgr : g ∉ infos.map (·.group) ++ added := by
    intro h; rcases List.mem_append.1 h with h | h
    · exact hk h
    · exact ha h
  have hfold := updNoSuch_fold (infos.map (·.group) ++ added) (validOf arg) g hg hgr s2 rfl
  have hline : ("ERROR: no such group: " ++ g) ∈
      (Action.update.run arg (init url (.ok (.reload added changed removed) :: .ok (.infos infos) :: rest))).outs := by
    rw [hrun]; exact mono_updApply _ _ _ _ _ _ hfold.1
  have hdirty : ¬ Clean (Action.update.run arg (init url (.ok (.reload added changed removed) :: .ok (.infos infos) :: rest))) := by
    rw [hrun]; intro hc; exact hfold.2 (safe_updApply _ _ _ _ _ hc).1
  refine ⟨outs_protect (mono_doUpdate arg) _ _ hline, fun herr h0 => hdirty ?_⟩
  exact clean_protect (safe_doUpdate arg) _ ⟨h0, herr⟩

/-- the situation of the seeded change C20-4: no configuration change is pending (`reloadConfig` answers three empty
    lists) and a known group stands beside the unknown one -/
example : (run "u" "update foo typo" [.ok (.reload [] [] []), .ok (.infos [⟨"foo", "foo", 20, "RUNNING", "", 5⟩])]).outs =
      ["ERROR: no such group: typo"] ∧
    (run "u" "update foo typo" [.ok (.reload [] [] []), .ok (.infos [⟨"foo", "foo", 20, "RUNNING", "", 5⟩])]).p.exit = 1 ∧
    (run "u" "update typo" [.ok (.reload [] [] []), .ok (.infos [])]).p.exit = 1 ∧
    (run "u" "update foo" [.ok (.reload [] [] []), .ok (.infos [⟨"foo", "foo", 20, "RUNNING", "", 5⟩])]).p.exit = 0 := by
  decide

-- the hypotheses of update_unknown_group_reported are satisfiable
example : "typo" ∈ validOf "foo typo" ∧ "typo" ∉ ([⟨"foo", "foo", 20, "RUNNING", "", 5⟩] : List Info).map (·.group) := by decide

/-- one step of the name loop of do_status keeps an earlier report and adds one for a name that matches nothing -/
theorem statusName_unknown (all : List Info) (v : String) (acc : S × List Info) (h : acc.1.err = none) (msg : String) :
    (statusName all v acc).1.err = none ∧
    ((msg ∈ acc.1.outs ∧ acc.1.p.exit = 4) → (msg ∈ (statusName all v acc).1.outs ∧ (statusName all v acc).1.p.exit = 4)) ∧
    (all.filter (nameMatches v) = [] →
      msg = (if (splitNamespec v).2 = none then (splitNamespec v).1 ++ ": ERROR (no such group)" else v ++ ": ERROR (no such process)") →
      (msg ∈ (statusName all v acc).1.outs ∧ (statusName all v acc).1.p.exit = 4)) := by
  have hf : all.filter (statusMatches (splitNamespec v)) = all.filter (nameMatches v) := by
    congr 1; funext i; exact statusMatches_eq v i
  have hk : K do_status_a13 = 4 := by decide
  unfold statusName
  simp only [hf]
  split
  · rename_i he
    have e1 := out_spec (if onPname do_status_g5 (splitNamespec v).2 = true then (splitNamespec v).1 ++ ": ERROR (no such group)"
      else v ++ ": ERROR (no such process)") acc.1 h
    have e2 := setExit_spec (K do_status_a13) _ e1.2.1
    have e3 : (setExit (K do_status_a13) (out (if onPname do_status_g5 (splitNamespec v).2 = true then
        (splitNamespec v).1 ++ ": ERROR (no such group)" else v ++ ": ERROR (no such process)") acc.1)).outs =
        acc.1.outs ++ [if onPname do_status_g5 (splitNamespec v).2 = true then (splitNamespec v).1 ++ ": ERROR (no such group)"
          else v ++ ": ERROR (no such process)"] := by
      rw [← e1.1]; simp [setExit, setP, guard, e1.2.1]
    refine ⟨e2.2, fun hp => ⟨?_, by rw [e2.1, hk]⟩, fun _ hm => ⟨?_, by rw [e2.1, hk]⟩⟩
    · dsimp only; rw [e3]; exact List.mem_append_left _ hp.1
    · dsimp only; rw [e3]
      apply List.mem_append_right
      have : (onPname do_status_g5 (splitNamespec v).2 = true) ↔ ((splitNamespec v).2 = none) := by
        simp [onPname, do_status_g5]
      simp only [this]
      rw [hm]; exact List.mem_singleton.2 rfl
  · rename_i hne
    refine ⟨h, fun hp => hp, fun hu _ => ?_⟩
    rw [hu] at hne; exact absurd rfl hne

theorem statusSelect_unknown (all : List Info) (names : List String) (n msg : String) (acc : S × List Info)
    (h : acc.1.err = none)
    (hmsg : msg = (if (splitNamespec n).2 = none then (splitNamespec n).1 ++ ": ERROR (no such group)" else n ++ ": ERROR (no such process)"))
    (hu : all.filter (nameMatches n) = [])
    (hc : n ∈ names ∨ (msg ∈ acc.1.outs ∧ acc.1.p.exit = 4)) :
    msg ∈ (names.foldl (fun acc v => statusName all v acc) acc).1.outs ∧
    (names.foldl (fun acc v => statusName all v acc) acc).1.p.exit = 4 := by
  induction names generalizing acc with
  | nil =>
    rcases hc with hc | hc
    · cases hc
    · exact hc
  | cons v vs ih =>
    simp only [List.foldl_cons]
    have e := statusName_unknown all v acc h msg
    refine ih _ e.1 ?_
    rcases hc with hc | hc
    · rcases List.mem_cons.1 hc with rfl | hin
      · exact Or.inr (e.2.2 hu hmsg)
      · exact Or.inl hin
    · exact Or.inr (e.2.1 hc)

/-- `status <names>` (without `all`): a name that matches no process of the table the server returns -- in particular
    any name when the table is empty -- gets the line "<group>: ERROR (no such group)" (for `group:*`) or
    "<name>: ERROR (no such process)", and the exit status is 4, or 3 when a shown process is stopped: never 0.
    For every argument string, every process table and whatever follows in the script. -/
theorem status_unknown_name_reported (arg url : String) (all : List Info) (rest : List Ans) (n : String)
    (hn : n ∈ pySplit arg) (hall : (pySplit arg).contains "all" = false) (hu : all.filter (nameMatches n) = []) :
    (if (splitNamespec n).2 = none then (splitNamespec n).1 ++ ": ERROR (no such group)" else n ++ ": ERROR (no such process)") ∈
      (protect (Action.status.run arg) (init url (.ok (.str API_VERSION) :: .ok (.infos all) :: rest))).outs ∧
    ((protect (Action.status.run arg) (init url (.ok (.str API_VERSION) :: .ok (.infos all) :: rest))).p.exit = 4 ∨
     (protect (Action.status.run arg) (init url (.ok (.str API_VERSION) :: .ok (.infos all) :: rest))).p.exit = 3) := by
  let s1 : S := { p := { script := rest, calls := [⟨"getVersion", [], .ok (.str API_VERSION)⟩,
    ⟨"getAllProcessInfo", [], .ok (.infos all)⟩], url := url } }
  have hnall : ¬ onNames do_status_g1 (pySplit arg) = true := by
    have hne : (pySplit arg).isEmpty = false := by
      cases h : pySplit arg with
      | nil => rw [h] at hn; cases hn
      | cons x xs => rfl
    have hna : "all" ∉ pySplit arg := by simpa using hall
    simp [onNames, do_status_g1, hna, hne]
  have hrun : Action.status.run arg (init url (.ok (.str API_VERSION) :: .ok (.infos all) :: rest)) =
      markStopped (statusSelect all (pySplit arg) s1).2
        (showStatuses (statusSelect all (pySplit arg) s1).2 (statusSelect all (pySplit arg) s1).1) := by
    have h0 : Action.status.run arg (init url (.ok (.str API_VERSION) :: .ok (.infos all) :: rest)) =
        (if onNames do_status_g1 (pySplit arg) = true then markStopped all (showStatuses all s1)
         else markStopped (statusSelect all (pySplit arg) s1).2
                (showStatuses (statusSelect all (pySplit arg) s1).2 (statusSelect all (pySplit arg) s1).1)) := by
      simp [Action.run, doStatus, upcheck, rpc, guard, init, s1, ctl_gen]
    rw [h0, if_neg hnall]
  have e0 := statusSelect_spec all (pySplit arg) (s1, []) rfl
  have eu := statusSelect_unknown all (pySplit arg) n _ (s1, []) rfl rfl hu (Or.inl hn)
  have esel : (statusSelect all (pySplit arg) s1).1.err = none := e0.1
  have e1 := showStatuses_spec (statusSelect all (pySplit arg) s1).2 (statusSelect all (pySplit arg) s1).1 esel
  have e2 := markStopped_exit (statusSelect all (pySplit arg) s1).2 _ e1.1
  have hmono1 : Mono (showStatuses (statusSelect all (pySplit arg) s1).2) := by unfold showStatuses; exact mono_outs _
  have hmono2 : Mono (markStopped (statusSelect all (pySplit arg) s1).2) := by
    unfold markStopped
    refine mono_foldl (fun (i : Info) (s : S) => if onState do_status_g6 i.state = true then setExit (K do_status_a14) s else s) (fun i => ?_) _
    intro s l h; dsimp only; split
    · exact mono_setExit _ s l h
    · exact h
  have hp : protect (Action.status.run arg) (init url (.ok (.str API_VERSION) :: .ok (.infos all) :: rest)) =
      Action.status.run arg (init url (.ok (.str API_VERSION) :: .ok (.infos all) :: rest)) := by
    have herr : (Action.status.run arg (init url (.ok (.str API_VERSION) :: .ok (.infos all) :: rest))).err = none := by
      rw [hrun]; exact e2.1
    simp only [protect, herr, net]
  rw [hp, hrun]
  refine ⟨hmono2 _ _ (hmono1 _ _ eu.1), ?_⟩
  rw [e2.2]
  split
  · exact Or.inr rfl
  · left; rw [e1.2]; exact eu.2

-- an empty process table: every name is unknown
example : (run "u" "status typo" [.ok (.str "3.0"), .ok (.infos [])]).outs = ["typo: ERROR (no such process)"] ∧
    (run "u" "status typo" [.ok (.str "3.0"), .ok (.infos [])]).p.exit = 4 ∧
    (run "u" "status a typo g:*" [.ok (.str "3.0"), .ok (.infos [⟨"a", "a", 20, "RUNNING", "", 5⟩])]).outs.take 2 =
      ["typo: ERROR (no such process)", "g: ERROR (no such group)"] := by decide


/-! ## add / remove / pid: one request and one line per name, whatever fault the server raises for a name -/

/-- an answer the server side gives to a per-name request: `True`, or one of the faults the method raises
    (`serverCodes_*`, read from rpcinterface.py) -/
def NameAns (codes : List Int) : Ans → Prop
  | .ok .unit => True
  | .fault c _ => c ∈ codes
  | _ => False

/-- one step of a per-name loop: consumes one answer, makes one call, writes exactly one line, raises nothing -/
def OneLine (f : S → S) (s : S) : Prop :=
  (f s).err = none ∧ (f s).outs.length = s.outs.length + 1 ∧ (f s).p.calls.length = s.p.calls.length + 1 ∧
  (f s).p.script = s.p.script.tail

/-- the fault codes do_add has a per-name branch for, computed from the regenerated guards of its `except` chain
    (SHUTDOWN_STATE, ALREADY_ADDED, BAD_NAME); every other code reaches `else: raise` -/
def addWorded (c : Int) : Bool := onCode do_add_g1 c || onCode do_add_g2 c || onCode do_add_g3 c

/-- what is missing in do_add: of the faults addProcessGroup raises (rpcinterface.py), exactly FAILED -- the group
    cannot be created (F48/F49) -- has no per-name branch -/
theorem add_unworded_codes : serverCodes_add.filter (fun c => !addWorded c) = [Faults_FAILED] := by decide

/-- F50 (open).  Full statement: `addOne_one_line` for every `a` with `NameAns serverCodes_add a` -- every fault
    addProcessGroup raises is worded for that name and the loop goes on.  It holds for the faults do_add has a
    branch for (`addWorded`); FAILED is re-raised and ends the action (`add_failed_loses_remaining_names`).
    Missing part: `c = Faults_FAILED`. -/
theorem addOne_one_line_partial (name : String) (a : Ans) (rest : List Ans) (s : S) (h : s.err = none)
    (hs : s.p.script = a :: rest) (ha : NameAns (serverCodes_add.filter addWorded) a) : OneLine (addOne name) s := by
  unfold OneLine addOne rpc guard
  simp only [h, hs, Option.isSome_none, Bool.false_eq_true, if_false]
  cases a with
  | ok v => cases v <;> simp [NameAns] at ha; simp [expectUnit, out, emit, guard, h]
  | fault c t =>
    have hf : serverCodes_add.filter addWorded = [6, 10, 90] := by decide
    have hc : c = 6 ∨ c = 10 ∨ c = 90 := by simpa [NameAns, hf] using ha
    rcases hc with rfl | rfl | rfl <;> simp [ctl_gen, out, emit, setExit, setP, guard, h]
  | proto c => simp [NameAns] at ha
  | sock e => simp [NameAns] at ha

theorem removeOne_one_line (name : String) (a : Ans) (rest : List Ans) (s : S) (h : s.err = none)
    (hs : s.p.script = a :: rest) (ha : NameAns serverCodes_remove a) : OneLine (removeOne name) s := by
  unfold OneLine removeOne rpc guard
  simp only [h, hs, Option.isSome_none, Bool.false_eq_true, if_false]
  cases a with
  | ok v => cases v <;> simp [NameAns] at ha; simp [expectUnit, out, emit, guard, h]
  | fault c t =>
    have hc : c = 6 ∨ c = 10 ∨ c = 91 := by simpa [NameAns, serverCodes_remove, ctl_gen] using ha
    rcases hc with rfl | rfl | rfl <;> simp [ctl_gen, out, emit, setExit, setP, guard, h]
  | proto c => simp [NameAns] at ha
  | sock e => simp [NameAns] at ha

theorem oneLine_foldl (f : String → S → S) (codes : List Int)
    (hf : ∀ name a rest s, s.err = none → s.p.script = a :: rest → NameAns codes a → OneLine (f name) s)
    (names : List String) (s : S) (h : s.err = none) (hl : names.length ≤ s.p.script.length)
    (ha : ∀ a ∈ s.p.script.take names.length, NameAns codes a) :
    (names.foldl (fun s n => f n s) s).err = none ∧
    (names.foldl (fun s n => f n s) s).outs.length = s.outs.length + names.length ∧
    (names.foldl (fun s n => f n s) s).p.calls.length = s.p.calls.length + names.length := by
  induction names generalizing s with
  | nil => exact ⟨h, rfl, rfl⟩
  | cons n ns ih =>
    simp only [List.foldl_cons]
    cases hsc : s.p.script with
    | nil => rw [hsc] at hl; simp at hl
    | cons a rest =>
      have h1 := hf n a rest s h hsc (ha a (by rw [hsc]; simp))
      obtain ⟨e1, e2, e3, e4⟩ := h1
      rw [hsc] at e4
      have := ih (f n s) e1 (by rw [e4]; rw [hsc] at hl; simpa using hl)
        (fun x hx => ha x (by rw [hsc]; rw [e4] at hx; simp only [List.tail_cons] at hx; simp [List.take_succ_cons, hx]))
      refine ⟨this.1, ?_, ?_⟩
      · rw [this.2.1, e2]; simp only [List.length_cons]; omega
      · rw [this.2.2, e3]; simp only [List.length_cons]; omega

/-- `remove <names>`: when the server answers every request with `True` or with any fault removeProcessGroup can
    raise -- BAD_NAME, STILL_RUNNING and SHUTDOWN_STATE (F45) -- every name is asked about and gets exactly one line;
    no fault ends the action early. -/
theorem remove_one_line_per_name (arg url : String) (script : List Ans) (hn : pySplit arg ≠ [])
    (hl : (pySplit arg).length ≤ script.length)
    (ha : ∀ a ∈ script.take (pySplit arg).length, NameAns serverCodes_remove a) :
    (protect (Action.remove.run arg) (init url script)).outs.length = (pySplit arg).length ∧
    (protect (Action.remove.run arg) (init url script)).p.calls.length = (pySplit arg).length := by
  have hne : (pySplit arg).isEmpty = false := by
    cases h : pySplit arg with
    | nil => exact absurd h hn
    | cons x xs => rfl
  have hg : ¬ onNames do_remove_g0 (pySplit arg) = true := by simp [onNames, do_remove_g0, hne]
  have hrun : Action.remove.run arg (init url script) = (pySplit arg).foldl (fun s n => removeOne n s) (init url script) := by
    simp only [Action.run, doRemove, if_neg hg]
  have key := oneLine_foldl removeOne serverCodes_remove removeOne_one_line (pySplit arg) (init url script) rfl hl ha
  have hp : protect (Action.remove.run arg) (init url script) = Action.remove.run arg (init url script) := by
    have herr : (Action.remove.run arg (init url script)).err = none := by rw [hrun]; exact key.1
    simp only [protect, herr, net]
  rw [hp, hrun]
  exact ⟨by simpa [init] using key.2.1, by simpa [init] using key.2.2⟩

/-- F50 (open).  Full statement: as `remove_one_line_per_name`, for every fault of `serverCodes_add` (BAD_NAME,
    ALREADY_ADDED, SHUTDOWN_STATE, FAILED).  It holds when no answer is the FAILED fault
    (`serverCodes_add.filter addWorded`, see `add_unworded_codes`): then every name is asked about and gets exactly
    one line.  Missing part: a FAILED answer, which ends the action (`add_failed_loses_remaining_names`). -/
theorem add_one_line_per_name_partial (arg url : String) (script : List Ans) (hn : pySplit arg ≠ [])
    (hl : (pySplit arg).length ≤ script.length)
    (ha : ∀ a ∈ script.take (pySplit arg).length, NameAns (serverCodes_add.filter addWorded) a) :
    (protect (Action.add.run arg) (init url script)).outs.length = (pySplit arg).length ∧
    (protect (Action.add.run arg) (init url script)).p.calls.length = (pySplit arg).length := by
  have hne : (pySplit arg).isEmpty = false := by
    cases h : pySplit arg with
    | nil => exact absurd h hn
    | cons x xs => rfl
  have hg : ¬ onNames do_add_g0 (pySplit arg) = true := by simp [onNames, do_add_g0, hne]
  have hrun : Action.add.run arg (init url script) = (pySplit arg).foldl (fun s n => addOne n s) (init url script) := by
    simp only [Action.run, doAdd, if_neg hg]
  have key := oneLine_foldl addOne (serverCodes_add.filter addWorded) addOne_one_line_partial (pySplit arg)
    (init url script) rfl hl ha
  have hp : protect (Action.add.run arg) (init url script) = Action.add.run arg (init url script) := by
    have herr : (Action.add.run arg (init url script)).err = none := by rw [hrun]; exact key.1
    simp only [protect, herr, net]
  rw [hp, hrun]
  exact ⟨by simpa [init] using key.2.1, by simpa [init] using key.2.2⟩

-- the hypotheses are satisfiable by a script that mixes a success with the worded faults
example : ∀ a ∈ ([.ok .unit, .fault 90 "ALREADY_ADDED: b", .fault 10 "BAD_NAME: c", .fault 6 "SHUTDOWN_STATE"] : List Ans),
    NameAns (serverCodes_add.filter addWorded) a := by
  have hf : serverCodes_add.filter addWorded = [6, 10, 90] := by decide
  intro a ha
  simp only [List.mem_cons, List.mem_nil_iff, or_false] at ha
  rcases ha with rfl | rfl | rfl | rfl <;> simp [NameAns, hf]

/-- F50, the counterexample: `add a b` where the group a cannot be created: addProcessGroup(a) answers FAILED, the
    fault is re-raised, one generic "error: ..." line is printed and b is never asked about (1 call) although the
    server would have added it -/
theorem add_failed_loses_remaining_names :
    (run "u" "add a b" [.fault 30 "FAILED: a: cannot bind", .ok .unit]).outs = ["error: Fault"] ∧
    (run "u" "add a b" [.fault 30 "FAILED: a: cannot bind", .ok .unit]).p.calls.length = 1 ∧
    (run "u" "add a b" [.fault 30 "FAILED: a: cannot bind", .ok .unit]).p.exit = 1 := by
  decide

/-- F45 as the code has it now: `remove` against a daemon that is shutting down words the fault per name -/
example : (run "u" "remove foo bar" [.fault 6 "SHUTDOWN_STATE", .fault 6 "SHUTDOWN_STATE"]).outs =
      ["ERROR: shutting down", "ERROR: shutting down"] ∧
    (run "u" "remove foo bar" [.fault 6 "SHUTDOWN_STATE", .fault 6 "SHUTDOWN_STATE"]).p.exit = 1 ∧
    (run "u" "remove foo bar" [.fault 6 "SHUTDOWN_STATE", .ok .unit]).outs = ["ERROR: shutting down", "bar: removed process group"] := by
  decide

/-- `pid <names>`: every fault getProcessInfo can raise for a name -- BAD_NAME, and SHUTDOWN_STATE when the daemon
    began to shut down after the upcheck (F46) -- is worded for that name: one request, one line, no exception, and
    the loop goes on with the next name -/
theorem pid_one_line_per_name (name : String) (c : Int) (t : String) (rest : List Ans) (s : S) (h : s.err = none)
    (hs : s.p.script = .fault c t :: rest) (hc : c ∈ serverCodes_getinfo) :
    OneLine (pidOne name) s ∧ (pidOne name s).p.exit ≠ 0 := by
  have hc' : c = 6 ∨ c = 10 := by simpa [serverCodes_getinfo, ctl_gen] using hc
  unfold OneLine pidOne rpc guard
  rcases hc' with rfl | rfl <;> simp [h, hs, ctl_gen, out, emit, setExit, setP, guard]

/-- F46 as the code has it now -/
example :
    (run "u" "pid foo bar" [.ok (.str "3.0"), .fault 6 "SHUTDOWN_STATE", .ok (.info ⟨"bar", "bar", 20, "RUNNING", "", 7⟩)]).outs =
      ["foo: ERROR (supervisor shutting down)", "7"] ∧
    (run "u" "pid foo bar" [.ok (.str "3.0"), .fault 6 "SHUTDOWN_STATE", .ok (.info ⟨"bar", "bar", 20, "RUNNING", "", 7⟩)]).p.exit = 1 := by
  decide


/-! ## update: one result line per selected group (F47, open) -/

/-- after a successful `reloadConfig` the action is the three loops, run from some state -/
theorem update_is_loops (arg url : String) (added changed removed : List String) (rest : List Ans)
    (herr : (Action.update.run arg (init url (.ok (.reload added changed removed) :: rest))).err = none) :
    ∃ s' : S, Action.update.run arg (init url (.ok (.reload added changed removed) :: rest)) =
      updApply (validOf arg) added changed removed s' := by
  revert herr
  simp only [Action.run, doUpdate, rpc, guard, init, Option.isSome_none, Bool.false_eq_true, if_false]
  unfold updChecked
  split
  · intro _; exact ⟨_, rfl⟩
  · unfold rpc guard
    simp only [Option.isSome_none, Bool.false_eq_true, if_false]
    cases rest with
    | nil => simp [badScript, raise, guard]
    | cons a rest2 =>
      cases a with
      | ok v => cases v <;> simp [badScript, raise, guard] <;> exact fun _ => ⟨_, rfl⟩
      | fault c t => simp [raiseFault, raise, guard]
      | proto c => simp [raise, guard]
      | sock e => simp [raiseSock, raise, guard]

/-- F47 (open).  Full statement: for every `reloadConfig` answer and whatever the server answers afterwards, every
    group the command line selects among the removed, changed and added ones gets its result line ("removed /
    updated / added process group", or "has problems; not removing / not updating" when its processes could not be
    stopped).  It holds when no request inside the three loops raised (`herr`: the action itself ended without an
    exception).  do_update catches nothing inside the loops, so a fault of stopProcessGroup / removeProcessGroup /
    addProcessGroup for one group ends the action, and the groups after it are never handled and get no line
    (`update_fault_loses_remaining_groups`).  Missing part: the runs in which such a request raises. -/
theorem update_one_result_per_group_partial (arg url : String) (added changed removed : List String) (rest : List Ans)
    (herr : (Action.update.run arg (init url (.ok (.reload added changed removed) :: rest))).err = none) :
    (∀ g ∈ removed, skipped (validOf arg) g = false →
      ∃ l ∈ (protect (Action.update.run arg) (init url (.ok (.reload added changed removed) :: rest))).outs,
        l = g ++ ": removed process group" ∨ l = g ++ ": has problems; not removing") ∧
    (∀ g ∈ changed, skipped (validOf arg) g = false →
      ∃ l ∈ (protect (Action.update.run arg) (init url (.ok (.reload added changed removed) :: rest))).outs,
        l = g ++ ": updated process group" ∨ l = g ++ ": has problems; not updating") ∧
    (∀ g ∈ added, skipped (validOf arg) g = false →
      ∃ l ∈ (protect (Action.update.run arg) (init url (.ok (.reload added changed removed) :: rest))).outs,
        l = g ++ ": added process group") := by
  have hp : protect (Action.update.run arg) (init url (.ok (.reload added changed removed) :: rest)) =
      Action.update.run arg (init url (.ok (.reload added changed removed) :: rest)) := by
    simp only [protect, herr, net]
  obtain ⟨s', hs'⟩ := update_is_loops arg url added changed removed rest herr
  rw [hp, hs']
  rw [hs'] at herr
  have key := updApply_lines (validOf arg) added changed removed s' herr
  exact ⟨fun g hg hc => key.1 g hg (by simp [hc]), fun g hg hc => key.2.1 g hg (by simp [hc]),
    fun g hg hc => key.2.2 g hg (by simp [hc])⟩

-- non-vacuity: a run with one removed, one changed and one added group that raised nothing
example : (Action.update.run "" (init "u" [.ok (.reload ["n"] ["c"] ["r"]), .ok (.results []), .ok .unit,
      .ok (.results [⟨"c", "c", 80, "OK"⟩]), .ok .unit, .ok .unit, .ok .unit])).err = none ∧
    (run "u" "update" [.ok (.reload ["n"] ["c"] ["r"]), .ok (.results []), .ok .unit,
      .ok (.results [⟨"c", "c", 80, "OK"⟩]), .ok .unit, .ok .unit, .ok .unit]).outs =
      ["r: stopped", "r: removed process group", "c: stopped", "c: updated process group", "n: added process group"] := by
  decide

/-- F47, the counterexample: groups a and b are to be removed; a still has a process in state STOPPING, so
    stopProcessGroup(a) answers [] and removeProcessGroup(a) answers STILL_RUNNING; the fault is re-raised, one
    generic "error: ..." line is printed, and group b is never asked about (3 calls, no line for b) although the
    server would have stopped and removed it -/
theorem update_fault_loses_remaining_groups :
    (run "u" "update" [.ok (.reload [] [] ["a", "b"]), .ok (.results []), .fault 91 "STILL_RUNNING: a",
      .ok (.results [⟨"b", "b", 80, "OK"⟩]), .ok .unit]).outs = ["a: stopped", "error: Fault"] ∧
    (run "u" "update" [.ok (.reload [] [] ["a", "b"]), .ok (.results []), .fault 91 "STILL_RUNNING: a",
      .ok (.results [⟨"b", "b", 80, "OK"⟩]), .ok .unit]).p.calls.length = 3 ∧
    (run "u" "update" [.ok (.reload [] [] ["a", "b"]), .ok (.results []), .fault 91 "STILL_RUNNING: a",
      .ok (.results [⟨"b", "b", 80, "OK"⟩]), .ok .unit]).p.exit = 1 := by
  decide


example : (run "u" "start g:* foo" [.ok (.str "3.0"), .ok (.results []), .ok .unit]).p.calls.map renderCall =
    ["getVersion()", "startProcessGroup(g)", "startProcess(foo)"] := by decide

/-! ## the server state "wrong API version" -/

/-- **wrong_api_version_refused.**  Whatever version string the daemon reports other than the client's own — an older
    one, a newer one, one that compares lower or higher as a string — `upcheck` prints the mismatch line that names it,
    sets the exit status NOT_INSTALLED (non-zero) and does NOT continue with the action (`onUp` is not run): what goes on
    (`onDown`: the action's early return) starts from a state in which exactly the one `getVersion` request was made. -/
theorem wrong_api_version_refused (api : String) (h : api ≠ API_VERSION) (onUp onDown : S → S) (s : S)
    (rest : List Ans) (hs : s.err = none) (hscript : s.p.script = .ok (.str api) :: rest) :
    upcheck onUp onDown s =
      onDown ({ s with p := { s.p with script := rest, calls := s.p.calls ++ [⟨"getVersion", [], .ok (.str api)⟩] } }
        |> out (msgWrongVersion api) |> setExit LSBInit_NOT_INSTALLED) := by
  simp [upcheck, rpc, guard, hs, hscript, upcheck_g0, upcheck_a2, h]

/-- and the right version goes on with the action -/
theorem right_api_version_accepted (onUp onDown : S → S) (s : S) (rest : List Ans) (hs : s.err = none)
    (hscript : s.p.script = .ok (.str API_VERSION) :: rest) :
    upcheck onUp onDown s =
      onUp { s with p := { s.p with script := rest, calls := s.p.calls ++ [⟨"getVersion", [], .ok (.str API_VERSION)⟩] } } := by
  simp [upcheck, rpc, guard, hs, hscript, upcheck_g0]

example : LSBInit_NOT_INSTALLED ≠ 0 := by decide
-- a newer daemon, and one whose version is lower as a string although newer as a number: no request beyond getVersion
example : (run "u" "stop foo" [.ok (.str "3.1"), .ok .unit]).p.calls.map renderCall = ["getVersion()"] ∧
    (run "u" "stop foo" [.ok (.str "3.1"), .ok .unit]).p.exit = 5 := by decide
example : (run "u" "stop foo" [.ok (.str "10.0"), .ok .unit]).p.calls.map renderCall = ["getVersion()"] ∧
    (run "u" "pid" [.ok (.str "2.0"), .ok (.int 1)]).p.calls.map renderCall = ["getVersion()"] := by decide
end Sv.Props.C20
