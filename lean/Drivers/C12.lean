import SupervisorModel.Basic.DriverKit
import SupervisorModel.Model.Rpc
def main : IO Unit := Sv.driverMain [("rpc", Sv.Rpc.runCase)]
