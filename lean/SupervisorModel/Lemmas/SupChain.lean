import SupervisorModel.Lemmas.ProcChain
import SupervisorModel.Lemmas.SupInvPass
/-
  C01 lifted to the daemon model: the relation `PC n gid s s'` ("the process object found under
  the name `n`, member of group `gid`, is still there in `s'` — same incarnation —, the
  PROCESS_STATE notifications recorded for `n` only grew, and the new ones replay from the state
  the object had in `s` to the state it has in `s'`") is reflexive, transitive and preserved by
  every piece of a main-loop pass, for every environment; the only piece that needs a hypothesis is
  the RPC `removeGroup` of the object's own group (which deletes the object).
-/
set_option linter.unusedSimpArgs false
set_option linter.unusedVariables false
namespace Sv.Sup
open Sv Sv.Proc Sv.Gen.Proc Sv.Gen.Sup Sv.Props.C01

/-! ### the observer's view of the daemon's output -/

/-- everything the daemon recorded for the process name `n` -/
def procOuts (n : Nat) (outs : List SOut) : List Out :=
  outs.filterMap (fun o => match o with | .proc m x => if m = n then some x else none | _ => none)

/-- the PROCESS_STATE notifications the daemon recorded for the process name `n` -/
def procEvs (n : Nat) (outs : List SOut) : List Out := (procOuts n outs).filter isEv

/-- not a per-process RPC answer (those are consumed by `stopProcess`/`signalProcess`, which
    remove them from the record) -/
def keepOut : SOut → Bool
  | .proc _ (.answer _) => false
  | _ => true

/-- the record holds no unconsumed per-process RPC answer -/
def NoAns (l : List SOut) : Prop := ∀ o ∈ l, keepOut o = true

theorem keepOut_eq : (fun o : SOut => match o with | .proc _ (.answer _) => false | _ => true) = keepOut := by
  funext o
  cases o with
  | proc m x => cases x <;> rfl
  | _ => rfl

theorem procOuts_append (n : Nat) (a b : List SOut) : procOuts n (a ++ b) = procOuts n a ++ procOuts n b := by
  simp [procOuts, List.filterMap_append]

theorem procEvs_append (n : Nat) (a b : List SOut) : procEvs n (a ++ b) = procEvs n a ++ procEvs n b := by
  simp [procEvs, procOuts_append, List.filter_append]

theorem procOuts_map_same (n : Nat) (os : List Out) : procOuts n (os.map (SOut.proc n)) = os := by
  induction os with
  | nil => rfl
  | cons o os ih => simp [procOuts, List.filterMap_cons] at ih ⊢; exact ih

theorem procOuts_map_other (n m : Nat) (h : m ≠ n) (os : List Out) : procOuts n (os.map (SOut.proc m)) = [] := by
  induction os with
  | nil => rfl
  | cons o os ih => simp [procOuts, List.filterMap_cons, h] at ih ⊢

theorem procEvs_map_same (n : Nat) (os : List Out) : procEvs n (os.map (SOut.proc n)) = os.filter isEv := by
  rw [procEvs, procOuts_map_same]

theorem procEvs_map_other (n m : Nat) (h : m ≠ n) (os : List Out) : procEvs n (os.map (SOut.proc m)) = [] := by
  rw [procEvs, procOuts_map_other n m h]; rfl

theorem procEvs_filter_keep (n : Nat) (l : List SOut) : procEvs n (l.filter keepOut) = procEvs n l := by
  induction l with
  | nil => rfl
  | cons o os ih =>
    have hc : ∀ (a : SOut) (r : List SOut), procEvs n (a :: r) = procEvs n [a] ++ procEvs n r :=
      fun a r => procEvs_append n [a] r
    rw [List.filter_cons]
    cases hk : keepOut o
    · simp only [Bool.false_eq_true, if_false]
      rw [ih, hc o os]
      have : procEvs n [o] = [] := by
        cases o <;> try (simp [keepOut] at hk)
        rename_i m x
        cases x <;> simp [keepOut] at hk
        by_cases hm : m = n <;> simp [procEvs, procOuts, hm, isEv]
      rw [this]; rfl
    · simp only [if_true]
      rw [hc o os, hc o (os.filter keepOut), ih]

theorem procEvs_single (n : Nat) (o : SOut) (ho : ∀ m x, o ≠ .proc m x) : procEvs n [o] = [] := by
  cases o <;> first | rfl | (exfalso; exact ho _ _ rfl)

/-- the observer ignores everything but PROCESS_STATE notifications -/
theorem replay_filter_isEv (st : PS) (l : List Out) : replay st (l.filter isEv) = replay st l := by
  induction l generalizing st with
  | nil => rfl
  | cons o os ih =>
    cases o <;> simp only [List.filter_cons, isEv, if_true, Bool.false_eq_true, if_false, replay, ih]

theorem replay_procEvs (st : PS) (n : Nat) (l : List SOut) : replay st (procEvs n l) = replay st (procOuts n l) :=
  replay_filter_isEv st _

/-! ### answer-free prefixes of the record are never touched -/

theorem noAns_prefix_filter {l outs : List SOut} (hp : l <+: outs) (hn : NoAns l) : l <+: outs.filter keepOut := by
  obtain ⟨r, rfl⟩ := hp
  rw [List.filter_append]
  have : l.filter keepOut = l := List.filter_eq_self.mpr hn
  rw [this]
  exact List.prefix_append _ _

theorem noAns_filter (l : List SOut) : NoAns (l.filter keepOut) := by
  intro o ho
  exact (List.mem_filter.mp ho).2

/-! ### finding a process object -/

theorem findPE_append_some {ps qs : List PE} {n : Nat} {e : PE} (h : findPE ps n = some e) :
    findPE (ps ++ qs) n = some e := by
  unfold findPE at *
  rw [List.find?_append, h]; rfl

theorem findPE_filter_some {ps : List PE} {n : Nat} {e : PE} (q : PE → Bool) (h : findPE ps n = some e) (hq : q e = true) :
    findPE (ps.filter q) n = some e := by
  unfold findPE at *
  induction ps with
  | nil => simp at h
  | cons x xs ih =>
    rw [List.find?_cons] at h
    cases hx : (x.name == n)
    · rw [hx] at h
      rw [List.filter_cons]
      split
      · rw [List.find?_cons, hx]; exact ih h
      · exact ih h
    · rw [hx] at h
      cases h
      rw [List.filter_cons, hq]
      simp [List.find?_cons, hx]

/-! ### the relation -/

/-- `PC n gid s s'`: answer-free prefixes of the record of `s` are prefixes of the record of `s'`;
    and if `s` has a process object under the name `n` in group `gid`, then `s'` has the same object
    (same incarnation, same group), the PROCESS_STATE notifications recorded for `n` were only
    extended, and the extension replays from the object's state in `s` to its state in `s'`. -/
structure PC (n gid : Nat) (s s' : Sup) : Prop where
  pre : ∀ l, l <+: s.outs → NoAns l → l <+: s'.outs
  ch : ∀ e, findPE s.procs n = some e → e.gid = gid →
        ∃ e' x, findPE s'.procs n = some e' ∧ e'.gen = e.gen ∧ e'.gid = gid ∧
          procEvs n s'.outs = procEvs n s.outs ++ x ∧ replay e.p.state x = some e'.p.state

variable {n gid : Nat}

theorem PC.refl (s : Sup) : PC n gid s s :=
  ⟨fun l h _ => h, fun e he hg => ⟨e, [], he, rfl, hg, by simp, by simp [replay]⟩⟩

theorem PC.trans {a b c : Sup} (h1 : PC n gid a b) (h2 : PC n gid b c) : PC n gid a c := by
  refine ⟨fun l hl hn => h2.pre l (h1.pre l hl hn) hn, ?_⟩
  intro e he hg
  obtain ⟨e1, x, hf1, hgen1, hgid1, hx, hr1⟩ := h1.ch e he hg
  obtain ⟨e2, y, hf2, hgen2, hgid2, hy, hr2⟩ := h2.ch e1 hf1 hgid1
  refine ⟨e2, x ++ y, hf2, hgen2.trans hgen1, hgid2, ?_, ?_⟩
  · rw [hy, hx, List.append_assoc]
  · rw [replay_append, hr1]; exact hr2

/-- the record grew by `x`, the process table is the same -/
theorem pc_step_outs {s s' : Sup} (x : List SOut) (hp : s'.procs = s.procs) (ho : s'.outs = s.outs ++ x)
    (hx : procEvs n x = []) : PC n gid s s' := by
  refine ⟨fun l hl _ => ?_, ?_⟩
  · rw [ho]; exact List.IsPrefix.trans hl (List.prefix_append _ _)
  · intro e he hg
    refine ⟨e, [], by rw [hp]; exact he, rfl, hg, ?_, by simp [replay]⟩
    rw [ho, procEvs_append, hx]

theorem pc_step_same {s s' : Sup} (hp : s'.procs = s.procs) (ho : s'.outs = s.outs) : PC n gid s s' :=
  pc_step_outs [] hp (by simp [ho]) rfl

theorem pc_frame {s0 s s' : Sup} (h : PC n gid s0 s) (hp : s'.procs = s.procs) (ho : s'.outs = s.outs) : PC n gid s0 s' :=
  h.trans (pc_step_same hp ho)

theorem pc_sguard {s0 : Sup} (f : M) (s : Sup) (h : PC n gid s0 s) (hf : s.err = none → s.exited = false → PC n gid s0 (f s)) :
    PC n gid s0 (sguard f s) := by
  unfold sguard
  cases he : s.err with
  | some x => simpa using h
  | none =>
    cases hx : s.exited with
    | true => simpa using h
    | false => simpa using hf he hx

theorem pc_sguard' {s0 : Sup} (f : M) (s : Sup) (h : PC n gid s0 s) (hf : PC n gid s0 s → PC n gid s0 (f s)) :
    PC n gid s0 (sguard f s) :=
  pc_sguard f s h (fun _ _ => hf h)

theorem pc_foldl {s0 : Sup} {α : Type} (f : Sup → α → Sup) (hf : ∀ acc x, PC n gid s0 acc → PC n gid s0 (f acc x))
    (l : List α) (s : Sup) (h : PC n gid s0 s) : PC n gid s0 (l.foldl f s) := by
  induction l generalizing s with
  | nil => exact h
  | cons x xs ih => exact ih _ (hf _ _ h)

/-- a daemon-level output (not a per-process one) -/
def daemonOut : SOut → Bool
  | .proc _ _ => false
  | _ => true

theorem pc_semit {s0 : Sup} (o : SOut) (s : Sup) (ho : daemonOut o = true) (h : PC n gid s0 s) : PC n gid s0 (semit o s) := by
  unfold semit
  apply pc_sguard _ _ h
  intro _ _
  refine h.trans (pc_step_outs [o] rfl rfl ?_)
  cases o <;> first | rfl | simp [daemonOut] at ho

theorem pc_envExhausted {s0 s : Sup} (h : PC n gid s0 s) : PC n gid s0 { s with err := some .envExhausted } :=
  pc_frame h rfl rfl

theorem pc_setPending {s0 : Sup} (s : Sup) (o : List Deferred) (h : PC n gid s0 s) : PC n gid s0 { s with pending := o } :=
  pc_frame h rfl rfl

/-- `stopProcess`/`signalProcess` consume the per-process answer -/
theorem pc_filterOuts {s0 : Sup} (s : Sup) (h : PC n gid s0 s) :
    PC n gid s0 { s with outs := s.outs.filter fun o => match o with | .proc _ (.answer _) => false | _ => true } := by
  rw [keepOut_eq]
  refine h.trans ⟨fun l hl hn => noAns_prefix_filter hl hn, ?_⟩
  intro e he hg
  exact ⟨e, [], he, rfl, hg, by simp [procEvs_filter_keep], by simp [replay]⟩

/-- **a per-process operation that satisfies `Chain` keeps the relation**: for the process it runs
    on, its notifications are the extension; for every other process nothing changes -/
theorem pc_onProc {s0 : Sup} (name : Nat) (f : Cfg → Proc.S → Proc.S) (hf : ∀ cfg p, Chain { p := p } (f cfg { p := p }))
    (s : Sup) (h : PC n gid s0 s) : PC n gid s0 (onProc name f s) := by
  by_cases hc : (s.err.isSome || s.exited) = true
  · rw [onProc_skip _ _ _ hc]; exact h
  · have he : s.err = none := by cases h : s.err <;> simp_all
    have hx : s.exited = false := by cases h : s.exited <;> simp_all
    cases hfe : findPE s.procs name with
    | none => rw [onProc_none _ _ _ hfe]; exact h
    | some e0 =>
      rw [onProc_eq name f s e0 he hx hfe]
      refine h.trans ⟨fun l hl _ => List.IsPrefix.trans hl (List.prefix_append _ _), ?_⟩
      intro e hfn hg
      dsimp only
      by_cases hn : name = n
      · subst hn
        have : e0 = e := by rw [hfe] at hfn; exact Option.some.inj hfn
        subst this
        refine ⟨{ e0 with p := (f e0.cfg { p := e0.p }).p }, (f e0.cfg { p := e0.p }).outs.filter isEv,
          findPE_setProc_same _ _ _ _ hfe, rfl, hg, ?_, ?_⟩
        · rw [procEvs_append, procEvs_map_same]
        · rw [replay_filter_isEv]
          have := (hf e0.cfg e0.p).2
          simpa using this
      · refine ⟨e, [], ?_, rfl, hg, ?_, by simp [replay]⟩
        · rw [findPE_setProc_other _ _ _ _ (fun h' => hn h'.symm)]; exact hfn
        · rw [procEvs_append, procEvs_map_other n name hn]

/-! ### the pieces of a pass -/

theorem popKill_pc {s0 : Sup} {c : Prop} [Decidable c] (s : Sup) (h : PC n gid s0 s) :
    PC n gid s0 (if c then popKill s else (some KillRes.ok, s)).2 := by
  split
  · rcases popKill_cases s with h' | ⟨k, ks, h'⟩ <;> rw [h']
    · exact h
    · exact pc_frame h rfl rfl
  · exact h

theorem popSpawn_pc {s0 : Sup} {c : Prop} [Decidable c] (s : Sup) (h : PC n gid s0 s) :
    PC n gid s0 (if c then popSpawn s else (some (SpawnRes.ok 0), s)).2 := by
  split
  · rcases popSpawn_cases s with h' | ⟨r, rs, _, h'⟩ <;> rw [h']
    · exact h
    · exact pc_frame h rfl rfl
  · exact h

theorem pc_procTransition {s0 : Sup} (name : Nat) (s : Sup) (h : PC n gid s0 s) : PC n gid s0 (procTransition name s) := by
  unfold procTransition
  apply pc_sguard _ _ h
  intro _ _
  try dsimp only
  split
  · exact h
  · split
    · rcases popSpawn_cases s with h' | ⟨r, rs, _, h'⟩ <;> rw [h'] <;> dsimp only
      · exact pc_envExhausted h
      · exact pc_onProc _ _ (fun _ _ => transition_chain ..) _ (pc_frame h rfl rfl)
    · split
      · rcases popKill_cases s with h' | ⟨k, ks, h'⟩ <;> rw [h'] <;> dsimp only
        · exact pc_envExhausted h
        · exact pc_onProc _ _ (fun _ _ => transition_chain ..) _ (pc_frame h rfl rfl)
      · exact pc_onProc _ _ (fun _ _ => transition_chain ..) _ h

theorem pc_procGroupStop {s0 : Sup} (name : Nat) (s : Sup) (h : PC n gid s0 s) : PC n gid s0 (procGroupStop name s) := by
  unfold procGroupStop
  apply pc_sguard _ _ h
  intro _ _
  try dsimp only
  split
  · exact h
  · split
    · rcases popKill_cases s with h' | ⟨k, ks, h'⟩ <;> rw [h'] <;> dsimp only
      · exact pc_envExhausted h
      · exact pc_onProc _ _ (fun _ _ => groupStop_chain ..) _ (pc_frame h rfl rfl)
    · exact pc_onProc _ _ (fun _ _ => groupStop_chain ..) _ h

theorem pc_stopAll {s0 : Sup} (g : Nat) (s : Sup) (h : PC n gid s0 s) : PC n gid s0 (stopAll g s) := by
  unfold stopAll
  apply pc_sguard _ _ h
  intro _ _
  exact pc_foldl _ (fun acc e h => pc_procGroupStop e.name acc h) _ _ h

theorem pc_exitTest {s0 : Sup} (s : Sup) (h : PC n gid s0 s) : PC n gid s0 (exitTest s) := by
  unfold exitTest
  apply pc_sguard _ _ h
  intro _ _
  try dsimp only
  split
  · exact h.trans (pc_step_outs [.exitNow] rfl rfl rfl)
  · exact h

theorem pc_shutdownPhase1 {s0 : Sup} (s : Sup) (h : PC n gid s0 s) : PC n gid s0 (shutdownPhase1 s) := by
  unfold shutdownPhase1
  apply pc_sguard _ _ h
  intro _ _
  try dsimp only
  split
  · apply pc_exitTest
    have h1 : PC n gid s0 (if runforever_g2 s.mood 0 0 0 s.stopping false = true then
        semit .stopping { s with stopping := true, stopGroups := (sortedGroups s).map (·.1) } else s) := by
      split
      · exact pc_semit _ _ rfl (pc_frame h rfl rfl)
      · exact h
    split
    · exact pc_stopAll _ _ h1
    · exact h1
  · exact h

theorem pc_shutdownPhase2 {s0 : Sup} (s : Sup) (h : PC n gid s0 s) : PC n gid s0 (shutdownPhase2 s) := by
  unfold shutdownPhase2
  apply pc_sguard _ _ h
  intro _ _
  try dsimp only
  split
  · split
    · exact h
    · split
      · exact pc_frame h rfl rfl
      · exact h
  · exact h

theorem pc_handleSignal {s0 : Sup} (s : Sup) (h : PC n gid s0 s) : PC n gid s0 (handleSignal s) := by
  unfold handleSignal
  apply pc_sguard _ _ h
  intro _ _
  try dsimp only
  split
  · exact h
  · exact pc_frame h rfl rfl

theorem pc_delHist {s0 : Sup} (pid : Int) (s : Sup) (h : PC n gid s0 s) : PC n gid s0 (delHist pid s) := by
  unfold delHist
  apply pc_sguard _ _ h
  intro _ _
  exact pc_frame h rfl rfl

theorem pc_reapOne {s0 : Sup} (pid es : Int) (name gen : Nat) (s : Sup) (h : PC n gid s0 s) :
    PC n gid s0 (reapOne pid es name gen s) := by
  unfold reapOne
  apply pc_delHist
  split
  · exact pc_onProc _ _ (fun _ _ => finish_chain ..) _ h
  · exact h

theorem pc_reapLoop {s0 : Sup} (ws : List (Int × Int)) : ∀ (k : Int) (s : Sup), PC n gid s0 s → PC n gid s0 (reapLoop k ws s) := by
  induction ws with
  | nil => intro k s h; exact h
  | cons w ws ih =>
    intro k s h
    obtain ⟨pid, es⟩ := w
    rw [reapLoop]
    apply pc_sguard _ _ h
    intro _ _
    try dsimp only
    split
    · exact h
    · split
      · exact h
      · split
        · exact ih _ _ (pc_semit _ _ rfl h)
        · exact ih _ _ (pc_reapOne _ _ _ _ _ h)

theorem pc_reap {s0 : Sup} (s : Sup) (h : PC n gid s0 s) : PC n gid s0 (reap s) := by
  unfold reap
  apply pc_sguard _ _ h
  intro _ _
  try dsimp only
  split
  · exact pc_envExhausted h
  · exact pc_reapLoop _ _ _ (pc_frame h rfl rfl)

theorem pc_pollDeferred {s0 : Sup} (d : Deferred) (s : Sup) (h : PC n gid s0 s) : PC n gid s0 (pollDeferred d s) := by
  unfold pollDeferred
  apply pc_sguard _ _ h
  intro _ _
  cases d with
  | startWait id name =>
    dsimp only
    split
    · exact h
    · split
      · exact pc_semit _ _ rfl h
      · exact pc_frame h rfl rfl
  | stopWait id name =>
    dsimp only
    have h1 : PC n gid s0 (onProc name (fun cfg => stopReport cfg s.env.now) s) :=
      pc_onProc _ _ (fun _ _ => stopReport_chain ..) _ h
    split
    · exact h1
    · split
      · exact pc_semit _ _ rfl h1
      · exact pc_frame h1 rfl rfl

theorem pc_pollAll {s0 : Sup} (s : Sup) (h : PC n gid s0 s) : PC n gid s0 (pollAll s) := by
  unfold pollAll
  apply pc_sguard _ _ h
  intro _ _
  try dsimp only
  exact pc_foldl _ (fun acc d h => pc_pollDeferred d acc h) _ _ (pc_frame h rfl rfl)

theorem pc_transitions {s0 : Sup} (order : List (Nat × Nat)) (s : Sup) (h : PC n gid s0 s) : PC n gid s0 (transitions order s) := by
  unfold transitions
  apply pc_sguard _ _ h
  intro _ _
  try dsimp only
  apply pc_foldl _ _ _ _ h
  intro acc ng h
  try dsimp only
  split
  · split
    · exact pc_procTransition _ _ h
    · exact h
  · exact h

/-! ### RPCs -/

theorem pc_stop_tail {s0 : Sup} (id name : Nat) (wait : Bool) (c : Bool) (code : Int) (s2 : Sup) (h2 : PC n gid s0 s2) :
    PC n gid s0 (if (c && wait) = true then
        match findPE (if c = true then reap s2 else s2).procs name with
        | some e2 =>
          if (!decide (e2.p.state ∈ stoppedStates)) = true then
            semit (.deferredStart id) { (if c = true then reap s2 else s2) with
              pending := (if c = true then reap s2 else s2).pending ++ [.stopWait id name] }
          else semit (.answer id faultSUCCESS false) (if c = true then reap s2 else s2)
        | none => (if c = true then reap s2 else s2)
      else semit (.answer id code false) (if c = true then reap s2 else s2)) := by
  have h3 : PC n gid s0 (if c = true then reap s2 else s2) := by
    split
    · exact pc_reap _ h2
    · exact h2
  generalize (if c = true then reap s2 else s2) = s3 at h3 ⊢
  split
  · split
    · split
      · exact pc_semit _ _ rfl (pc_setPending _ _ h3)
      · exact pc_semit _ _ rfl h3
    · exact h3
  · exact pc_semit _ _ rfl h3

/-- adding a group appends fresh objects: an object that is there stays the first under its name -/
theorem pc_addGroup {s0 : Sup} (s : Sup) (new d : List PE) (h : PC n gid s0 s) :
    PC n gid s0 { s with procs := s.procs ++ new, dormant := d } := by
  refine h.trans ⟨fun l hl _ => hl, ?_⟩
  intro e he hg
  exact ⟨e, [], findPE_append_some he, rfl, hg, by simp, by simp [replay]⟩

/-- removing another group leaves the object alone -/
theorem pc_removeGroup {s0 : Sup} (s : Sup) (g : Nat) (d : List PE) (hne : g ≠ gid) (h : PC n gid s0 s) :
    PC n gid s0 { s with procs := s.procs.filter (·.gid != g), dormant := d } := by
  refine h.trans ⟨fun l hl _ => hl, ?_⟩
  intro e he hg
  refine ⟨e, [], findPE_filter_some _ he ?_, rfl, hg, by simp, by simp [replay]⟩
  simp [hg]; exact fun h' => hne h'.symm

/-- the RPC is not `removeProcessGroup` of the group `gid` -/
def notRemove (gid : Nat) : Rpc → Bool
  | .removeGroup _ g => g != gid
  | _ => true

theorem pc_rpcOne {s0 : Sup} (r : Rpc) (hr : notRemove gid r = true) (s : Sup) (h : PC n gid s0 s) : PC n gid s0 (rpcOne r s) := by
  unfold rpcOne
  apply pc_sguard _ _ h
  intro he hx
  cases r with
  | shutdown id =>
    dsimp only
    split
    · exact pc_semit _ _ rfl h
    · exact pc_semit _ _ rfl (pc_frame h rfl rfl)
  | restart id =>
    dsimp only
    split
    · exact pc_semit _ _ rfl h
    · exact pc_semit _ _ rfl (pc_frame h rfl rfl)
  | addGroup id g =>
    dsimp only
    split
    · exact pc_semit _ _ rfl h
    · split
      · split <;> exact pc_semit _ _ rfl h
      · exact pc_semit _ _ rfl (pc_addGroup _ _ _ h)
  | removeGroup id g =>
    dsimp only
    split
    · exact pc_semit _ _ rfl h
    · split
      · exact pc_semit _ _ rfl h
      · split
        · exact pc_semit _ _ rfl h
        · exact pc_semit _ _ rfl (pc_removeGroup _ _ _ (by simpa [notRemove] using hr) h)
  | start id name wait missing =>
    dsimp only
    split
    · exact pc_semit _ _ rfl h
    · split
      · exact pc_semit _ _ rfl h
      · split
        · exact pc_semit _ _ rfl h
        · split
          · exact pc_envExhausted h
          · refine pc_sguard' _ _ (pc_reap _ (pc_onProc _ _ (fun _ _ => spawn_chain ..) _ (popSpawn_pc s h))) ?_
            intro h2
            try dsimp only
            split
            · exact h2
            · split
              · exact pc_semit _ _ rfl h2
              · refine pc_sguard' _ _ (pc_procTransition _ _ h2) ?_
                intro h3
                try dsimp only
                split
                · exact h3
                · split
                  · exact pc_semit _ _ rfl (pc_setPending _ _ h3)
                  · exact pc_semit _ _ rfl h3
  | stop id name wait =>
    dsimp only
    split
    · exact pc_semit _ _ rfl h
    · split
      · exact pc_semit _ _ rfl h
      · split
        · exact pc_envExhausted h
        · apply pc_stop_tail
          apply pc_filterOuts
          apply pc_onProc _ _ (fun _ _ => rpcStop_chain ..)
          exact popKill_pc s h
  | signal id name sig =>
    dsimp only
    split
    · exact pc_semit _ _ rfl h
    · split
      · exact pc_semit _ _ rfl h
      · split
        · exact pc_semit _ _ rfl h
        · split
          · exact pc_envExhausted h
          · apply pc_semit _ _ rfl
            apply pc_filterOuts
            apply pc_onProc _ _ (fun _ _ => rpcSignal_chain ..)
            exact popKill_pc s h

theorem pc_rpcGuarded {s0 : Sup} (r : Rpc) (hr : notRemove gid r = true) (s : Sup) (h : PC n gid s0 s) :
    PC n gid s0 (rpcGuarded r s) := by
  unfold rpcGuarded
  apply pc_sguard _ _ h
  intro _ _
  try dsimp only
  have h1 := pc_rpcOne r hr s h
  split
  · exact pc_frame h1 rfl rfl
  · exact h1

theorem pc_rpcs {s0 : Sup} (rs : List Rpc) (hr : ∀ r ∈ rs, notRemove gid r = true) (s : Sup) (h : PC n gid s0 s) :
    PC n gid s0 (rs.foldl (fun acc r => rpcGuarded r acc) s) := by
  induction rs generalizing s with
  | nil => exact h
  | cons r rs ih =>
    exact ih (fun r' hr' => hr r' (List.mem_cons_of_mem _ hr')) _ (pc_rpcGuarded r (hr r List.mem_cons_self) s h)

/-! ### a pass, a run -/

/-- what a pass does after its RPCs -/
def passTail (hadPending : Bool) (order : List (Nat × Nat)) (s : Sup) : Sup :=
  (if hadPending then pollAll s else s) |> transitions order |> reap |> handleSignal |> shutdownPhase2 |> shutdownPhase1

theorem pass_eq (env : Env) (s : Sup) (he : s.err = none) (hx : s.exited = false) :
    pass env s = passTail (!s.pending.isEmpty) (transitionOrder s)
      (env.rpcs.foldl (fun acc r => rpcGuarded r acc) { s with env := env }) := by
  simp [pass, sguard, he, hx, passTail]

theorem pc_passTail {s0 : Sup} (b : Bool) (order : List (Nat × Nat)) (s : Sup) (h : PC n gid s0 s) :
    PC n gid s0 (passTail b order s) := by
  unfold passTail
  apply pc_shutdownPhase1
  apply pc_shutdownPhase2
  apply pc_handleSignal
  apply pc_reap
  apply pc_transitions
  split
  · exact pc_pollAll _ h
  · exact h

theorem pc_pass {s0 : Sup} (env : Env) (hr : ∀ r ∈ env.rpcs, notRemove gid r = true) (s : Sup) (h : PC n gid s0 s) :
    PC n gid s0 (pass env s) := by
  by_cases hc : (s.err.isSome || s.exited) = true
  · have : pass env s = s := by unfold pass sguard; rw [if_pos hc]
    rw [this]; exact h
  · have he : s.err = none := by cases h : s.err <;> simp_all
    have hx : s.exited = false := by cases h : s.exited <;> simp_all
    rw [pass_eq env s he hx]
    exact pc_passTail _ _ _ (pc_rpcs _ hr _ (pc_frame h rfl rfl))

theorem pc_passes {s0 : Sup} (envs : List Env) (hr : ∀ env ∈ envs, ∀ r ∈ env.rpcs, notRemove gid r = true) (s : Sup)
    (h : PC n gid s0 s) : PC n gid s0 (passes envs s) := by
  unfold passes
  induction envs generalizing s with
  | nil => exact h
  | cons env envs ih =>
    exact ih (fun e he => hr e (List.mem_cons_of_mem _ he)) _ (pc_pass env (hr env List.mem_cons_self) s h)

/-! ### reading the relation -/

theorem notRemove_of_not_mem {gid : Nat} {rs : List Rpc} (h : ∀ id, Rpc.removeGroup id gid ∉ rs) :
    ∀ r ∈ rs, notRemove gid r = true := by
  intro r hr
  cases r with
  | removeGroup id g =>
    simp only [notRemove, bne_iff_ne, ne_eq]
    intro hg; subst hg
    exact h id hr
  | _ => rfl

/-- the relation in the observer's terms, for a record without unconsumed per-process answers: the
    new part of the record is `s'.outs.drop s.outs.length`, and what it holds for `n` replays -/
theorem PC.drop {s s' : Sup} (h : PC n gid s s') (hna : NoAns s.outs) {e : PE} (he : findPE s.procs n = some e)
    (hg : e.gid = gid) :
    s.outs <+: s'.outs ∧ ∃ e', findPE s'.procs n = some e' ∧ e'.gen = e.gen ∧
      replay e.p.state (procOuts n (s'.outs.drop s.outs.length)) = some e'.p.state := by
  have hp := h.pre s.outs (List.prefix_refl _) hna
  refine ⟨hp, ?_⟩
  obtain ⟨y, hy⟩ := hp
  obtain ⟨e', x, hf, hgen, _, hx, hr⟩ := h.ch e he hg
  refine ⟨e', hf, hgen, ?_⟩
  have hd : s'.outs.drop s.outs.length = y := by rw [← hy]; simp
  rw [← hy, procEvs_append] at hx
  have hxy : procEvs n y = x := List.append_cancel_left hx
  rw [hd, ← replay_procEvs, hxy]
  exact hr

/-- from an empty record: everything recorded for `n` replays from the object's first state -/
theorem PC.fromEmpty {s s' : Sup} (h : PC n gid s s') (ho : s.outs = []) {e : PE} (he : findPE s.procs n = some e)
    (hg : e.gid = gid) :
    ∃ e', findPE s'.procs n = some e' ∧ e'.gen = e.gen ∧ replay e.p.state (procOuts n s'.outs) = some e'.p.state := by
  obtain ⟨_, e', hf, hgen, hr⟩ := h.drop (by rw [ho]; intro o ho'; simp at ho') he hg
  refine ⟨e', hf, hgen, ?_⟩
  simpa [ho] using hr

/-! ### objects created during a pass -/

theorem foldl_rpcGuarded_skip (rs : List Rpc) (s : Sup) (h : (s.err.isSome || s.exited) = true) :
    rs.foldl (fun acc r => rpcGuarded r acc) s = s := by
  induction rs with
  | nil => rfl
  | cons r rs ih =>
    simp only [List.foldl_cons]
    have : rpcGuarded r s = s := by unfold rpcGuarded sguard; rw [if_pos h]
    rw [this]; exact ih

theorem findPE_append_none {ps qs : List PE} {n : Nat} (h : findPE ps n = none) : findPE (ps ++ qs) n = findPE qs n := by
  unfold findPE at *
  rw [List.find?_append, h]; rfl

theorem semit_procs (o : SOut) (s : Sup) : (semit o s).procs = s.procs := by
  unfold semit sguard; split <;> rfl

theorem semit_procEvs (o : SOut) (ho : daemonOut o = true) (s : Sup) : procEvs n (semit o s).outs = procEvs n s.outs := by
  unfold semit sguard
  split
  · rfl
  · dsimp only
    rw [procEvs_append]
    have : procEvs n [o] = [] := by cases o <;> first | rfl | simp [daemonOut] at ho
    rw [this]; simp

/-- **`addProcessGroup` creates its process objects in STOPPED and announces nothing for them**: a name that
    was not in the process table before the RPC and is there after it belongs to a fresh object of the
    added group -/
theorem addGroup_born (id g : Nat) (s : Sup) {e2 : PE} (h1 : findPE s.procs n = none)
    (h2 : findPE (rpcGuarded (.addGroup id g) s).procs n = some e2) :
    e2.p = {} ∧ e2.gid = g ∧ procEvs n (rpcGuarded (.addGroup id g) s).outs = procEvs n s.outs := by
  by_cases hc : (s.err.isSome || s.exited) = true
  · have : rpcGuarded (.addGroup id g) s = s := by unfold rpcGuarded sguard; rw [if_pos hc]
    rw [this, h1] at h2; cases h2
  · have hprocs : ∀ s1 : Sup, (match s1.err with | some .assertion => { s1 with err := none } | _ => s1).procs = s1.procs := by
      intro s1; split <;> rfl
    have houts : ∀ s1 : Sup, (match s1.err with | some .assertion => { s1 with err := none } | _ => s1).outs = s1.outs := by
      intro s1; split <;> rfl
    have hgd : ∀ s1 : Sup, (rpcGuarded (.addGroup id g) s).procs = (rpcOne (.addGroup id g) s).procs ∧
        (rpcGuarded (.addGroup id g) s).outs = (rpcOne (.addGroup id g) s).outs := by
      intro _
      unfold rpcGuarded sguard
      rw [if_neg hc]
      exact ⟨hprocs _, houts _⟩
    rw [(hgd s).1] at h2
    rw [(hgd s).2]
    clear hgd hprocs houts
    unfold rpcOne sguard at h2 ⊢
    rw [if_neg hc] at h2 ⊢
    dsimp only at h2 ⊢
    split at h2
    · rw [semit_procs, h1] at h2; cases h2
    · split at h2
      · split at h2 <;> (rw [semit_procs, h1] at h2; cases h2)
      · rename_i hA hB
        rw [semit_procs] at h2
        dsimp only at h2
        rw [findPE_append_none h1] at h2
        obtain ⟨hm, _⟩ := findPE_some_mem h2
        obtain ⟨d, hd, rfl⟩ := List.mem_map.mp hm
        refine ⟨rfl, by simpa using (List.mem_filter.mp hd).2, ?_⟩
        rw [if_neg hA, if_neg hB]
        exact semit_procEvs _ rfl _

/-- the state of a pass right after the RPCs `pre` (a prefix of the pass's RPCs) -/
def afterRpcs (env : Env) (pre : List Rpc) (s : Sup) : Sup :=
  pre.foldl (fun acc r => rpcGuarded r acc) { s with env := env }

/-- from any point between two RPCs of a pass to the end of the pass -/
theorem pc_pass_mid (env : Env) (s : Sup) (he : s.err = none) (hx : s.exited = false) (pre post : List Rpc)
    (hrpcs : env.rpcs = pre ++ post) (hpost : ∀ r ∈ post, notRemove gid r = true) :
    PC n gid (afterRpcs env pre s) (pass env s) := by
  rw [pass_eq env s he hx, hrpcs, List.foldl_append]
  exact pc_passTail _ _ _ (pc_rpcs post hpost _ (PC.refl _))

/-- **an object created by `addProcessGroup` during a pass**: `pre` are the RPCs of the pass before the
    `addGroup`, `post` those after it; the name `n` is not in the process table before the RPC and is
    there after it (entry `e2`).  Then `e2` is in STOPPED, nothing has been announced for it, and — if
    `post` does not remove the group again — the object is there at the end of the pass and the
    notifications recorded for `n` since the RPC replay from STOPPED to its state. -/
theorem pass_born (env : Env) (s : Sup) (pre post : List Rpc) (id g : Nat)
    (hrpcs : env.rpcs = pre ++ Rpc.addGroup id g :: post) (hpost : ∀ r ∈ post, notRemove g r = true) {e2 : PE}
    (h1 : findPE (afterRpcs env pre s).procs n = none)
    (h2 : findPE (afterRpcs env (pre ++ [Rpc.addGroup id g]) s).procs n = some e2) :
    e2.p.state = .stopped ∧ e2.gid = g ∧
    procEvs n (afterRpcs env (pre ++ [Rpc.addGroup id g]) s).outs = procEvs n (afterRpcs env pre s).outs ∧
    PC n g (afterRpcs env (pre ++ [Rpc.addGroup id g]) s) (pass env s) := by
  have hsplit : afterRpcs env (pre ++ [Rpc.addGroup id g]) s = rpcGuarded (.addGroup id g) (afterRpcs env pre s) := by
    simp [afterRpcs, List.foldl_append]
  by_cases hc : (s.err.isSome || s.exited) = true
  · exfalso
    have hs1 : afterRpcs env pre s = { s with env := env } := foldl_rpcGuarded_skip _ _ hc
    have hs2 : rpcGuarded (.addGroup id g) { s with env := env } = { s with env := env } := by
      unfold rpcGuarded sguard; rw [if_pos hc]
    rw [hsplit, hs1, hs2] at h2
    rw [hs1] at h1
    rw [h1] at h2; cases h2
  · have he : s.err = none := by cases h : s.err <;> simp_all
    have hx : s.exited = false := by cases h : s.exited <;> simp_all
    rw [hsplit] at h2 ⊢
    obtain ⟨hp, hgid, hevs⟩ := addGroup_born id g _ h1 h2
    refine ⟨by rw [hp], hgid, hevs, ?_⟩
    rw [← hsplit]
    exact pc_pass_mid env s he hx (pre ++ [Rpc.addGroup id g]) post (by rw [hrpcs]; simp) hpost

theorem passes_append (a b : List Env) (s : Sup) : passes (a ++ b) s = passes b (passes a s) := by
  simp [passes, List.foldl_append]

theorem passes_cons (a : Env) (b : List Env) (s : Sup) : passes (a :: b) s = passes b (pass a s) := rfl

/-! ### removing a group -/

theorem rpcGuarded_procs_outs (r : Rpc) (s : Sup) :
    (rpcGuarded r s).procs = (rpcOne r s).procs ∧ (rpcGuarded r s).outs = (rpcOne r s).outs := by
  by_cases hc : (s.err.isSome || s.exited) = true
  · have h1 : rpcGuarded r s = s := by unfold rpcGuarded sguard; rw [if_pos hc]
    have h2 : rpcOne r s = s := by unfold rpcOne sguard; rw [if_pos hc]
    rw [h1, h2]; exact ⟨rfl, rfl⟩
  · unfold rpcGuarded sguard
    rw [if_neg hc]
    dsimp only
    split <;> exact ⟨rfl, rfl⟩

/-- `removeProcessGroup` announces nothing for any process -/
theorem removeGroup_silent (id g : Nat) (s : Sup) (n : Nat) :
    procEvs n (rpcGuarded (.removeGroup id g) s).outs = procEvs n s.outs := by
  rw [(rpcGuarded_procs_outs _ _).2]
  unfold rpcOne sguard
  split
  · rfl
  · dsimp only
    repeat' split
    all_goals exact semit_procEvs _ rfl _

/-- `removeProcessGroup` deletes only members of the named group, and only when every member is in a
    stopped state (STOPPED, EXITED, FATAL, UNKNOWN) -/
theorem removeGroup_stopped (id g : Nat) (s : Sup) (e : PE) (he : e ∈ s.procs)
    (h : e ∉ (rpcGuarded (.removeGroup id g) s).procs) : e.gid = g ∧ e.p.state ∈ stoppedStates := by
  rw [(rpcGuarded_procs_outs _ _).1] at h
  unfold rpcOne sguard at h
  split at h
  · exact absurd he h
  · dsimp only at h
    split at h
    · rw [semit_procs] at h; exact absurd he h
    · split at h
      · rw [semit_procs] at h; exact absurd he h
      · split at h
        · rw [semit_procs] at h; exact absurd he h
        · rename_i hB
          rw [semit_procs] at h
          dsimp only at h
          have hgid : e.gid = g := by
            apply Classical.byContradiction
            intro hne
            exact h (List.mem_filter.mpr ⟨he, by simpa using hne⟩)
          refine ⟨hgid, ?_⟩
          apply Classical.byContradiction
          intro hst
          have hm : e ∈ unstopped (members s.procs g) := by
            unfold unstopped members
            exact List.mem_filter.mpr ⟨List.mem_filter.mpr ⟨he, by simpa using hgid⟩, by simpa using hst⟩
          have hemp : unstopped (members s.procs g) = [] := by simpa using hB
          rw [hemp] at hm
          simp at hm

end Sv.Sup
