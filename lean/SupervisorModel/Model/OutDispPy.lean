import SupervisorModel.Basic.Bytes
/-
  Python byte-string operations used by the generated definitions of Generated/OutDisp.lean,
  with Python's meaning for every integer argument (negative bounds count from the end, bounds
  are clamped to the length).  Trusted to mirror CPython's `bytes` (exercised by the
  correspondence runs of C07/C08 on the real functions).
-/
namespace Sv.Py

/-- slice-bound normalisation: negative counts from the end, result clamped to `[0, n]` -/
def normIdx (n : Nat) (i : Int) : Nat := if i < 0 then n - (-i).toNat else min i.toNat n

/-- `b[lo:]` -/
def sliceFrom (b : Bytes) (lo : Int) : Bytes := b.drop (normIdx b.length lo)
/-- `b[:hi]` -/
def sliceTo (b : Bytes) (hi : Int) : Bytes := b.take (normIdx b.length hi)
/-- `b[lo:hi]` -/
def slice (b : Bytes) (lo hi : Int) : Bytes := (b.take (normIdx b.length hi)).drop (normIdx b.length lo)
/-- `b.endswith(suf)` -/
def endswith (b suf : Bytes) : Bool := suf.isSuffixOf b

/-- first position ≥ `pos` (the position of the head of the list) at which `sub` occurs, else -1 -/
def findGo (sub : Bytes) : Bytes → Int → Int
  | [], pos => if sub.isEmpty then pos else -1
  | c :: cs, pos => if sub.isPrefixOf (c :: cs) then pos else findGo sub cs (pos + 1)

/-- `b.find(sub, start)` -/
def find (b sub : Bytes) (start : Int) : Int :=
  if start > b.length then -1 else findGo sub (b.drop (normIdx b.length start)) (normIdx b.length start)

end Sv.Py
