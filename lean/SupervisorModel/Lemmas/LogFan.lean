import SupervisorModel.Lemmas.Rotate
import SupervisorModel.Model.LogFan
/-
  Lemmas about the clear / reopen fan-out (Model/LogFan.lean):
  what a write does to a file handler in *any* configuration and any well-formed state, and what
  a loop without early exits does to every element.
-/
set_option linter.unusedSimpArgs false
namespace Sv.LogFan
open Sv Sv.Rotate Sv.Gen.Rotate

/-- the file at the configured path, if there is one, was created by the handler itself at or
    after history offset `h0` -/
def FreshAt (h0 : Nat) (s : S) : Prop :=
  ∀ f, s.dir.get 0 = some f → f.own = true ∧ h0 ≤ f.start

/-- bound to the configured path: no escaped exception, the stream is on the file at name 0 -/
structure Bound (s : S) : Prop where
  ok : s.err = none
  att : s.stream = .attached 0
  present : (s.dir.get 0).isSome = true

theorem Bound.wf {s : S} (h : Bound s) : WF s := ⟨h.ok, Or.inl ⟨h.att, h.present⟩⟩

theorem emit_off_detached (c : Cfg) (hoff : c.rotating = false ∨ c.maxBytes ≤ 0) (s : S) (h : s.err = none)
    (f : File) (hs : s.stream = .detached f) (b : Bytes) :
    emit c b s = ⟨s.dir, .detached ⟨f.start, f.own, f.data ++ b⟩, s.hist + b.length, none⟩ := by
  unfold emit
  rw [okThen_ok _ _ h]
  have hs1 : ({ streamWrite b s with hist := s.hist + b.length } : S) =
      ⟨s.dir, .detached ⟨f.start, f.own, f.data ++ b⟩, s.hist + b.length, none⟩ := by
    simp [streamWrite, hs, h]
  rw [hs1]
  rcases hoff with hr | hm
  · simp [hr]
  · rw [doRollover_off c _ hm]; simp

theorem emit_off_attached (c : Cfg) (hoff : c.rotating = false ∨ c.maxBytes ≤ 0) (s : S) (h : s.err = none)
    (hs : s.stream = .attached 0) (f : File) (hf : s.dir.get 0 = some f) (b : Bytes) :
    emit c b s = ⟨dirSet s.dir 0 ⟨f.start, f.own, f.data ++ b⟩, .attached 0, s.hist + b.length, none⟩ := by
  unfold emit
  rw [okThen_ok _ _ h]
  have hs1 : ({ streamWrite b s with hist := s.hist + b.length } : S) =
      ⟨dirSet s.dir 0 ⟨f.start, f.own, f.data ++ b⟩, .attached 0, s.hist + b.length, none⟩ := by
    simp [streamWrite, hs, hf, h]
  rw [hs1]
  rcases hoff with hr | hm
  · simp [hr]
  · rw [doRollover_off c _ hm]; simp

theorem cfg_cases (c : Cfg) : (c.rotating = true ∧ 0 < c.maxBytes) ∨ (c.rotating = false ∨ c.maxBytes ≤ 0) := by
  by_cases hr : c.rotating = true
  · by_cases hm : 0 < c.maxBytes
    · exact Or.inl ⟨hr, hm⟩
    · exact Or.inr (Or.inr (by omega))
  · exact Or.inr (Or.inl (by simpa using hr))

/-- one write through a file handler of any configuration, in any well-formed state (also one
    whose file was removed behind its back): no exception, the handler stays well-formed, a
    handler bound to the configured path stays bound to it, and a file that appears at the
    configured path is a new one. -/
theorem emit_any (c : Cfg) (s : S) (w : WF s) (b : Bytes) :
    WF (emit c b s) ∧ (emit c b s).hist = s.hist + b.length ∧
    (Bound s → Bound (emit c b s)) ∧
    (∀ h0, h0 ≤ s.hist → FreshAt h0 s → FreshAt h0 (emit c b s)) := by
  rcases cfg_cases c with ⟨hr, hm⟩ | hoff
  · rcases w.open_ with ⟨ha, hp⟩ | ⟨f, hd⟩
    · cases h0 : s.dir.get 0 with
      | none => rw [h0] at hp; simp at hp
      | some f =>
        obtain ⟨e, st, hi, g⟩ := emit_attached_gen c hr hm s w.ok ha f h0 b
        have hp' : ((emit c b s).dir.get 0).isSome = true := by
          rw [g 0]; split <;> simp [rollSpec]
        refine ⟨⟨e, Or.inl ⟨st, hp'⟩⟩, hi, fun _ => ⟨e, st, hp'⟩, ?_⟩
        intro k hk fr x hx
        rw [g 0] at hx
        split at hx
        · simp at hx; subst hx; exact fr f h0
        · simp [rollSpec] at hx; subst hx; exact ⟨rfl, by simp; omega⟩
    · obtain ⟨e, hi, g⟩ := emit_detached_gen c hr hm s w.ok f hd b
      refine ⟨?_, hi, ?_, ?_⟩
      · by_cases hl : ((f.data ++ b).length : Int) < c.maxBytes
        · rw [if_pos hl] at g; exact ⟨e, Or.inr ⟨_, g.1⟩⟩
        · rw [if_neg hl] at g
          exact ⟨e, Or.inl ⟨g.1, by rw [g.2 0]; simp [rollSpec]⟩⟩
      · intro bd; have := bd.att; rw [hd] at this; simp at this
      · intro k hk fr x hx
        by_cases hl : ((f.data ++ b).length : Int) < c.maxBytes
        · rw [if_pos hl] at g; rw [g.2 0] at hx; exact fr x hx
        · rw [if_neg hl] at g; rw [g.2 0] at hx
          simp [rollSpec] at hx; subst hx; exact ⟨rfl, by simp; omega⟩
  · rcases w.open_ with ⟨ha, hp⟩ | ⟨f, hd⟩
    · cases h0 : s.dir.get 0 with
      | none => rw [h0] at hp; simp at hp
      | some f =>
        rw [emit_off_attached c hoff s w.ok ha f h0 b]
        refine ⟨⟨rfl, Or.inl ⟨rfl, by simp⟩⟩, rfl, fun _ => ⟨rfl, rfl, by simp⟩, ?_⟩
        intro k hk fr x hx
        simp at hx; subst hx; exact fr f h0
    · rw [emit_off_detached c hoff s w.ok f hd b]
      refine ⟨⟨rfl, Or.inr ⟨_, rfl⟩⟩, rfl, ?_, ?_⟩
      · intro bd; have := bd.att; rw [hd] at this; simp at this
      · intro k hk fr x hx; exact fr x hx

/-- `reopen()` in any state without an escaped exception binds the handler to the configured
    path; a file it has to create there is a new one -/
theorem reopen_any (c : Cfg) (s : S) (h : s.err = none) :
    Bound (fhReopen c s) ∧ (fhReopen c s).hist = s.hist ∧
    (∀ h0, h0 ≤ s.hist → FreshAt h0 s → FreshAt h0 (fhReopen c s)) := by
  obtain ⟨e, st, hi, g⟩ := fhReopen_spec c s h
  refine ⟨⟨e, st, ?_⟩, hi, ?_⟩
  · rw [g 0]; cases h0 : s.dir.get 0 <;> simp
  · intro k hk fr x hx
    rw [g 0] at hx
    cases h0 : s.dir.get 0 with
    | none => simp [h0] at hx; subst hx; exact ⟨rfl, hk⟩
    | some f => simp [h0] at hx; subst hx; exact fr f h0

/-- the file at the configured path is unlinked behind the handler's back -/
theorem unlink_any (s : S) (w : WF s) :
    WF (extRemove 0 s) ∧ (extRemove 0 s).hist = s.hist ∧ FreshAt s.hist (extRemove 0 s) := by
  obtain ⟨ws, e, hi, hd, _⟩ := ext_spec 0 s w (fun d => dirRemove d 0) (extRemove 0) rfl
  have h0 : (extRemove 0 s).dir.get 0 = none := by rw [hd]; simp
  refine ⟨⟨e, ?_⟩, hi, ?_⟩
  · rcases ws with ha | hf
    · -- cannot stay attached to a name that was removed
      obtain ⟨_, hn⟩ := (ext_spec 0 s w (fun d => dirRemove d 0) (extRemove 0) rfl).2.2.2.2 ha
      exact absurd rfl hn
    · exact Or.inr hf
  · intro f hf; rw [h0] at hf; simp at hf

/-! ### loops over a logger's handlers -/

theorem modAtM_spec (f : α → Option α) : ∀ (xs : List α) (i : Nat) (ys : List α), modAtM i f xs = some ys →
    ys.length = xs.length ∧ (∃ x y, xs[i]? = some x ∧ f x = some y ∧ ys[i]? = some y) ∧
    ∀ j, j ≠ i → ys[j]? = xs[j]? := by
  intro xs
  induction xs with
  | nil => intro i ys h; simp [modAtM] at h
  | cons x r ih =>
    intro i ys h
    cases i with
    | zero =>
      simp only [modAtM, Option.map_eq_some_iff] at h
      obtain ⟨y, hy, rfl⟩ := h
      refine ⟨by simp, ⟨x, y, by simp, hy, by simp⟩, ?_⟩
      intro j hj
      cases j with
      | zero => exact absurd rfl hj
      | succ j => simp
    | succ i =>
      simp only [modAtM, Option.map_eq_some_iff] at h
      obtain ⟨zs, hz, rfl⟩ := h
      obtain ⟨hl, ⟨a, b, ha, hb, hc⟩, ho⟩ := ih i zs hz
      refine ⟨by simp [hl], ⟨a, b, by simpa using ha, hb, by simpa using hc⟩, ?_⟩
      intro j hj
      cases j with
      | zero => simp
      | succ j => simpa using ho j (by omega)

theorem modAtM_some (f : α → Option α) : ∀ (xs : List α) (i : Nat) (x y : α), xs[i]? = some x → f x = some y →
    ∃ ys, modAtM i f xs = some ys := by
  intro xs
  induction xs with
  | nil => intro i x y h; simp at h
  | cons a r ih =>
    intro i x y h hf
    cases i with
    | zero =>
      simp at h; subst h
      exact ⟨y :: r, by simp [modAtM, hf]⟩
    | succ i =>
      simp at h
      obtain ⟨zs, hz⟩ := ih i x y h hf
      exact ⟨a :: zs, by simp [modAtM, hz]⟩

theorem runBody_cons_true (A : Acts α) (i : Nat) (st : FanStmt) (rest : List FanStmt) (xs : List α) (x : α)
    (hx : xs[i]? = some x) (hg : guardsOk A x st.guards = some true) (he : isExit st.act = false)
    (hc : st.act ≠ "continue") :
    runBody A i (st :: rest) xs =
      match A.apply st.act st.arg i xs with
      | none => none
      | some xs' => runBody A i rest xs' := by
  rw [runBody]
  simp only [hx, hg, he, hc]
  split
  · simp_all
  · cases A.apply st.act st.arg i xs <;> rfl

theorem runBody_cons_false (A : Acts α) (i : Nat) (st : FanStmt) (rest : List FanStmt) (xs : List α) (x : α)
    (hx : xs[i]? = some x) (hg : guardsOk A x st.guards = some false) :
    runBody A i (st :: rest) xs = runBody A i rest xs := by
  simp [runBody, hx, hg]

theorem guardsOk_nil (A : Acts α) (x : α) : guardsOk A x [] = some true := rfl

theorem guardsOk_hasattr (A : Acts α) (x : α) (m : String) :
    guardsOk A x [(true, "hasattr", m)] = some (A.has x m) := by
  cases h : A.has x m <;> simp [guardsOk, guardOk, h]

/-- a statement that a handler loop may contain without putting the property at risk: logging a
    fixed message, or `handler.reopen()` under `if hasattr(handler, 'reopen')` -/
def okStmt (st : FanStmt) : Bool :=
  (st.act == "logger.info" && st.arg != "?" && (st.guards == [] || st.guards == [(true, "hasattr", "reopen")]))
  || (st.act == "elem.reopen" && st.guards == [(true, "hasattr", "reopen")])

def reopens (st : FanStmt) : Bool := st.act == "elem.reopen" && st.guards == [(true, "hasattr", "reopen")]

/-- **no early exit, every handler that has reopen() is reopened**: the body consists of such
    statements only (no break / continue / return / raise, nothing conditional on anything else)
    and one of them is the reopen -/
def SafeReopenBody (body : List FanStmt) : Bool := body.all okStmt && body.any reopens

def HBound : Handler → Prop
  | .file _ s => Bound s
  | _ => True

/-- handler `x` is what became of handler `a` (same kind, same configuration): still well-formed,
    and no file older than `a` has come to the configured path -/
def Ev (a x : Handler) : Prop :=
  match a, x with
  | .file c s, .file c' s' => c' = c ∧ WF s' ∧ s.hist ≤ s'.hist ∧ (FreshAt s.hist s → FreshAt s.hist s')
  | .stream _, .stream _ => True
  | .bare _, .bare _ => True
  | _, _ => False

theorem Ev_emit (b : Bytes) (a x : Handler) (h : Ev a x) : Ev a (emitH b x) := by
  cases a with
  | stream n => cases x <;> simp_all [Ev, emitH]
  | bare n => cases x <;> simp_all [Ev, emitH]
  | file c s =>
    cases x with
    | stream n => simp [Ev] at h
    | bare n => simp [Ev] at h
    | file c' s' =>
      obtain ⟨hc, w, hh, fr⟩ := h
      obtain ⟨w', hi, _, fr'⟩ := emit_any c' s' w b
      exact ⟨hc, w', by omega, fun h0 => fr' _ hh (fr h0)⟩

theorem HBound_emit (b : Bytes) (x : Handler) (h : HBound x) : HBound (emitH b x) := by
  cases x with
  | stream n => trivial
  | bare n => trivial
  | file c s => exact (emit_any c s (Bound.wf h) b).2.2.1 h

theorem Ev_reopen (a x y : Handler) (h : Ev a x) (hy : reopenH x = some y) : Ev a y ∧ HBound y := by
  cases x with
  | stream n =>
    simp [reopenH] at hy; subst hy
    exact ⟨h, trivial⟩
  | bare n => simp [reopenH] at hy
  | file c' s' =>
    simp [reopenH] at hy; subst hy
    cases a with
    | stream n => simp [Ev] at h
    | bare n => simp [Ev] at h
    | file c s =>
      obtain ⟨hc, w, hh, fr⟩ := h
      obtain ⟨bd, hi, fr'⟩ := reopen_any c' s' w.ok
      exact ⟨⟨hc, bd.wf, by omega, fun h0 => fr' _ hh (fr h0)⟩, bd⟩

/-- loop invariant: element j is what became of `as[j]`, and the elements before index i are
    bound to their configured paths -/
def Inv (as : List Handler) (i : Nat) (xs : List Handler) : Prop :=
  xs.length = as.length ∧
  ∀ j a x, as[j]? = some a → xs[j]? = some x → Ev a x ∧ (j < i → HBound x)

theorem Inv_logAll (as : List Handler) (i : Nat) (xs : List Handler) (b : Bytes) (h : Inv as i xs) :
    Inv as i (logAll b xs) := by
  refine ⟨by simp [logAll, h.1], ?_⟩
  intro j a y ha hy
  simp only [logAll, List.getElem?_map, Option.map_eq_some_iff] at hy
  obtain ⟨x, hx, rfl⟩ := hy
  obtain ⟨e, bd⟩ := h.2 j a x ha hx
  exact ⟨Ev_emit b a x e, fun hj => HBound_emit b x (bd hj)⟩

theorem has_reopen (x : Handler) : Handler.has x "reopen" = true ↔ ∃ y, reopenH x = some y := by
  cases x <;> simp [Handler.has, reopenH]


theorem runBody_safe (fmt : String → Bytes) (as : List Handler) (i : Nat) (hi : i < as.length) :
    ∀ (body : List FanStmt), body.all okStmt = true → ∀ (xs : List Handler) (r : Bool), Inv as i xs →
      (r = true → ∀ x, xs[i]? = some x → HBound x) →
      ∃ xs', runBody (logActs fmt) i body xs = some (xs', .go) ∧ Inv as i xs' ∧
        ((r || body.any reopens) = true → ∀ x, xs'[i]? = some x → HBound x) := by
  intro body
  induction body with
  | nil =>
    intro _ xs r I hr
    exact ⟨xs, rfl, I, by simpa using hr⟩
  | cons st rest ih =>
    intro hb xs r I hr
    simp only [List.all_cons, Bool.and_eq_true] at hb
    obtain ⟨hst, hrest⟩ := hb
    have hlen : i < xs.length := by rw [I.1]; exact hi
    obtain ⟨x, hx⟩ : ∃ x, xs[i]? = some x := ⟨xs[i], by simp [hlen]⟩
    obtain ⟨a, ha⟩ : ∃ a, as[i]? = some a := ⟨as[i], by simp [hi]⟩
    -- what the element's kind says about the guard
    have hbare : Handler.has x "reopen" = false → ∀ xs', Inv as i xs' → ∀ y, xs'[i]? = some y → HBound y := by
      intro hf xs' I' y hy
      have e1 := (I.2 i a x ha hx).1
      have e2 := (I'.2 i a y ha hy).1
      cases x <;> simp [Handler.has] at hf
      cases a <;> simp [Ev] at e1
      cases y <;> simp [Ev] at e2
      simp [HBound]
    simp only [okStmt, Bool.or_eq_true, Bool.and_eq_true, beq_iff_eq, bne_iff_ne, ne_eq] at hst
    rcases hst with ⟨⟨hact, harg⟩, hg⟩ | ⟨hact, hg⟩
    · -- logger.info(<fixed message>)
      have hnre : reopens st = false := by simp [reopens, hact]
      have step : ∀ r', (r' = true → ∀ x, xs[i]? = some x → HBound x) →
          ∃ xs', runBody (logActs fmt) i rest (logAll (fmt st.arg) xs) = some (xs', .go) ∧ Inv as i xs' ∧
            ((r' || rest.any reopens) = true → ∀ x, xs'[i]? = some x → HBound x) := by
        intro r' hr'
        apply ih hrest _ r' (Inv_logAll as i xs _ I)
        intro h1 y hy
        simp only [logAll, List.getElem?_map, Option.map_eq_some_iff] at hy
        obtain ⟨x0, hx0, rfl⟩ := hy
        exact HBound_emit _ _ (hr' h1 x0 hx0)
      have run_true : guardsOk (logActs fmt) x st.guards = some true →
          runBody (logActs fmt) i (st :: rest) xs = runBody (logActs fmt) i rest (logAll (fmt st.arg) xs) := by
        intro hgd
        rw [runBody_cons_true _ i st rest xs x hx hgd (by simp [hact, isExit]) (by simp [hact])]
        simp [logActs, hact, harg]
      have run_false : guardsOk (logActs fmt) x st.guards = some false →
          runBody (logActs fmt) i (st :: rest) xs = runBody (logActs fmt) i rest xs :=
        fun hgd => runBody_cons_false _ i st rest xs x hx hgd
      rcases hg with hg | hg
      · obtain ⟨xs', h1, h2, h3⟩ := step r hr
        refine ⟨xs', by rw [run_true (by rw [hg]; rfl)]; exact h1, h2, ?_⟩
        simpa [List.any_cons, hnre] using h3
      · by_cases hh : Handler.has x "reopen" = true
        · obtain ⟨xs', h1, h2, h3⟩ := step r hr
          refine ⟨xs', by rw [run_true (by rw [hg, guardsOk_hasattr]; exact congrArg some hh)]; exact h1, h2, ?_⟩
          simpa [List.any_cons, hnre] using h3
        · have hh' : Handler.has x "reopen" = false := by simpa using hh
          obtain ⟨xs', h1, h2, h3⟩ := ih hrest xs r I hr
          refine ⟨xs', by rw [run_false (by rw [hg, guardsOk_hasattr]; exact congrArg some hh')]; exact h1, h2, ?_⟩
          simpa [List.any_cons, hnre] using h3
    · -- if hasattr(handler, 'reopen'): handler.reopen()
      by_cases hh : Handler.has x "reopen" = true
      · obtain ⟨y, hy⟩ := (has_reopen x).mp hh
        obtain ⟨ys, hys⟩ := modAtM_some reopenH xs i x y hx hy
        obtain ⟨hl, ⟨x1, y1, hx1, hy1, hys1⟩, ho⟩ := modAtM_spec reopenH xs i ys hys
        rw [hx] at hx1; cases hx1
        rw [hy] at hy1; cases hy1
        have I' : Inv as i ys := by
          refine ⟨by rw [hl, I.1], ?_⟩
          intro j a' z ha' hz
          by_cases hj : j = i
          · subst hj
            rw [hys1] at hz; cases hz
            rw [ha] at ha'; cases ha'
            exact ⟨(Ev_reopen a x y (I.2 j a x ha hx).1 hy).1, fun h => absurd h (by omega)⟩
          · rw [ho j hj] at hz
            exact I.2 j a' z ha' hz
        obtain ⟨xs', h1, h2, h3⟩ := ih hrest ys true I' (by
          intro _ z hz
          rw [hys1] at hz; cases hz
          exact (Ev_reopen a x y (I.2 i a x ha hx).1 hy).2)
        refine ⟨xs', ?_, h2, fun _ => h3 (by simp)⟩
        rw [← h1, runBody_cons_true _ i st rest xs x hx (by rw [hg, guardsOk_hasattr]; exact congrArg some hh)
          (by simp [hact, isExit]) (by simp [hact])]
        have : (logActs fmt).apply st.act st.arg i xs = some ys := by simp [logActs, hact, hys]
        rw [this]
      · have hh' : Handler.has x "reopen" = false := by simpa using hh
        obtain ⟨xs', h1, h2, h3⟩ := ih hrest xs r I hr
        refine ⟨xs', ?_, h2, fun _ => hbare hh' xs' h2⟩
        rw [← h1]
        exact runBody_cons_false _ i st rest xs x hx (by rw [hg, guardsOk_hasattr]; exact congrArg some hh')

theorem runLoop_safe (fmt : String → Bytes) (as : List Handler) (body : List FanStmt)
    (hb : SafeReopenBody body = true) :
    ∀ (k i : Nat) (xs : List Handler), i + k = as.length → Inv as i xs →
      ∃ xs', runLoop (logActs fmt) body k i xs = some xs' ∧ Inv as as.length xs' := by
  simp only [SafeReopenBody, Bool.and_eq_true] at hb
  intro k
  induction k with
  | zero =>
    intro i xs hik I
    have : i = as.length := by omega
    subst this
    exact ⟨xs, rfl, I⟩
  | succ k ih =>
    intro i xs hik I
    obtain ⟨xs1, h1, I1, b1⟩ := runBody_safe fmt as i (by omega) body hb.1 xs false I (by simp)
    have I2 : Inv as (i + 1) xs1 := by
      refine ⟨I1.1, ?_⟩
      intro j a x ha hx
      refine ⟨(I1.2 j a x ha hx).1, ?_⟩
      intro hj
      by_cases hji : j = i
      · subst hji; exact b1 (by simp [hb.2]) x hx
      · exact (I1.2 j a x ha hx).2 (by omega)
    obtain ⟨xs', h2, I3⟩ := ih (i + 1) xs1 (by omega) I2
    exact ⟨xs', by simp [runLoop, h1, h2], I3⟩

/-- **a handler loop without early exit reaches every handler**: after `for handler in handlers`
    over a safe body, every handler is what became of the one at its index, and every file
    handler is bound to its configured path -/
theorem forEach_safe (fmt : String → Bytes) (body : List FanStmt) (hb : SafeReopenBody body = true)
    (as : List Handler) (hwf : ∀ (j : Nat) c s, as[j]? = some (Handler.file c s) → WF s) :
    ∃ xs', forEach (logActs fmt) body as = some xs' ∧ xs'.length = as.length ∧
      ∀ (j : Nat) a x, as[j]? = some a → xs'[j]? = some x → Ev a x ∧ HBound x := by
  have I0 : Inv as 0 as := by
    refine ⟨rfl, ?_⟩
    intro j a x ha hx
    rw [ha] at hx; cases hx
    refine ⟨?_, fun h => absurd h (by omega)⟩
    cases a with
    | stream n => simp [Ev]
    | bare n => simp [Ev]
    | file c s => exact ⟨rfl, hwf j c s ha, Nat.le_refl _, fun h => h⟩
  obtain ⟨xs', h, I⟩ := runLoop_safe fmt as body hb as.length 0 as (by omega) I0
  refine ⟨xs', h, I.1, ?_⟩
  intro j a x ha hx
  have hj : j < as.length := by
    rcases Nat.lt_or_ge j as.length with h | h
    · exact h
    · have : as[j]? = none := by simp [h]
      rw [this] at ha; cases ha
  exact ⟨(I.2 j a x ha hx).1, (I.2 j a x ha hx).2 hj⟩

/-! ### loops whose statements only call methods of the current element
    (dispatchers of a process, processes of a group, groups of the daemon) -/

/-- `element.removelogs()` / `element.reopenlogs()`, unconditionally or under the matching hasattr test -/
def okElemStmt (st : FanStmt) : Bool :=
  (st.act == "elem.removelogs" && (st.guards == [] || st.guards == [(true, "hasattr", "removelogs")]))
  || (st.act == "elem.reopenlogs" && (st.guards == [] || st.guards == [(true, "hasattr", "reopenlogs")]))

def methOf (st : FanStmt) : String := if st.act == "elem.removelogs" then "removelogs" else "reopenlogs"

def elemStep (has : α → String → Bool) (call : String → α → Option α) (st : FanStmt) (x : α) : Option α :=
  if st.guards == [] || has x (methOf st) then call (methOf st) x else some x

/-- what a loop body of such statements does to one element -/
def elemBody (has : α → String → Bool) (call : String → α → Option α) : List FanStmt → α → Option α
  | [], x => some x
  | st :: r, x => (elemStep has call st x).bind (elemBody has call r)

theorem getElem?_mid (pre : List α) (x : α) (post : List α) : (pre ++ x :: post)[pre.length]? = some x := by
  induction pre with
  | nil => rfl
  | cons a r ih => simp

theorem modAtM_mid (f : α → Option α) (pre : List α) (x : α) (post : List α) :
    modAtM pre.length f (pre ++ x :: post) = (f x).map (fun y => pre ++ y :: post) := by
  induction pre with
  | nil => simp [modAtM]
  | cons a r ih =>
    simp only [List.length_cons, List.cons_append, modAtM, ih]
    cases f x <;> simp

theorem runBody_elem (has : α → String → Bool) (call : String → α → Option α) (pre post : List α) :
    ∀ (body : List FanStmt), body.all okElemStmt = true → ∀ x,
      runBody (elemActs has call) pre.length body (pre ++ x :: post)
        = (elemBody has call body x).map (fun y => (pre ++ y :: post, Ctl.go)) := by
  intro body
  induction body with
  | nil => intro _ x; simp [runBody, elemBody]
  | cons st rest ih =>
    intro hb x
    simp only [List.all_cons, Bool.and_eq_true] at hb
    obtain ⟨hst, hrest⟩ := hb
    have hx := getElem?_mid pre x post
    simp only [okElemStmt, Bool.or_eq_true, Bool.and_eq_true, beq_iff_eq] at hst
    -- the four shapes of an admissible statement
    have key : ∀ (m : String), st.act = "elem." ++ m → (m = "removelogs" ∨ m = "reopenlogs") →
        (st.guards = [] ∨ st.guards = [(true, "hasattr", m)]) → methOf st = m →
        runBody (elemActs has call) pre.length (st :: rest) (pre ++ x :: post)
          = (elemBody has call (st :: rest) x).map (fun y => (pre ++ y :: post, Ctl.go)) := by
      intro m hact hm hg hmeth
      have hex : isExit st.act = false := by rcases hm with rfl | rfl <;> simp [hact, isExit] <;> decide
      have hco : st.act ≠ "continue" := by rcases hm with rfl | rfl <;> simp [hact] <;> decide
      have happ : (elemActs has call).apply st.act st.arg pre.length (pre ++ x :: post)
          = (call m x).map (fun y => pre ++ y :: post) := by
        rcases hm with rfl | rfl
        · have : st.act = "elem.removelogs" := by rw [hact]; decide
          simp [elemActs, this, modAtM_mid]
        · have h1 : st.act = "elem.reopenlogs" := by rw [hact]; decide
          have h2 : ¬ st.act = "elem.removelogs" := by rw [h1]; decide
          simp [elemActs, h1, modAtM_mid]
      have run_call : guardsOk (elemActs has call) x st.guards = some true →
          (st.guards == [] || has x m) = true →
          runBody (elemActs has call) pre.length (st :: rest) (pre ++ x :: post)
            = (elemBody has call (st :: rest) x).map (fun y => (pre ++ y :: post, Ctl.go)) := by
        intro hgd hcond
        rw [runBody_cons_true _ _ st rest _ x hx hgd hex hco, happ]
        simp only [elemBody, elemStep, hmeth, hcond, if_true]
        cases hc : call m x with
        | none => simp
        | some y => simp [ih hrest y]
      rcases hg with hg | hg
      · exact run_call (by rw [hg]; rfl) (by simp [hg])
      · by_cases hh : has x m = true
        · exact run_call (by rw [hg, guardsOk_hasattr]; exact congrArg some hh) (by simp [hh])
        · have hh' : has x m = false := by simpa using hh
          rw [runBody_cons_false _ _ st rest _ x hx (by rw [hg, guardsOk_hasattr]; exact congrArg some hh')]
          have : (st.guards == [] || has x m) = false := by simp [hg, hh']
          simp only [elemBody, elemStep, hmeth, this]
          simpa using ih hrest x
    rcases hst with ⟨hact, hg⟩ | ⟨hact, hg⟩
    · exact key "removelogs" (by rw [hact]; decide) (Or.inl rfl) hg (by simp [methOf, hact])
    · exact key "reopenlogs" (by rw [hact]; decide) (Or.inr rfl) hg (by simp [methOf, hact])

theorem runLoop_elem (has : α → String → Bool) (call : String → α → Option α) (body : List FanStmt)
    (hb : body.all okElemStmt = true) (F : α → α) (hF : ∀ x, elemBody has call body x = some (F x)) :
    ∀ (rest pre : List α),
      runLoop (elemActs has call) body rest.length pre.length (pre ++ rest) = some (pre ++ rest.map F) := by
  intro rest
  induction rest with
  | nil => intro pre; simp [runLoop]
  | cons x r ih =>
    intro pre
    have h1 := runBody_elem has call pre r body hb x
    rw [hF x] at h1
    have h2 := ih (pre ++ [F x])
    simp only [List.length_append, List.length_cons, List.length_nil, List.append_assoc, List.cons_append,
      List.nil_append] at h2
    simp only [List.length_cons, runLoop, h1, Option.map_some, List.map_cons]
    exact h2

/-- **a loop without early exit reaches every element**: when the body consists of
    `element.removelogs()` / `element.reopenlogs()` statements only (no break / continue / return,
    no other condition), the loop does to *every* element what the body does to one -/
theorem forEach_elem (has : α → String → Bool) (call : String → α → Option α) (body : List FanStmt)
    (hb : body.all okElemStmt = true) (F : α → α) (hF : ∀ x, elemBody has call body x = some (F x))
    (xs : List α) : forEach (elemActs has call) body xs = some (xs.map F) := by
  have := runLoop_elem has call body hb F hF xs []
  simpa [forEach] using this

theorem allM_map (F : α → β) (f : α → Option β) (hf : ∀ x, f x = some (F x)) (xs : List α) :
    allM f xs = some (xs.map F) := by
  induction xs with
  | nil => rfl
  | cons x r ih => simp [allM, hf, ih]

end Sv.LogFan
