-- stub: replaced by the property author
namespace Sv.Props.C09
end Sv.Props.C09
