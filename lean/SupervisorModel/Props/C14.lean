import SupervisorModel.Lemmas.Config
/-
  C14 — a configuration file determines exactly the configured process set.
  Property theorems over Model/Config.lean; every table and guard they mention (`Sv.Gen.Config.*`) is
  regenerated from /repo on each run.
-/
set_option linter.unusedSimpArgs false
set_option maxRecDepth 4000
namespace Sv.Props.C14
open Sv Sv.Config Sv.Gen.Config


/-- **env_precedence.**  The child environment is the [supervisord] environment overridden by the program's:
    a variable has the program's value when the program sets it (the last binding, as in a Python dict),
    otherwise the [supervisord] value. -/
theorem env_precedence (sup prog : KV) (k : String) :
    (mergeEnv sup prog).lookup k = (prog.reverse.lookup k <|> sup.lookup k) := by
  simp [mergeEnv, lookup_dupdate]

example : (mergeEnv [("A", "sup"), ("B", "sup")] [("A", "prog")]).lookup "A" = some "prog" := by decide
example : (mergeEnv [("A", "sup"), ("B", "sup")] [("A", "prog")]).lookup "B" = some "sup" := by decide

/-- every process of the result has the merged environment -/
theorem env_merged_everywhere (sup : KV) (g : GConfig) :
    (mergeGroupEnv sup g).procs.map (·.environment) = g.procs.map (fun p => mergeEnv sup p.environment) := by
  simp [mergeGroupEnv, List.map_map, Function.comp_def]

/-! ### the environment of one program does not depend on the other sections -/

/-- the generated fact: every process configuration gets a dictionary of its own -/
theorem env_loop_copies : rcEnvCopied = true := by decide

theorem mergeGroupEnvBy_eq (sup fin : KV) (g : GConfig) : mergeGroupEnvBy rcEnvCopied sup fin g = mergeGroupEnv sup g := by
  simp [mergeGroupEnvBy, mergeGroupEnv, env_loop_copies]

/-- **environment_independent_of_other_sections.**  After the loop at the end of `read_config`, the environment of a
    process is the [supervisord] environment overlaid with the environment of ITS OWN section — whatever other groups
    and processes the file defines, in whatever order they are processed — and the [supervisord] environment itself is
    what it was before the loop. -/
theorem environment_independent_of_other_sections (sup : KV) (gs : List GConfig) :
    envAfterLoop rcEnvCopied sup gs = sup ∧
    ∀ g ∈ gs, (mergeGroupEnvBy rcEnvCopied sup (envAfterLoop rcEnvCopied sup gs) g).procs.map (·.environment)
      = g.procs.map (fun p => mergeEnv sup p.environment) := by
  refine ⟨by simp [envAfterLoop, env_loop_copies], fun g _ => ?_⟩
  rw [mergeGroupEnvBy_eq]
  simp [mergeGroupEnv, List.map_map, Function.comp_def]

/-- the [supervisord] environment of a parsed ini: a function of the [supervisord] section, `here`, the host name and the
    inherited ENV_ expansions only -/
def supEnvOf (ini : Ini) : Except String KV := do
  let sec ← orError (ini.find "supervisord") "constraint:.ini file does not include supervisord section"
  let penv0 := strVals ini.environ
  let envStr0 ← getField penv0 "supervisord" sec "environment" [] [("here", Val.s ini.here)] >>= asStr
  let envStr ← expand (dupdate [("here", Val.s ini.here), ("host_node_name", Val.s ini.hostNode)] penv0) envStr0
  dictOfKeyValuePairs envStr

theorem read_config_environment (ini : Ini) (r : Result) (h : readConfig ini = .ok r) :
    supEnvOf ini = .ok r.sup.environment ∧
    ∃ cx gs, processGroupsFromParser cx ini = .ok gs ∧ r.groups = gs.map (mergeGroupEnv r.sup.environment) := by
  simp only [readConfig, bind, Except.bind, pure, Except.pure] at h
  repeat (split at h <;> try contradiction)
  injection h with h
  subst h
  refine ⟨?_, _, _, ‹_›, ?_⟩
  · simp only [supEnvOf, orError, bind, Except.bind, pure, Except.pure, envAfterLoop, env_loop_copies, if_true, *]
  · simp only [envAfterLoop, env_loop_copies, if_true]
    exact List.map_congr_left fun g _ => mergeGroupEnvBy_eq _ _ g

/-- what the loop would do without the per-process copy (one dictionary shared by all): shown on a concrete file -/
def exP (name : String) (env : KV) : PConfig :=
  { kind := .process, name, command := "/bin/" ++ name, directory := none, umask := none, priority := 999, autostart := true,
    autorestart := .unexpected, startsecs := 1, startretries := 3, uid := none, stdout_logfile := .auto,
    stdout_capture_maxbytes := 0, stdout_events_enabled := false, stdout_logfile_backups := 10, stdout_logfile_maxbytes := 0,
    stdout_syslog := false, stderr_logfile := .auto, stderr_capture_maxbytes := 0, stderr_events_enabled := false,
    stderr_logfile_backups := 10, stderr_logfile_maxbytes := 0, stderr_syslog := false, stopsignal := 15, stopwaitsecs := 10,
    stopasgroup := false, killasgroup := false, exitcodes := [0], redirect_stderr := false, environment := env, serverurl := none }
def exEnvGroups : List GConfig :=
  [{ kind := .group, name := "alpha", priority := 999, procs := [exP "alpha" [("ONLY_ALPHA", "1"), ("SHARED", "from_alpha")]] },
   { kind := .group, name := "beta", priority := 999, procs := [exP "beta" []] },
   { kind := .group, name := "gamma", priority := 999, procs := [exP "gamma" [("ONLY_GAMMA", "1"), ("SHARED", "from_gamma")]] }]
def exSupEnv : KV := [("GLOBAL", "g"), ("SHARED", "from_supervisord")]
def envsAfter (copied : Bool) : List KV :=
  (exEnvGroups.map (mergeGroupEnvBy copied exSupEnv (envAfterLoop copied exSupEnv exEnvGroups))).flatMap fun g => g.procs.map (·.environment)

-- the code as it is: each program its own overlay, beta exactly the [supervisord] environment
example : envsAfter rcEnvCopied = [[("GLOBAL", "g"), ("SHARED", "from_alpha"), ("ONLY_ALPHA", "1")], exSupEnv,
                                   [("GLOBAL", "g"), ("SHARED", "from_gamma"), ("ONLY_GAMMA", "1")]] := by decide
-- one shared dictionary (`env = section.environment`): every program ends up with the union, the last one processed wins
example : envsAfter false = List.replicate 3 [("GLOBAL", "g"), ("SHARED", "from_gamma"), ("ONLY_ALPHA", "1"), ("ONLY_GAMMA", "1")] := by decide


/-! ### `%(ENV_X)s` with X from the [supervisord] environment: every section sees it, with the file's value -/

/-- the generated facts: the parser expands with the options' own dictionary, and both families of sections are parsed
    after the [supervisord] environment was added to it -/
theorem parser_shares_environ : rcParserSharesEnviron = true := by decide
theorem groups_parsed_after_env_merge : rcGroupsAfterEnvMerge = true := by decide
theorem servers_parsed_after_env_merge : rcServersAfterEnvMerge = true := by decide

theorem string_append_left_cancel (p a b : String) (h : p ++ a = p ++ b) : a = b := by
  have h2 : (p ++ a).toList = (p ++ b).toList := by rw [h]
  simp only [String.toList_append] at h2
  exact String.ext (List.append_cancel_left h2)

/-- the ENV_ expansions after the [supervisord] environment was added: a variable the section defines denotes ITS value
    (the last one written, as in a Python dict), whatever the inherited process environment says; every other ENV_ name
    keeps the inherited value -/
theorem envExps_lookup_env (E : Exps) (env : KV) (k : String) :
    (envExps E env).lookup ("ENV_" ++ k) = ((env.reverse.lookup k).map Val.s <|> E.lookup ("ENV_" ++ k)) := by
  unfold envExps
  induction env generalizing E with
  | nil => simp
  | cons hd tl ih =>
    obtain ⟨a, b⟩ := hd
    simp only [List.foldl_cons, List.reverse_cons]
    rw [ih, lookup_dset, lookup_append']
    by_cases hk : k = a
    · subst hk
      cases h : (List.lookup k tl.reverse) <;> simp [lookup_cons']
    · have hne : ¬ ("ENV_" ++ k = "ENV_" ++ a) := fun e => hk (string_append_left_cancel _ _ _ e)
      cases h : (List.lookup k tl.reverse) <;> simp [lookup_cons', hk, hne]

/-- **sections_see_supervisord_environment.**  The dictionary the program, group, eventlistener and fcgi-program sections
    are read with — `parser.expansions` for the once-per-section options (numprocs, priority, autostart, exitcodes, user,
    umask, serverurl, programs, events, buffer_size, …) as well as `self.environ_expansions` for the per-process ones —
    and the dictionary the [unix_http_server] / [inet_http_server] sections are read with are the inherited ENV_
    expansions overlaid with the [supervisord] environment.  GENERATED FACTS USED: `parser.expansions` is
    `self.environ_expansions` itself, not a snapshot; both families are parsed after the overlay. -/
theorem sections_see_supervisord_environment (ini : Ini) (supEnv : KV) :
    (readCtx ini supEnv).penv = envExps (strVals ini.environ) supEnv ∧
    (readCtx ini supEnv).senv = envExps (strVals ini.environ) supEnv ∧
    serverExps ini supEnv = envExps (strVals ini.environ) supEnv := by
  simp [readCtx, serverExps, parserExps, environAt, parser_shares_environ, groups_parsed_after_env_merge,
        servers_parsed_after_env_merge]

/-- … so `%(ENV_X)s` of a variable X that `[supervisord] environment=` defines stands for the value written there in
    every section kind, also when the process environment of supervisord has another value for X or none at all -/
theorem env_var_of_supervisord_environment (ini : Ini) (supEnv : KV) (x v : String) (h : supEnv.reverse.lookup x = some v) :
    (readCtx ini supEnv).penv.lookup ("ENV_" ++ x) = some (.s v) ∧
    (readCtx ini supEnv).senv.lookup ("ENV_" ++ x) = some (.s v) ∧
    (serverExps ini supEnv).lookup ("ENV_" ++ x) = some (.s v) := by
  obtain ⟨h1, h2, h3⟩ := sections_see_supervisord_environment ini supEnv
  rw [h1, h2, h3, envExps_lookup_env, h]
  simp

/-- `read_config` parses the groups in that context -/
theorem read_config_context (ini : Ini) (r : Result) (h : readConfig ini = .ok r) :
    ∃ gs, processGroupsFromParser (readCtx ini r.sup.environment) ini = .ok gs ∧
          r.groups = gs.map (mergeGroupEnv r.sup.environment) := by
  simp only [readConfig, bind, Except.bind, pure, Except.pure] at h
  repeat (split at h <;> try contradiction)
  injection h with h
  subst h
  simp only [envAfterLoop, env_loop_copies, if_true]
  exact ⟨_, ‹_›, List.map_congr_left fun g _ => mergeGroupEnvBy_eq _ _ g⟩

/-- **written_value_is_converted.**  No lookup replaces a present-but-empty value by another text before converting it
    (`get(...) or '<text>'` does not occur): what a section writes — including nothing, e.g. `exitcodes=` = no expected
    exit status — is what the documented converter is given. -/
theorem written_value_is_converted (scope opt : String) (r : Raw) : orFallback optEmptyFallback scope opt r = r := by
  simp [orFallback, optEmptyFallback]

theorem empty_exitcodes_is_no_exitcode : listOfExitcodes (.str "") = .ok [] := by decide

-- a variable defined ONLY by [supervisord] environment= (the inherited ENV_ expansions have another N) in once-per-section
-- options (numprocs, priority) and a per-process one (command): two processes, the file's value everywhere
def exIniEnv : Ini := { sections := [⟨"supervisord", [("environment", "N=\"2\",PRIO=\"7\"")]⟩,
                                     ⟨"program:w", [("command", "w %(ENV_N)s"), ("numprocs", "%(ENV_N)s"), ("priority", "%(ENV_PRIO)s"),
                                                    ("process_name", "w%(process_num)d"), ("exitcodes", "")]⟩],
                        environ := [("ENV_N", "40")], here := "/etc", hostNode := "box", dirs := [], users := [], handlers := [] }

example : (match readConfig exIniEnv with
           | .ok r => r.groups.map fun g => (g.name, g.priority, g.procs.map fun p => (p.name, p.command, p.exitcodes))
           | .error _ => [])
    = [("w", 7, [("w0", "w 2", []), ("w1", "w 2", [])])] := by decide +kernel

-- what a snapshot of the inherited expansions (`parser.expansions = self.environ_expansions.copy()`) or parsing before the
-- overlay would give the parser: the inherited value, or none
example : (parserExps false true [("ENV_N", .s "40")] (envExps [("ENV_N", .s "40")] [("N", "2")])).lookup "ENV_N" = some (.s "40") := by decide
example : (parserExps true false [] (envExps [] [("N", "2")])).lookup "ENV_N" = none := by decide
example : (parserExps true true [("ENV_N", .s "40")] (envExps [("ENV_N", .s "40")] [("N", "2")])).lookup "ENV_N" = some (.s "2") := by decide


/-! ### included files -/

/-- a section in which no `%(here)s` is left -/
def HereFree (s : HSection) : Prop := ∀ d, s.subst d = s

theorem tok_subst_subst (d d' : String) (t : HTok) : (t.subst d).subst d' = t.subst d := by
  cases t <;> rfl

theorem subst_subst (d d' : String) (s : HSection) : (s.subst d).subst d' = s.subst d := by
  simp [HSection.subst, List.map_map, Function.comp_def, tok_subst_subst]

theorem hereFree_subst (d : String) (s : HSection) : HereFree (s.subst d) := fun d' => subst_subst d d' s

theorem mem_expandHere (d : String) (s : HSection) (secs : List HSection) (h : s ∈ secs) : s.subst d ∈ expandHere d secs :=
  List.mem_map_of_mem h

/-- the generated fact: after a matched file has been read, `expand_here` is given THAT file's directory -/
theorem hereArg_is_dir_of_file (mainHere : String) (p : IncPattern) (f : IncFile) : hereArg mainHere p f = f.dir := by
  simp [hereArg, includeHereSrc]

theorem readFiles_keeps (mainHere : String) (p : IncPattern) (s : HSection) (hs : HereFree s) :
    ∀ (fs : List IncFile) (acc : List HSection), s ∈ acc → s ∈ readFiles mainHere p acc fs := by
  intro fs
  induction fs with
  | nil => intro acc h; simpa [readFiles] using h
  | cons f fs ih =>
    intro acc h
    simp only [readFiles]
    apply ih
    have := mem_expandHere (hereArg mainHere p f) s (acc ++ f.sections) (List.mem_append_left _ h)
    rwa [hs] at this

theorem readFiles_expands (mainHere : String) (p : IncPattern) (f : IncFile) (s : HSection) (hs : s ∈ f.sections) :
    ∀ (fs : List IncFile) (acc : List HSection), f ∈ fs → s.subst f.dir ∈ readFiles mainHere p acc fs := by
  intro fs
  induction fs with
  | nil => intro acc h; cases h
  | cons f0 fs ih =>
    intro acc h
    simp only [readFiles]
    rcases List.mem_cons.mp h with rfl | h
    · apply readFiles_keeps _ _ _ (hereFree_subst _ _)
      have := mem_expandHere (hereArg mainHere p f) s (acc ++ f.sections) (List.mem_append_right _ hs)
      rwa [hereArg_is_dir_of_file] at this
    · exact ih _ h

theorem foldl_keeps (mainHere : String) (s : HSection) (hs : HereFree s) :
    ∀ (pats : List IncPattern) (acc : List HSection), s ∈ acc →
      s ∈ pats.foldl (fun acc p => readFiles mainHere p acc p.files) acc := by
  intro pats
  induction pats with
  | nil => intro acc h; simpa using h
  | cons p ps ih => intro acc h; simp only [List.foldl_cons]; exact ih _ (readFiles_keeps mainHere p s hs _ _ h)

/-- **include_here_is_directory_of_file.**  Every section of every file matched by an include pattern reaches the parser
    with `%(here)s` standing for the directory of THAT file — whatever the pattern looked like (wildcards in a
    directory part, several matches in different directories), whatever was read before or is read after it. -/
theorem include_here_is_directory_of_file (mainHere : String) (main : List HSection) (pats : List IncPattern)
    (p : IncPattern) (f : IncFile) (s : HSection) (hp : p ∈ pats) (hf : f ∈ p.files) (hs : s ∈ f.sections) :
    s.subst f.dir ∈ readInclude mainHere main pats := by
  unfold readInclude
  generalize expandHere mainHere main = acc
  induction pats generalizing acc with
  | nil => cases hp
  | cons p0 ps ih =>
    simp only [List.foldl_cons]
    rcases List.mem_cons.mp hp with rfl | hp
    · exact foldl_keeps mainHere _ (hereFree_subst _ _) ps _ (readFiles_expands mainHere p f s hs _ _ hf)
    · exact ih hp _

/-- … and the sections of the main file with the main file's directory -/
theorem main_here_is_directory_of_main (mainHere : String) (main : List HSection) (pats : List IncPattern)
    (s : HSection) (hs : s ∈ main) : s.subst mainHere ∈ readInclude mainHere main pats :=
  foldl_keeps mainHere _ (hereFree_subst _ _) pats _ (mem_expandHere mainHere s main hs)

-- satisfiable: `files = apps/*/supervisor.conf` matching two directories
def exAlpha : HSection := ⟨"program:alpha", [("command", [.here, .lit "/bin/run"])]⟩
def exBeta : HSection := ⟨"program:beta", [("environment", [.lit "APP_HOME=\"", .here, .lit "\""])]⟩
example : readInclude "/etc" [⟨"supervisord", [("environment", [.lit "ROOT=", .here])]⟩]
      [⟨"/etc/apps/*", [⟨"/etc/apps/alpha", [exAlpha]⟩, ⟨"/etc/apps/beta", [exBeta]⟩]⟩]
    = [⟨"supervisord", [("environment", [.lit "ROOT=", .lit "/etc"])]⟩,
       ⟨"program:alpha", [("command", [.lit "/etc/apps/alpha", .lit "/bin/run"])]⟩,
       ⟨"program:beta", [("environment", [.lit "APP_HOME=\"", .lit "/etc/apps/beta", .lit "\""])]⟩] := by decide

/-! ### documented defaults -/

/-- the value a coded default denotes; a default that names another local (killasgroup ← stopasgroup)
    is that option's own converted default -/
def dfltRaw (scope : String) : Dflt → Option Raw
  | .none => some .none
  | .str s => some (.str s)
  | .int n => some (.int n)
  | .bool b => some (.bool b)
  | .auto => some .auto
  | .required => none
  | .ref r =>
    match findRow scope r with
    | none => none
    | some row =>
      match row.dflt with
      | .str s => match convert row.conv (.str s) with
        | .ok (.bool b) => some (.bool b)
        | .ok (.int n) => some (.int n)
        | .ok (.str t) => some (.str t)
        | _ => none
      | _ => none

/-- converted value of an option as the model computes it (log file names go through `logfile_name`) -/
def effective (row : OptRow) (r : Raw) : Option (CVal ⊕ LogFile) :=
  if strContains "_logfile" row.opt && row.conv == "" then
    match logfileName [] r with
    | .ok l => some (.inr l)
    | .error _ => none
  else
    match convert row.conv r with
    | .ok v => some (.inl v)
    | .error _ => none

/-- does the documented default of one option agree with the coded one? -/
def docAgrees (d : DocRow) : Bool :=
  match findRow d.scope d.opt with
  | none => false
  | some row =>
    if d.kind == "value" then
      match dfltRaw d.scope row.dflt with
      | none => false
      | some r => (effective row (.str d.text)).isSome && effective row (.str d.text) == effective row r
    else if d.kind == "unset" then row.dflt == .none || row.dflt == .str ""
    else true

/-- **defaults_documented.**  For every option of the [program:x], [group:x] and [supervisord] sections that
    docs/configuration.rst documents, the default written in options.py and the documented default denote the
    same value under the option's converter (loglevel excepted: its converter lives in the logging module,
    which is not modelled).  Decided over the two generated tables. -/
theorem defaults_documented :
    ∀ d ∈ docTable, d.scope ∈ ["program", "group", "supervisord"] → d.opt ≠ "loglevel" → docAgrees d = true := by
  decide

/-! ### numprocs law and per-process expansion -/

theorem mkProc_expands (cx : Ctx) (kind : PKind) (sec : Section) (pre : Pre) (s s' : XS) (num : Int) (p : PConfig)
    (h : mkProc cx kind sec pre s num = .ok (p, s')) :
    ∃ envStr env nameX d out err c,
      expand (loopHead cx pre s num).cur pre.environment_str = .ok envStr ∧
      dictOfKeyValuePairs envStr = .ok env ∧
      p.environment = env ∧
      -- the program's own environment is written back as ENV_ expansions before anything else is looked up
      loopGet cx sec "directory" ((loopHead cx pre s num).mut fun e => envExps e env) = .ok d ∧
      logSet cx sec d.2 "stdout" = .ok out ∧ p.stdout_logfile = out.1.logfile ∧
      logSet cx sec out.2 "stderr" = .ok err ∧ p.stderr_logfile = (if pre.redirect_stderr then LogFile.none else err.1.logfile) ∧
      loopGet cx sec "command" err.2 = .ok c ∧ asOptStr c.1 = .ok (some p.command) ∧
      expand c.2.cur pre.process_name = .ok nameX ∧ processOrGroupName nameX = .ok p.name ∧
      s' = c.2 ∧ p.kind = kind := by
  simp only [mkProc, procBody, bind_ok] at h
  obtain ⟨envStr, h1, env, h2, d, h3, dir, _, out, h4, err, h5, c, h6, co, h7, cmd, h8, nameX, h9, name, h10, h⟩ := h
  simp only [pure, Except.pure] at h
  injection h with h
  injection h with hp hs
  subst hp
  have hwb : pfsWriteBack = true := by decide
  simp only [hwb, if_true] at h3
  cases co with
  | none => simp [orError] at h8
  | some x =>
    simp only [orError] at h8
    injection h8 with h8
    subst h8
    exact ⟨envStr, env, nameX, d, out, err, c, h1, h2, rfl, h3, h4, rfl, h5, rfl, h6, h7, h9, h10, hs.symm, rfl⟩

/-- inside round `num` of the loop, `%(process_num)…` and `%(numprocs)…` denote `num` and numprocs, both when the
    environment is expanded and — after the program's environment was written back and however often a lookup
    re-applied `common_expansions` — for every later expansion (provided neither the ENV_ expansions nor
    `common_expansions` define these two names; `commonExps_no_loop_names` below) -/
theorem loop_expansions_bind (cx : Ctx) (pre : Pre) (s : XS) (num : Int) (env : KV)
    (hp : ∀ kv ∈ cx.senv, kv.1 ≠ "process_num" ∧ kv.1 ≠ "numprocs")
    (hc : ∀ kv ∈ s.common, kv.1 ≠ "process_num" ∧ kv.1 ≠ "numprocs") :
    (loopHead cx pre s num).cur.lookup "process_num" = some (.i num) ∧
    (loopHead cx pre s num).cur.lookup "numprocs" = some (.i pre.numprocs) ∧
    (envExps (loopHead cx pre s num).cur env).lookup "process_num" = some (.i num) ∧
    (envExps (loopHead cx pre s num).cur env).lookup "numprocs" = some (.i pre.numprocs) ∧
    (dupdate (envExps (loopHead cx pre s num).cur env) s.common).lookup "process_num" = some (.i num) ∧
    (dupdate (envExps (loopHead cx pre s num).cur env) s.common).lookup "numprocs" = some (.i pre.numprocs) := by
  have r1 : cx.senv.reverse.lookup "process_num" = none :=
    lookup_none_of_keys _ _ (fun kv h => (hp kv (List.mem_reverse.mp h)).1)
  have r2 : cx.senv.reverse.lookup "numprocs" = none :=
    lookup_none_of_keys _ _ (fun kv h => (hp kv (List.mem_reverse.mp h)).2)
  have c1 : s.common.reverse.lookup "process_num" = none :=
    lookup_none_of_keys _ _ (fun kv h => (hc kv (List.mem_reverse.mp h)).1)
  have c2 : s.common.reverse.lookup "numprocs" = none :=
    lookup_none_of_keys _ _ (fun kv h => (hc kv (List.mem_reverse.mp h)).2)
  have a1 : (loopHead cx pre s num).cur.lookup "process_num" = some (.i num) := by
    rw [loopHead_lookup, r1]; simp
  have a2 : (loopHead cx pre s num).cur.lookup "numprocs" = some (.i pre.numprocs) := by
    rw [loopHead_lookup, r2]; simp
  refine ⟨a1, a2, ?_, ?_, ?_, ?_⟩
  · rw [envExps_lookup _ _ _ (by decide), a1]
  · rw [envExps_lookup _ _ _ (by decide), a2]
  · rw [lookup_dupdate, c1, envExps_lookup _ _ _ (by decide), a1]; simp
  · rw [lookup_dupdate, c2, envExps_lookup _ _ _ (by decide), a2]; simp

theorem commonExps_no_loop_names (cx : Ctx) (pn g : String) :
    ∀ kv ∈ commonExps cx pn g, kv.1 ≠ "process_num" ∧ kv.1 ≠ "numprocs" := by
  intro kv h
  simp only [commonExps, List.mem_cons, List.not_mem_nil, or_false] at h
  rcases h with h | h | h | h <;> subst h <;> simp

/-- **numprocs_law.**  A section with numprocs = n and numprocs_start = s yields exactly n processes (none when
    n ≤ 0), and the i-th one is built by the loop body for process_num = s + i … -/
theorem numprocs_law (cx : Ctx) (kind : PKind) (sec : Section) (suffix g : String) (ps : List PConfig)
    (h : processesUnsorted cx kind sec suffix g = .ok ps) :
    ∃ pn pre, processOrGroupName suffix = .ok pn ∧ parsePre cx sec (commonExps cx pn g) = .ok pre ∧
      ps.length = pre.numprocs.toNat ∧
      ∀ i (hi : i < ps.length), ∃ si si', mkProc cx kind sec pre si (pre.numprocs_start + i) = .ok (ps[i], si') := by
  obtain ⟨pn, pre, h1, h2, _, h4⟩ := processesUnsorted_ok cx kind sec suffix g ps h
  obtain ⟨hl, hall⟩ := procLoop_spec cx kind sec pre _ _ ps h4
  rw [procNums_eq] at hl hall
  rw [rangeFrom_length] at hl
  refine ⟨pn, pre, h1, h2, hl, ?_⟩
  intro i hi
  have hn : i < (rangeFrom pre.numprocs_start pre.numprocs.toNat).length := by rw [rangeFrom_length]; omega
  obtain ⟨Ei, Ei', hm⟩ := hall i hi hn
  rw [rangeFrom_get] at hm
  exact ⟨Ei, Ei', hm⟩

/-- **process_independent.**  The configuration of process number s + i does not depend on the processes built
    before it: it is exactly what the loop body yields when it runs FIRST — straight from the state in front of
    the loop (`common_expansions` only, `freshXS`) — for process_num = s + i.  So `%(ENV_X)s` in a section's
    environment= always denotes the inherited X, never the value an earlier process of the section produced.
    (Rests on the GENERATED placement facts `pfsPreLoop`, `pfsLoopHead`: the dictionary is rebuilt inside the loop.) -/
theorem process_independent (cx : Ctx) (kind : PKind) (sec : Section) (suffix g : String) (ps : List PConfig)
    (h : processesUnsorted cx kind sec suffix g = .ok ps) :
    ∃ pn pre, processOrGroupName suffix = .ok pn ∧ parsePre cx sec (commonExps cx pn g) = .ok pre ∧
      ∀ i (hi : i < ps.length), ∃ s',
        mkProc cx kind sec pre (freshXS (commonExps cx pn g)) (pre.numprocs_start + i) = .ok (ps[i], s') := by
  obtain ⟨pn, pre, h1, h2, _, h4⟩ := processesUnsorted_ok cx kind sec suffix g ps h
  obtain ⟨hl, _⟩ := procLoop_spec cx kind sec pre _ _ ps h4
  have hall := procLoop_independent cx kind sec pre _ _ ps h4
  rw [preLoopXS_eq] at hall
  rw [procNums_eq] at hl hall
  rw [rangeFrom_length] at hl
  refine ⟨pn, pre, h1, h2, ?_⟩
  intro i hi
  have hn : i < (rangeFrom pre.numprocs_start pre.numprocs.toNat).length := by rw [rangeFrom_length]; omega
  obtain ⟨s', hm⟩ := hall i hi hn
  rw [rangeFrom_get] at hm
  exact ⟨s', hm⟩

/-- **process_independent_of_earlier.**  Leaving out the first k rounds of the loop leaves every later process
    as it was: process k's configuration does not depend on processes < k. -/
theorem process_independent_of_earlier (cx : Ctx) (kind : PKind) (sec : Section) (pre : Pre) (C : Exps) (nums : List Int)
    (ps : List PConfig) (h : procLoop cx kind sec pre (freshXS C) nums = .ok ps) (k : Nat) :
    procLoop cx kind sec pre (freshXS C) (nums.drop k) = .ok (ps.drop k) :=
  procLoop_drop cx kind sec pre (freshXS C) nums ps h k

/-- every option lookup inside the loop is handed the per-process dictionary (GENERATED `pfsLoopGets`), so
    `%(process_num)…`, `%(numprocs)…` and the ENV_ expansions of the program's own environment reach directory,
    log file names and command alike -/
theorem loop_lookups_pass_expansions : pfsLoopGets.all (fun g => g.2) = true := by decide

/-- the ten lookups of the loop body, in order -/
theorem loop_lookups : pfsLoopGets.map (fun g => g.1) =
    ["directory", "stdout_logfile", "stdout_logfile_backups", "stdout_logfile_maxbytes", "stdout_syslog",
     "stderr_logfile", "stderr_logfile_backups", "stderr_logfile_maxbytes", "stderr_syslog", "command"] := by decide

/-- **logfile_expanded_once** (regression of finding F40).  A configured log file name goes through exactly one
    expansion — the one of the lookup: `reexpand` is the identity (GENERATED `pfsLogfileReexpanded` = false), so
    `%%` in a log file name denotes one literal percent sign. -/
theorem logfile_expanded_once (E : Exps) (r : Raw) : reexpand E r = .ok r := by
  cases r <;> simp [reexpand, pfsLogfileReexpanded]

/-- the sorted result is a permutation of the loop's output, so the count and the set of processes are the same -/
theorem processesFromSection_perm (cx : Ctx) (kind : PKind) (sec : Section) (suffix g : String) (ps : List PConfig)
    (h : processesFromSection cx kind sec suffix g = .ok ps) :
    ∃ us, processesUnsorted cx kind sec suffix g = .ok us ∧ ps = sortBy pLt us ∧ ps.Perm us := by
  unfold processesFromSection at h
  cases hu : processesUnsorted cx kind sec suffix g with
  | error e => simp [hu, Except.map] at h
  | ok us =>
    simp only [hu, Except.map] at h
    injection h with h
    exact ⟨us, rfl, h.symm, h ▸ sortBy_perm pLt us⟩

/-- **constraint: numprocs > 1 without %(process_num).** -/
theorem constraint_numprocs_needs_process_num (cx : Ctx) (kind : PKind) (sec : Section) (suffix g pn : String) (pre : Pre)
    (h1 : processOrGroupName suffix = .ok pn) (h2 : parsePre cx sec (commonExps cx pn g) = .ok pre)
    (hn : 1 < pre.numprocs) (hm : strContains processNumMarker pre.process_name = false) :
    ∃ e, processesFromSection cx kind sec suffix g = .error e := by
  have hc : ∃ e, checkPre pre = .error e := by
    simp [checkPre, pfs_g4, hn, hm]
  obtain ⟨e, hc⟩ := hc
  exact ⟨e, by simp [processesFromSection, processesUnsorted, bind, Except.bind, h1, h2, hc, Except.map]⟩

/-- **constraint: stopasgroup without killasgroup.** -/
theorem constraint_stopasgroup_needs_killasgroup (cx : Ctx) (kind : PKind) (sec : Section) (suffix g pn : String) (pre : Pre)
    (h1 : processOrGroupName suffix = .ok pn) (h2 : parsePre cx sec (commonExps cx pn g) = .ok pre)
    (hs : pre.stopasgroup = true) (hk : pre.killasgroup = false) :
    ∃ e, processesFromSection cx kind sec suffix g = .error e := by
  have hc : ∃ e, checkPre pre = .error e := by
    simp only [checkPre, pfs_g4, pfs_g6, hs, hk]
    split <;> simp
  obtain ⟨e, hc⟩ := hc
  exact ⟨e, by simp [processesFromSection, processesUnsorted, bind, Except.bind, h1, h2, hc, Except.map]⟩

/-! ### documented constraints (continued) and converters -/

/-- **constraint: malformed numbers, booleans, signals, sizes, exit codes, autorestart words, expansions.**
    If the typed read of any pre-loop option fails (its value does not convert, or does not expand), the
    section is rejected. -/
theorem constraint_malformed_value (cx : Ctx) (kind : PKind) (sec : Section) (suffix g pn : String)
    (h1 : processOrGroupName suffix = .ok pn)
    (hbad : let gf := fun (opt : String) (locals : List (String × Raw)) =>
              getField cx.penv "program" sec opt locals (commonExps cx pn g)
            (∃ e, (gf "priority" [] >>= asInt) = .error e) ∨ (∃ e, (gf "autostart" [] >>= asBool) = .error e) ∨
            (∃ e, (gf "autorestart" [] >>= asRestart) = .error e) ∨ (∃ e, (gf "startsecs" [] >>= asInt) = .error e) ∨
            (∃ e, (gf "startretries" [] >>= asInt) = .error e) ∨ (∃ e, (gf "stopsignal" [] >>= asInt) = .error e) ∨
            (∃ e, (gf "stopwaitsecs" [] >>= asInt) = .error e) ∨ (∃ e, (gf "stopasgroup" [] >>= asBool) = .error e) ∨
            (∃ e, (gf "exitcodes" [] >>= asInts) = .error e) ∨ (∃ e, (gf "redirect_stderr" [] >>= asBool) = .error e) ∨
            (∃ e, (gf "numprocs" [] >>= asInt) = .error e) ∨ (∃ e, (gf "numprocs_start" [] >>= asInt) = .error e) ∨
            (∃ e, (gf "stdout_capture_maxbytes" [] >>= asInt) = .error e) ∨
            (∃ e, (gf "stdout_events_enabled" [] >>= asBool) = .error e) ∨
            (∃ e, (gf "stderr_capture_maxbytes" [] >>= asInt) = .error e) ∨
            (∃ e, (gf "stderr_events_enabled" [] >>= asBool) = .error e)) :
    ∃ e, processesFromSection cx kind sec suffix g = .error e := by
  have hp : ∃ e, parsePre cx sec (commonExps cx pn g) = .error e := by
    apply isError_of_not_ok
    intro pre hpre
    have hf := parsePre_fields cx sec _ pre hpre
    simp only at hf hbad
    obtain ⟨f1, f2, f3, f4, f5, f6, f7, f8, _, f10, f11, f12, f13, _, f15, f16, f17, f18, _⟩ := hf
    rcases hbad with ⟨e, h⟩ | ⟨e, h⟩ | ⟨e, h⟩ | ⟨e, h⟩ | ⟨e, h⟩ | ⟨e, h⟩ | ⟨e, h⟩ | ⟨e, h⟩ | ⟨e, h⟩ | ⟨e, h⟩ | ⟨e, h⟩ |
      ⟨e, h⟩ | ⟨e, h⟩ | ⟨e, h⟩ | ⟨e, h⟩ | ⟨e, h⟩ <;> simp_all
  obtain ⟨e, hp⟩ := hp
  exact ⟨e, by simp [processesFromSection, processesUnsorted, bind, Except.bind, h1, hp, Except.map]⟩

/-- the converters reject what the documentation calls malformed -/
theorem boolean_rejects (s : String) (h : ¬ (pyLower s ∈ truthy ∨ pyLower s ∈ falsy)) : ∃ e, boolean (.str s) = .error e := by
  simp only [not_or] at h
  simp [boolean, rawStr, h.1, h.2]

theorem boolean_accepts (s : String) (b : Bool) (h : boolean (.str s) = .ok b) :
    (b = true ∧ pyLower s ∈ truthy) ∨ (b = false ∧ pyLower s ∈ falsy) := by
  have h : (if truthy.contains (pyLower s) then Except.ok true
             else if falsy.contains (pyLower s) then Except.ok false
             else Except.error "boolean:not a valid boolean value" : Except String Bool) = .ok b := h
  by_cases ht : truthy.contains (pyLower s) = true
  · rw [if_pos ht] at h; injection h with h
    exact Or.inl ⟨h.symm, List.contains_iff_mem.mp ht⟩
  · rw [if_neg ht] at h
    by_cases hf : falsy.contains (pyLower s) = true
    · rw [if_pos hf] at h; injection h with h
      exact Or.inr ⟨h.symm, List.contains_iff_mem.mp hf⟩
    · rw [if_neg hf] at h; contradiction

theorem integer_rejects (s : String) (h : pyInt s = none) : ∃ e, integer (.str s) = .error e := by
  simp [integer, h]

theorem exitcodes_in_range (s : String) (l : List Int) (h : listOfExitcodes (.str s) = .ok l) :
    ∀ c ∈ l, 0 ≤ c ∧ c ≤ 255 := by
  simp only [listOfExitcodes] at h
  split at h
  · contradiction
  · split at h
    · contradiction
    · rename_i hany
      injection h with h; subst h
      intro c hc
      have : exitcodes_g0 c = false := by
        simp only [List.any_eq_true, not_exists, not_and, Bool.not_eq_true] at hany
        exact hany c hc
      simp [exitcodes_g0] at this
      omega

theorem signal_in_table (r : Raw) (n : Int) (h : signalNumber r = .ok n) : n ∈ sigNums := by
  have key : ∀ (L : List Int) (m : Int),
      (if L.contains m = true then Except.ok m else Except.error "signal:not a valid signal number" : Except String Int) = .ok n →
      n ∈ L := by
    intro L m hm
    by_cases hc : L.contains m = true
    · rw [if_pos hc] at hm; injection hm with hm; subst hm; exact List.contains_iff_mem.mp hc
    · rw [if_neg hc] at hm; contradiction
  cases r with
  | int m => exact key sigNums m h
  | str s =>
    unfold signalNumber at h
    dsimp only at h
    cases hp : pyInt s with
    | some m => rw [hp] at h; exact key sigNums m h
    | none =>
      rw [hp] at h
      dsimp only at h
      generalize (if strStartsWith "SIG" (pyUpper (pyStrip s)) = true then pyUpper (pyStrip s) else "SIG" ++ pyUpper (pyStrip s)) = nm at h
      cases hl : sigNames.lookup nm with
      | none => rw [hl] at h; contradiction
      | some m => rw [hl] at h; exact key sigNums m h
  | none => exact absurd h (by unfold signalNumber; exact fun h => by contradiction)
  | bool b => exact absurd h (by unfold signalNumber; exact fun h => by contradiction)
  | auto => exact absurd h (by unfold signalNumber; exact fun h => by contradiction)

/-- **constraint: forbidden name characters.**  A name is accepted only if, after stripping, it contains none
    of the generated forbidden characters; since fix F17 this test is applied to the *expanded* process name. -/
theorem name_chars (name out : String) (h : processOrGroupName name = .ok out) :
    out = String.ofList (strip name.toList) ∧ ∀ c ∈ forbiddenNameChars, c ∉ strip name.toList := by
  simp only [processOrGroupName] at h
  split at h
  · contradiction
  · rename_i hany
    injection h with h
    refine ⟨h.symm, ?_⟩
    intro c hc hin
    apply hany
    simp only [List.any_eq_true]
    exact ⟨c, hc, by simpa using hin⟩

theorem expanded_name_checked (cx : Ctx) (kind : PKind) (sec : Section) (pre : Pre) (s s' : XS) (num : Int) (p : PConfig)
    (h : mkProc cx kind sec pre s num = .ok (p, s')) :
    ∀ c ∈ forbiddenNameChars, c ∉ p.name.toList := by
  obtain ⟨_, _, nameX, _, _, _, _, _, _, _, _, _, _, _, _, _, _, _, hn, _⟩ := mkProc_expands cx kind sec pre s s' num p h
  obtain ⟨ho, hc⟩ := name_chars nameX p.name hn
  rw [ho]
  simpa using hc


/-! ### ordering -/

/-- `a` is not after `b` in the order of Config.__lt__: smaller priority, or equal priority and name ≤ -/
def cfgLe (pa : Int) (na : String) (pb : Int) (nb : String) : Prop := pa < pb ∨ (pa = pb ∧ na ≤ nb)

theorem cfgLe_of_not_lt (pa pb : Int) (na nb : String) (h : cfgLt pb nb pa na = false) : cfgLe pa na pb nb := by
  rcases (cfgLt_false_iff pb pa nb na).mp h with h | ⟨h1, h2⟩
  · exact Or.inl h
  · exact Or.inr ⟨h1.symm, h2⟩

/-- **ordering (groups).**  The groups of an accepted file are the groups found (in any section order), sorted by
    priority then name; groups equal in both keep their file order. -/
theorem ordering_groups (cx : Ctx) (ini : Ini) (gs : List GConfig) (h : processGroupsFromParser cx ini = .ok gs) :
    ∃ us, groupsUnsorted cx ini = .ok us ∧ gs.Perm us ∧
      gs.Pairwise (fun a b => cfgLe a.priority a.name b.priority b.name) ∧
      ∀ (p : Int) (n : String), gs.filter (fun g => g.priority == p && g.name == n) = us.filter (fun g => g.priority == p && g.name == n) := by
  unfold processGroupsFromParser at h
  cases hu : groupsUnsorted cx ini with
  | error e => simp [hu, Except.map] at h
  | ok us =>
    simp only [hu, Except.map] at h
    injection h with h
    subst h
    refine ⟨us, rfl, sortBy_perm _ _, ?_, ?_⟩
    · have := sortBy_sorted gLt (cfgLt_strictWeak GConfig.priority GConfig.name) us
      exact this.imp (fun {a b} hab => cfgLe_of_not_lt _ _ _ _ hab)
    · intro p n
      apply sortBy_stable
      intro x y hx hy
      simp only [Bool.and_eq_true, beq_iff_eq] at hx hy
      simp only [gLt]
      rw [cfgLt_false_iff]
      right
      exact ⟨by rw [hx.1, hy.1], by rw [hx.2, hy.2]; exact String.le_refl _⟩

/-- **ordering (processes of a section).** -/
theorem ordering_processes (cx : Ctx) (kind : PKind) (sec : Section) (suffix g : String) (ps : List PConfig)
    (h : processesFromSection cx kind sec suffix g = .ok ps) :
    ps.Pairwise (fun a b => cfgLe a.priority a.name b.priority b.name) := by
  obtain ⟨us, _, hs, _⟩ := processesFromSection_perm cx kind sec suffix g ps h
  subst hs
  have := sortBy_sorted pLt (cfgLt_strictWeak PConfig.priority PConfig.name) us
  exact this.imp (fun {a b} hab => cfgLe_of_not_lt _ _ _ _ hab)

example : sortBy gLt [{ kind := .group, name := "b", priority := 5, procs := [] },
                      { kind := .group, name := "a", priority := 5, procs := [] },
                      { kind := .pool, name := "z", priority := -1, procs := [] }]
    = [{ kind := .pool, name := "z", priority := -1, procs := [] },
       { kind := .group, name := "a", priority := 5, procs := [] },
       { kind := .group, name := "b", priority := 5, procs := [] }] := by decide


/-! ### event listener pools -/

theorem mapM_ok_spec {α β : Type} (f : α → Except String β) (l : List α) (out : List β) (h : l.mapM f = .ok out) :
    out.length = l.length ∧ ∀ i (h1 : i < l.length) (h2 : i < out.length), f l[i] = .ok out[i] := by
  induction l generalizing out with
  | nil => simp [List.mapM_nil, pure, Except.pure] at h; subst h; simp
  | cons x xs ih =>
    simp only [List.mapM_cons, bind, Except.bind, pure, Except.pure] at h
    split at h
    · contradiction
    · rename_i y hy
      split at h
      · contradiction
      · rename_i ys hys
        injection h with h; subst h
        obtain ⟨hl, hall⟩ := ih ys hys
        refine ⟨by simp [hl], ?_⟩
        intro i h1 h2
        cases i with
        | zero => simpa using hy
        | succ j => simpa using hall j (by simpa using h1) (by simpa using h2)

theorem mapM_error_of_mem {α β : Type} (f : α → Except String β) (l : List α) (x : α) (hx : x ∈ l) (e : String)
    (hf : f x = .error e) : ∃ e', l.mapM f = .error e' := by
  apply isError_of_not_ok
  intro out hout
  obtain ⟨hl, hall⟩ := mapM_ok_spec f l out hout
  obtain ⟨i, hi, rfl⟩ := List.getElem_of_mem hx
  have := hall i hi (by omega)
  rw [hf] at this
  contradiction

/-- **constraint: unknown event type.**  If any listed name (upper-cased) is not an attribute of the generated
    EventTypes registry, the subscription list is rejected. -/
theorem constraint_unknown_event_type (names : List String) (n : String) (hn : n ∈ names)
    (hu : eventNames.lookup (pyUpper n) = none) : ∃ e, poolEvents names = .error e := by
  unfold poolEvents
  apply mapM_error_of_mem _ _ (pyUpper n) (List.mem_map.mpr ⟨n, hn, rfl⟩) "events:unknown event type"
  simp [hu]

theorem mem_dedup (l : List String) (x : String) : x ∈ dedup l ↔ x ∈ l := by
  induction l with
  | nil => simp [dedup]
  | cons y ys ih =>
    simp only [dedup]
    split
    · rename_i hc
      have hy : y ∈ ys := List.contains_iff_mem.mp hc
      simp only [ih, List.mem_cons]
      constructor
      · exact Or.inr
      · rintro (rfl | h)
        · exact hy
        · exact h
    · simp [ih]

/-- **listener_subscription.**  A pool subscribes to exactly the listed event types: a class is in `pool_events`
    iff it is the registry entry of one of the listed names (upper-cased); every listed name has an entry. -/
theorem listener_subscription (names : List String) (evs : List String) (h : poolEvents names = .ok evs) :
    (∀ n ∈ names, ∃ c, eventNames.lookup (pyUpper n) = some c) ∧
    ∀ c, c ∈ sortBy strLt (dedup evs) ↔ ∃ n ∈ names, eventNames.lookup (pyUpper n) = some c := by
  unfold poolEvents at h
  obtain ⟨hl, hall⟩ := mapM_ok_spec _ _ evs h
  simp only [List.length_map] at hl hall
  have hget : ∀ i (h1 : i < names.length), eventNames.lookup (pyUpper names[i]) = some (evs[i]'(by omega)) := by
    intro i h1
    have := hall i h1 (by omega)
    simp only [List.getElem_map] at this
    split at this
    · injection this with this; rename_i c hc; rw [hc, this]
    · contradiction
  constructor
  · intro n hn
    obtain ⟨i, hi, rfl⟩ := List.getElem_of_mem hn
    exact ⟨_, hget i hi⟩
  · intro c
    rw [(sortBy_perm strLt (dedup evs)).mem_iff, mem_dedup]
    constructor
    · intro hc
      obtain ⟨i, hi, rfl⟩ := List.getElem_of_mem hc
      exact ⟨names[i]'(by omega), List.getElem_mem _, hget i (by omega)⟩
    · rintro ⟨n, hn, hc⟩
      obtain ⟨i, hi, rfl⟩ := List.getElem_of_mem hn
      have := hget i hi
      rw [hc] at this
      injection this with this
      rw [this]
      exact List.getElem_mem _


/-- an accepted [eventlistener:x] section: the pool's name is the validated, stripped section suffix (fix F32);
    it is subscribed to the listed events, has a buffer of at least one event, does not redirect stderr, and
    its processes are those of the section -/
theorem listenerGroup_ok (cx : Ctx) (sec : Section) (g : GConfig) (h : listenerGroup cx sec = .ok g) :
    ∃ names evs,
      processOrGroupName (afterPrefix "eventlistener:" sec.name) = .ok g.name ∧
      (getField cx.penv "eventlistener" sec "events" [] (hereExps cx) >>= asStrs) = .ok names ∧ names ≠ [] ∧
      poolEvents names = .ok evs ∧ g.pool_events = sortBy strLt (dedup evs) ∧
      g.kind = .pool ∧ 1 ≤ g.buffer_size ∧ g.result_handler ∈ cx.handlers ∧
      (getField cx.penv "eventlistener" sec "redirect_stderr" [] (hereExps cx) >>= asBool) = .ok false ∧
      processesFromSection cx .listener sec (afterPrefix "eventlistener:" sec.name) g.name = .ok g.procs := by
  unfold listenerGroup at h
  dsimp only at h
  cases h0 : processOrGroupName (afterPrefix "eventlistener:" sec.name) with
  | error e => rw [h0] at h; cases h
  | ok poolName =>
  rw [h0] at h; dsimp only at h
  cases h1 : (getField cx.penv "eventlistener" sec "priority" [] (hereExps cx) >>= asInt) with
  | error e => rw [h1] at h; cases h
  | ok priority =>
  rw [h1] at h; dsimp only at h
  cases h2 : (getField cx.penv "eventlistener" sec "buffer_size" [] (hereExps cx) >>= asInt) with
  | error e => rw [h2] at h; cases h
  | ok bs =>
  rw [h2] at h; dsimp only at h
  by_cases hb : pgfp_g5 bs 0 = true
  · rw [if_pos hb] at h; cases h
  rw [if_neg hb] at h
  cases h3 : (getField cx.penv "eventlistener" sec "result_handler" [] (hereExps cx) >>= asStr) with
  | error e => rw [h3] at h; cases h
  | ok handler =>
  rw [h3] at h; dsimp only at h
  by_cases hr : (!cx.handlers.contains handler) = true
  · rw [if_pos hr] at h; cases h
  rw [if_neg hr] at h
  cases h4 : (getField cx.penv "eventlistener" sec "events" [] (hereExps cx) >>= asStrs) with
  | error e => rw [h4] at h; cases h
  | ok names =>
  rw [h4] at h; dsimp only at h
  by_cases hne : names.isEmpty = true
  · rw [if_pos hne] at h; cases h
  rw [if_neg hne] at h
  cases h5 : poolEvents names with
  | error e => rw [h5] at h; cases h
  | ok evs =>
  rw [h5] at h; dsimp only at h
  cases h6 : (getField cx.penv "eventlistener" sec "redirect_stderr" [] (hereExps cx) >>= asBool) with
  | error e => rw [h6] at h; cases h
  | ok red =>
  rw [h6] at h; dsimp only at h
  by_cases hred : red = true
  · rw [if_pos hred] at h; cases h
  rw [if_neg hred] at h
  cases h7 : processesFromSection cx .listener sec (afterPrefix "eventlistener:" sec.name) poolName with
  | error e => rw [h7] at h; cases h
  | ok ps =>
  rw [h7] at h
  replace h : Except.ok _ = Except.ok g := h
  injection h with h
  subst h
  have hred' : red = false := by cases red <;> simp_all
  subst hred'
  refine ⟨names, evs, rfl, rfl, ?_, h5, rfl, rfl, ?_, ?_, rfl, h7⟩
  · intro e; rw [e] at hne; exact hne rfl
  · simp only [pgfp_g5, ilt_iff, Bool.not_eq_true, ilt_false_iff] at hb; show 1 ≤ bs; omega
  · show handler ∈ cx.handlers
    have : cx.handlers.contains handler = true := by
      cases hc : cx.handlers.contains handler <;> simp_all
    exact List.contains_iff_mem.mp this

/-! ### heterogeneous groups -/

/-- element-wise relation between two lists of the same length -/
inductive Forall2 {α β : Type} (R : α → β → Prop) : List α → List β → Prop
  | nil : Forall2 R [] []
  | cons {a b as bs} : R a b → Forall2 R as bs → Forall2 R (a :: as) (b :: bs)

/-- what the `for program in programs` loop of a [group:g] section returns: for every listed program, in the
    listed order, the processes of its [program:p] (or [fcgi-program:p]) section built with group_name = g;
    `taken` lists exactly those sections -/
theorem heteroPrograms_spec (cx : Ctx) (ini : Ini) (g : String) (programs : List String)
    (procs : List PConfig) (taken : List String) (h : heteroPrograms cx ini g programs = .ok (procs, taken)) :
    ∃ pss : List (List PConfig), procs = pss.flatten ∧
      Forall2 (fun p (tp : String × List PConfig) =>
        (tp.1 = "program:" ++ p ∨ tp.1 = "fcgi-program:" ++ p) ∧ tp.1 ∈ ini.sectionNames ∧
        ∃ sec, ini.find tp.1 = some sec ∧ processesFromSection cx .process sec p g = .ok tp.2)
        programs (taken.zip pss) ∧ taken.length = pss.length := by
  induction programs generalizing procs taken with
  | nil =>
    simp only [heteroPrograms] at h
    injection h with h; injection h with h1 h2; subst h1; subst h2
    exact ⟨[], rfl, Forall2.nil, rfl⟩
  | cons p rest ih =>
    unfold heteroPrograms at h
    dsimp only at h
    by_cases c1 : (!ini.sectionNames.contains ("program:" ++ p) && !ini.sectionNames.contains ("fcgi-program:" ++ p)) = true
    · rw [if_pos c1] at h; cases h
    rw [if_neg c1] at h
    by_cases c2 : (ini.sectionNames.contains ("program:" ++ p) && ini.sectionNames.contains ("fcgi-program:" ++ p)) = true
    · rw [if_pos c2] at h; cases h
    rw [if_neg c2] at h
    generalize hs : (if ini.sectionNames.contains ("program:" ++ p) = true then "program:" ++ p else "fcgi-program:" ++ p) = sname at h
    have hsn : (sname = "program:" ++ p ∨ sname = "fcgi-program:" ++ p) ∧ sname ∈ ini.sectionNames := by
      by_cases c3 : ini.sectionNames.contains ("program:" ++ p) = true
      · rw [if_pos c3] at hs; subst hs; exact ⟨Or.inl rfl, List.contains_iff_mem.mp c3⟩
      · rw [if_neg c3] at hs; subst hs
        refine ⟨Or.inr rfl, ?_⟩
        have : ini.sectionNames.contains ("fcgi-program:" ++ p) = true := by
          simp only [Bool.and_eq_true, Bool.not_eq_true', not_and, Bool.not_eq_false] at c1
          simp only [Bool.not_eq_true] at c3
          exact c1 c3
        exact List.contains_iff_mem.mp this
    cases hf : ini.find sname with
    | none => rw [hf] at h; cases h
    | some sec =>
      rw [hf] at h; dsimp only at h
      cases hp : processesFromSection cx .process sec p g with
      | error e => rw [hp] at h; cases h
      | ok ps =>
        rw [hp] at h; dsimp only at h
        cases hr : heteroPrograms cx ini g rest with
        | error e => rw [hr] at h; cases h
        | ok r =>
          obtain ⟨more, taken'⟩ := r
          rw [hr] at h; dsimp only at h
          injection h with h; injection h with h1 h2; subst h1; subst h2
          obtain ⟨pss, e1, e2, e3⟩ := ih more taken' hr
          refine ⟨ps :: pss, by simp [e1], ?_, by simp [e3]⟩
          simp only [List.zip_cons_cons]
          exact Forall2.cons ⟨hsn.1, hsn.2, sec, hf, hp⟩ e2

/-- a [program:x] section yields its own group exactly when no [group:g] section took it -/
theorem own_groups_removed (cx : Ctx) (exclude : List String) (secs : List Section) (gs : List GConfig)
    (h : homogGroups cx exclude secs = .ok gs) :
    Forall2 (fun (sec : Section) (g : GConfig) =>
        g.kind = .group ∧ processOrGroupName (afterPrefix "program:" sec.name) = .ok g.name ∧
        processesFromSection cx .process sec (afterPrefix "program:" sec.name) g.name = .ok g.procs)
      (secs.filter fun s => strStartsWith "program:" s.name && !exclude.contains s.name) gs := by
  induction secs generalizing gs with
  | nil => simp only [homogGroups] at h; injection h with h; subst h; exact Forall2.nil
  | cons sec rest ih =>
    unfold homogGroups at h
    by_cases c : (!strStartsWith "program:" sec.name || exclude.contains sec.name) = true
    · rw [if_pos c] at h
      have : (strStartsWith "program:" sec.name && !exclude.contains sec.name) = false := by
        revert c; cases strStartsWith "program:" sec.name <;> cases exclude.contains sec.name <;> simp
      rw [List.filter_cons, this]
      exact ih gs h
    · rw [if_neg c] at h
      have : (strStartsWith "program:" sec.name && !exclude.contains sec.name) = true := by
        revert c; cases strStartsWith "program:" sec.name <;> cases exclude.contains sec.name <;> simp
      rw [List.filter_cons, this]
      simp only [bind, Except.bind, pure, Except.pure] at h
      cases h1 : processOrGroupName (afterPrefix "program:" sec.name) with
      | error e => rw [h1] at h; cases h
      | ok name =>
        rw [h1] at h; dsimp only at h
        cases h2 : (getField cx.penv "homogeneous" sec "priority" [] (hereExps cx)) with
        | error e => rw [h2] at h; cases h
        | ok pv =>
          rw [h2] at h; dsimp only at h
          cases h3 : asInt pv with
          | error e => rw [h3] at h; cases h
          | ok prio =>
            rw [h3] at h; dsimp only at h
            cases h4 : processesFromSection cx .process sec (afterPrefix "program:" sec.name) name with
            | error e => rw [h4] at h; cases h
            | ok ps =>
              rw [h4] at h; dsimp only at h
              cases h5 : homogGroups cx exclude rest with
              | error e => rw [h5] at h; cases h
              | ok gs' =>
                rw [h5] at h; dsimp only at h
                injection h with h; subst h
                exact Forall2.cons ⟨rfl, h1, h4⟩ (ih gs' h5)

/-- **hetero_groups.**  The groups of a file are: one per [group:g] section (owning the processes of exactly
    its listed programs, `heteroPrograms_spec`), one per [program:x] section *not* listed by any group
    (`own_groups_removed` with `exclude` = the sections the groups took), the listener pools and the
    FastCGI groups not taken. -/
theorem hetero_groups (cx : Ctx) (ini : Ini) (gs : List GConfig) (h : groupsUnsorted cx ini = .ok gs) :
    ∃ hg taken homog pools fcgi,
      heteroGroups cx ini ini.sections = .ok (hg, taken) ∧
      homogGroups cx taken ini.sections = .ok homog ∧
      listenerGroups cx ini.sections = .ok pools ∧
      fcgiGroups cx taken ini.sections = .ok fcgi ∧
      gs = hg ++ homog ++ pools ++ fcgi := by
  simp only [groupsUnsorted, bind, Except.bind, pure, Except.pure] at h
  cases h1 : heteroGroups cx ini ini.sections with
  | error e => rw [h1] at h; cases h
  | ok r =>
    obtain ⟨hg, taken⟩ := r
    rw [h1] at h; dsimp only at h
    cases h2 : homogGroups cx taken ini.sections with
    | error e => rw [h2] at h; cases h
    | ok homog =>
      rw [h2] at h; dsimp only at h
      cases h3 : listenerGroups cx ini.sections with
      | error e => rw [h3] at h; cases h
      | ok pools =>
        rw [h3] at h; dsimp only at h
        cases h4 : fcgiGroups cx taken ini.sections with
        | error e => rw [h4] at h; cases h
        | ok fcgi =>
          rw [h4] at h; dsimp only at h
          injection h with h
          exact ⟨hg, taken, homog, pools, fcgi, rfl, h2, rfl, h4, h.symm⟩



theorem Forall2.exists_of_mem {α β : Type} {R : α → β → Prop} {as : List α} {bs : List β} (h : Forall2 R as bs)
    {a : α} (ha : a ∈ as) : ∃ b, b ∈ bs ∧ R a b := by
  induction h with
  | nil => cases ha
  | cons hr _ ih =>
    rcases List.mem_cons.mp ha with rfl | ha'
    · exact ⟨_, List.mem_cons_self, hr⟩
    · obtain ⟨b, hb, hrb⟩ := ih ha'
      exact ⟨b, List.mem_cons_of_mem _ hb, hrb⟩

/-- **constraint: missing command.**  Without a `command` the loop body fails for every process number, so a
    section with numprocs ≥ 1 is rejected. -/
theorem constraint_missing_command (cx : Ctx) (kind : PKind) (sec : Section) (pre : Pre) (s : XS) (num : Int)
    (hc : sec.opts.lookup "command" = none) : ∃ e, mkProc cx kind sec pre s num = .error e := by
  apply isError_of_not_ok
  rintro ⟨p, s'⟩ hok
  obtain ⟨_, _, _, _, _, err, c, _, _, _, _, _, _, _, _, hcmd, hsome, _⟩ := mkProc_expands cx kind sec pre s s' num p hok
  have hrow : findRow "program" "command" = some ⟨"program", "command", "", Dflt.none, true⟩ := by decide
  have hget : pfsLoopGets.lookup "command" = some true := by decide
  simp only [loopGet, hrow, hget, orError, bind_ok] at hcmd
  obtain ⟨row, hrow', passes, hpass, r, hr, v, hv, hcmd⟩ := hcmd
  injection hrow' with hrow'
  subst hrow'
  injection hpass with hpass
  subst hpass
  simp [saneget, hc, rawDefault] at hr
  subst hr
  simp [convert] at hv
  subst hv
  simp only [pure, Except.pure] at hcmd
  injection hcmd with hcmd
  subst hcmd
  simp [asOptStr] at hsome

theorem missing_command_rejects_section (cx : Ctx) (kind : PKind) (sec : Section) (suffix g : String)
    (hc : sec.opts.lookup "command" = none)
    (hn : ∀ pn pre, processOrGroupName suffix = .ok pn → parsePre cx sec (commonExps cx pn g) = .ok pre → 1 ≤ pre.numprocs) :
    ∃ e, processesFromSection cx kind sec suffix g = .error e := by
  apply isError_of_not_ok
  intro ps hps
  obtain ⟨us, hu, _, _⟩ := processesFromSection_perm cx kind sec suffix g ps hps
  obtain ⟨pn, pre, h1, h2, hl, hall⟩ := numprocs_law cx kind sec suffix g us hu
  have hpos := hn pn pre h1 h2
  have : 0 < us.length := by omega
  obtain ⟨Ei, Ei', hm⟩ := hall 0 this
  obtain ⟨e, he⟩ := constraint_missing_command cx kind sec pre Ei (pre.numprocs_start + (0 : Nat)) hc
  rw [he] at hm
  cases hm

/-- a failing [program:x] section that no [group:g] section lists (hypothesis `hnot`) makes the whole file fail;
    the general statement is `section_error_rejects_file` below -/
theorem section_error_rejects_file_ungrouped (cx : Ctx) (ini : Ini) (sec : Section) (hmem : sec ∈ ini.sections)
    (hp : strStartsWith "program:" sec.name = true)
    (herr : ∀ g, ∃ e, processesFromSection cx .process sec (afterPrefix "program:" sec.name) g = .error e)
    (hnot : ∀ hg taken, heteroGroups cx ini ini.sections = .ok (hg, taken) → sec.name ∉ taken) :
    ∃ e, processGroupsFromParser cx ini = .error e := by
  have : ∃ e, groupsUnsorted cx ini = .error e := by
    apply isError_of_not_ok
    intro gs hgs
    obtain ⟨hg, taken, homog, _, _, h1, h2, _, _, _⟩ := hetero_groups cx ini gs hgs
    have hf := own_groups_removed cx taken ini.sections homog h2
    have hin : sec ∈ ini.sections.filter (fun s => strStartsWith "program:" s.name && !taken.contains s.name) := by
      rw [List.mem_filter]
      refine ⟨hmem, ?_⟩
      have : taken.contains sec.name = false := by
        have := hnot hg taken h1
        simpa using this
      simp only [hp, this, Bool.not_false, Bool.and_self]
    obtain ⟨g, _, _, _, hok⟩ := hf.exists_of_mem hin
    obtain ⟨e, he⟩ := herr g.name
    rw [he] at hok
    cases hok
  obtain ⟨e, he⟩ := this
  exact ⟨e, by simp [processGroupsFromParser, he, Except.map]⟩

theorem Forall2.exists_of_mem_right {α β : Type} {R : α → β → Prop} {as : List α} {bs : List β} (h : Forall2 R as bs)
    {b : β} (hb : b ∈ bs) : ∃ a, a ∈ as ∧ R a b := by
  induction h with
  | nil => cases hb
  | cons hr _ ih =>
    rcases List.mem_cons.mp hb with rfl | hb'
    · exact ⟨_, List.mem_cons_self, hr⟩
    · obtain ⟨a, ha, hra⟩ := ih hb'
      exact ⟨a, List.mem_cons_of_mem _ ha, hra⟩

theorem mem_zip_of_mem_left {α β : Type} (l₁ : List α) (l₂ : List β) (h : l₁.length = l₂.length) (a : α) (ha : a ∈ l₁) :
    ∃ b, (a, b) ∈ l₁.zip l₂ := by
  induction l₁ generalizing l₂ with
  | nil => cases ha
  | cons x xs ih =>
    cases l₂ with
    | nil => simp at h
    | cons y ys =>
      rcases List.mem_cons.mp ha with rfl | ha'
      · exact ⟨y, by simp⟩
      · obtain ⟨b, hb⟩ := ih ys (by simpa using h) ha'
        exact ⟨b, by simp [hb]⟩

/-- every section a [group:g] took was processed successfully (as a member of that group) -/
theorem heteroPrograms_taken_ok (cx : Ctx) (ini : Ini) (g : String) (programs : List String)
    (procs : List PConfig) (taken : List String) (h : heteroPrograms cx ini g programs = .ok (procs, taken)) :
    ∀ t ∈ taken, ∃ p sec ps, (t = "program:" ++ p ∨ t = "fcgi-program:" ++ p) ∧ ini.find t = some sec ∧
      processesFromSection cx .process sec p g = .ok ps := by
  obtain ⟨pss, _, hf, hl⟩ := heteroPrograms_spec cx ini g programs procs taken h
  intro t ht
  obtain ⟨ps, hz⟩ := mem_zip_of_mem_left taken pss hl t ht
  obtain ⟨p, _, hor, _, sec, hfind, hok⟩ := hf.exists_of_mem_right hz
  exact ⟨p, sec, ps, hor, hfind, hok⟩

theorem heteroGroups_taken_ok (cx : Ctx) (ini : Ini) (secs : List Section) (hg : List GConfig) (taken : List String)
    (h : heteroGroups cx ini secs = .ok (hg, taken)) :
    ∀ t ∈ taken, ∃ p g sec ps, (t = "program:" ++ p ∨ t = "fcgi-program:" ++ p) ∧ ini.find t = some sec ∧
      processesFromSection cx .process sec p g = .ok ps := by
  induction secs generalizing hg taken with
  | nil =>
    simp only [heteroGroups] at h
    injection h with h; injection h with _ h2; subst h2
    intro t ht; cases ht
  | cons sec rest ih =>
    unfold heteroGroups at h
    by_cases c : (!strStartsWith "group:" sec.name) = true
    · rw [if_pos c] at h; exact ih hg taken h
    · rw [if_neg c] at h
      simp only [bind, Except.bind, pure, Except.pure] at h
      cases h1 : processOrGroupName (afterPrefix "group:" sec.name) with
      | error e => rw [h1] at h; cases h
      | ok gname =>
        rw [h1] at h; dsimp only at h
        cases h2 : getField cx.penv "group" sec "programs" [] (hereExps cx) with
        | error e => rw [h2] at h; cases h
        | ok v2 =>
          rw [h2] at h; dsimp only at h
          cases h3 : asStrs v2 with
          | error e => rw [h3] at h; cases h
          | ok programs =>
            rw [h3] at h; dsimp only at h
            cases h4 : getField cx.penv "group" sec "priority" [] (hereExps cx) with
            | error e => rw [h4] at h; cases h
            | ok v4 =>
              rw [h4] at h; dsimp only at h
              cases h5 : asInt v4 with
              | error e => rw [h5] at h; cases h
              | ok prio =>
                rw [h5] at h; dsimp only at h
                cases h6 : heteroPrograms cx ini gname programs with
                | error e => rw [h6] at h; cases h
                | ok r =>
                  obtain ⟨procs, tk⟩ := r
                  rw [h6] at h; dsimp only at h
                  cases h7 : heteroGroups cx ini rest with
                  | error e => rw [h7] at h; cases h
                  | ok r2 =>
                    obtain ⟨gs, tk'⟩ := r2
                    rw [h7] at h; dsimp only at h
                    injection h with h; injection h with _ hh; subst hh
                    intro t ht
                    rcases List.mem_append.mp ht with ht | ht
                    · obtain ⟨p, s', ps, a, b, c⟩ := heteroPrograms_taken_ok cx ini gname programs procs tk h6 t ht
                      exact ⟨p, gname, s', ps, a, b, c⟩
                    · exact ih gs tk' h7 t ht

theorem afterPrefix_program (p : String) : afterPrefix "program:" ("program:" ++ p) = p := by
  unfold afterPrefix
  have h1 : ("program:" ++ p).toList = 'p' :: 'r' :: 'o' :: 'g' :: 'r' :: 'a' :: 'm' :: ':' :: p.toList := by
    rw [String.toList_append]; rfl
  have h2 : "program:".length = 8 := by decide
  rw [h1, h2]
  simp

theorem fcgi_not_program (p : String) : strStartsWith "program:" ("fcgi-program:" ++ p) = false := by
  unfold strStartsWith
  have h1 : ("fcgi-program:" ++ p).toList = 'f' :: ("cgi-program:".toList ++ p.toList) := by
    rw [String.toList_append]; rfl
  have h2 : "program:".toList = 'p' :: "rogram:".toList := by decide
  rw [h1, h2]
  simp [isPrefixChars]

/-- **a failing [program:x] section makes the whole file fail** — full version: also when a [group:g] section
    lists the program (section names being unique, as they are in every parsed file: `hu`). -/
theorem section_error_rejects_file (cx : Ctx) (ini : Ini) (sec : Section) (hmem : sec ∈ ini.sections)
    (hu : ini.find sec.name = some sec)
    (hp : strStartsWith "program:" sec.name = true)
    (herr : ∀ g, ∃ e, processesFromSection cx .process sec (afterPrefix "program:" sec.name) g = .error e) :
    ∃ e, processGroupsFromParser cx ini = .error e := by
  cases hh : heteroGroups cx ini ini.sections with
  | error e =>
    exact ⟨e, by simp [processGroupsFromParser, groupsUnsorted, bind, Except.bind, hh, Except.map]⟩
  | ok r =>
    obtain ⟨hg, taken⟩ := r
    apply section_error_rejects_file_ungrouped cx ini sec hmem hp herr
    intro hg' taken' h' hin
    rw [hh] at h'
    injection h' with h'; injection h' with _ ht; subst ht
    obtain ⟨p, g, sec', ps, hor, hfind, hok⟩ := heteroGroups_taken_ok cx ini ini.sections hg taken hh sec.name hin
    rw [hu] at hfind
    injection hfind with hfind
    subst hfind
    rcases hor with hname | hname
    · have : afterPrefix "program:" sec.name = p := by rw [hname]; exact afterPrefix_program p
      obtain ⟨e, he⟩ := herr g
      rw [this, hok] at he
      cases he
    · rw [hname, fcgi_not_program] at hp
      cases hp


/-- … and a failing group stage makes `read_config` fail: the error reaches the caller as an error value -/
theorem groups_error_rejects_config (ini : Ini) (r : Result) (h : readConfig ini = .ok r) :
    ∃ cx gs, processGroupsFromParser cx ini = .ok gs ∧ r.groups = gs.map (mergeGroupEnv r.sup.environment) :=
  (read_config_environment ini r h).2


/-! ### non-vacuity: concrete files exercising the hypotheses above -/

def exCx : Ctx := { penv := [("ENV_HOME", .s "/root")], here := "/etc", hostNode := "box", dirs := ["/tmp"],
                    users := [("root", 0)], handlers := ["supervisor.dispatchers:default_handler"] }
def exSec : Section := ⟨"program:web", [("command", "/bin/web --port=80%(process_num)02d"), ("numprocs", "3"),
                                        ("numprocs_start", "5"), ("process_name", "%(program_name)s_%(process_num)02d"),
                                        ("environment", "PORT=\"80%(process_num)02d\"")]⟩

-- numprocs_law / ordering / per-process expansion hypotheses are satisfiable: three processes web_05 … web_07
example : (processesFromSection exCx .process exSec "web" "web").map (fun ps => ps.map (fun p => (p.name, p.command, p.environment)))
    = .ok [("web_05", "/bin/web --port=8005", [("PORT", "8005")]), ("web_06", "/bin/web --port=8006", [("PORT", "8006")]),
           ("web_07", "/bin/web --port=8007", [("PORT", "8007")])] := by decide +kernel

-- process_independent: the usual "prepend to an inherited variable" idiom gives every process the same value, built
-- from the inherited one (ENV_HOME = /root), and the program's own value reaches command and directory alike
def exSecSelf : Section := ⟨"program:w", [("command", "/bin/w --home=%(ENV_HOME)s"), ("numprocs", "3"), ("numprocs_start", "4"),
                                          ("process_name", "w%(process_num)d"), ("directory", "/srv%(ENV_HOME)s/%(process_num)d"),
                                          ("environment", "HOME=\"/x:%(ENV_HOME)s\",SLOT=\"%(process_num)d\"")]⟩

example : (match processesFromSection exCx .process exSecSelf "w" "w" with
           | .ok ps => ps.map (fun p => (p.name, p.command, p.directory.getD "None", p.environment))
           | .error _ => [])
    = [("w4", "/bin/w --home=/x:/root", "/srv/x:/root/4", [("HOME", "/x:/root"), ("SLOT", "4")]),
       ("w5", "/bin/w --home=/x:/root", "/srv/x:/root/5", [("HOME", "/x:/root"), ("SLOT", "5")]),
       ("w6", "/bin/w --home=/x:/root", "/srv/x:/root/6", [("HOME", "/x:/root"), ("SLOT", "6")])] := by decide +kernel

-- process_independent_of_earlier: the hypothesis is satisfiable (three rounds), dropping the first two leaves w6
example : (procLoop exCx .process exSecSelf
             { priority := 999, autostart := true, autorestart := .unexpected, startsecs := 1, startretries := 3, stopsignal := 15,
               stopwaitsecs := 10, stopasgroup := false, killasgroup := false, exitcodes := [0], redirect_stderr := false,
               numprocs := 3, numprocs_start := 4, environment_str := "HOME=\"/x:%(ENV_HOME)s\"", stdout_cmaxbytes := 0,
               stdout_events := false, stderr_cmaxbytes := 0, stderr_events := false, serverurl := none, uid := none,
               umask := none, process_name := "w%(process_num)d" }
             (freshXS (commonExps exCx "w" "w")) [4, 5, 6]).map (fun ps => ps.map (fun p => (p.name, p.environment)))
    = .ok [("w4", [("HOME", "/x:/root")]), ("w5", [("HOME", "/x:/root")]), ("w6", [("HOME", "/x:/root")])] := by decide +kernel

/-- the answer is an error message -/
def rejected {α : Type} (x : Except String α) : Bool := match x with | .error _ => true | .ok _ => false

-- each documented constraint is violated by a concrete section and rejected
example : rejected (processesFromSection exCx .process ⟨"program:a", [("command", "x"), ("numprocs", "2")]⟩ "a" "a") = true := by decide +kernel
example : rejected (processesFromSection exCx .process ⟨"program:a", [("command", "x"), ("stopasgroup", "true"), ("killasgroup", "false")]⟩ "a" "a") = true := by decide +kernel
example : rejected (processesFromSection exCx .process ⟨"program:a", [("numprocs", "1")]⟩ "a" "a") = true := by decide +kernel
example : rejected (processesFromSection exCx .process ⟨"program:a", [("command", "x"), ("process_name", "%(ENV_HOME)s")]⟩ "a" "a") = true := by decide +kernel
example : rejected (processesFromSection exCx .process ⟨"program:a", [("command", "x"), ("startsecs", "1.5")]⟩ "a" "a") = true := by decide +kernel
-- regression (finding F43, fixed): an ENV_ key taken from the environment of process 0 (A0) is not visible to process 1,
-- whose own environment defines A1 only; the same section with one process is accepted
example : rejected (processesFromSection exCx .process ⟨"program:a", [("command", "x %(ENV_A0)s"), ("numprocs", "2"),
    ("process_name", "a%(process_num)d"), ("environment", "A%(process_num)d=\"v\"")]⟩ "a" "a") = true := by decide +kernel
example : (processesFromSection exCx .process ⟨"program:a", [("command", "x %(ENV_A0)s"), ("numprocs", "1"),
    ("process_name", "a%(process_num)d"), ("environment", "A%(process_num)d=\"v\"")]⟩ "a" "a").map (fun ps => ps.map (fun p => p.command))
    = .ok ["x v"] := by decide +kernel
-- regression (finding F40, fixed): an escaped percent sign in a log file name is one literal percent sign
example : (processesFromSection exCx .process ⟨"program:a", [("command", "x"), ("stdout_logfile", "/tmp/a%%20b.log"),
    ("stderr_logfile", "/tmp/%%(program_name)s.err")]⟩ "a" "a").map (fun ps => ps.map (fun p => (p.stdout_logfile, p.stderr_logfile)))
    = .ok [(.path "/tmp/a%20b.log", .path "/tmp/%(program_name)s.err")] := by decide +kernel
example : rejected (poolEvents ["tick_5", "NOPE"]) = true := by decide +kernel
example : poolEvents ["tick_5", "PROCESS_STATE", "TICK_5"] = .ok ["Tick5Event", "ProcessStateEvent", "Tick5Event"] := by decide +kernel

/-- group sections take their programs: a concrete file with [group:g] programs=b,a and a free program c -/
def exIni : Ini := { sections := [⟨"supervisord", [("environment", "GLOBAL=\"sup\",A=\"s\"")]⟩,
                                  ⟨"program:a", [("command", "a"), ("environment", "A=\"p\"")]⟩,
                                  ⟨"program:b", [("command", "b"), ("priority", "1")]⟩,
                                  ⟨"group:g", [("programs", "b, a"), ("priority", "5")]⟩,
                                  ⟨"program:c", [("command", "c")]⟩],
                     environ := [], here := "/etc", hostNode := "box", dirs := [], users := [], handlers := [] }

example : (match readConfig exIni with
           | .ok r => r.groups.map fun g => (g.name, g.procs.map fun p => p.name)
           | .error _ => [])
    = [("g", ["b", "a"]), ("c", ["c"])] := by decide +kernel

example : (match readConfig exIni with
           | .ok r => r.groups.flatMap fun g => g.procs.map fun p => p.environment
           | .error _ => [])
    = [[("GLOBAL", "sup"), ("A", "s")], [("GLOBAL", "sup"), ("A", "p")], [("GLOBAL", "sup"), ("A", "s")]] := by decide +kernel

end Sv.Props.C14
