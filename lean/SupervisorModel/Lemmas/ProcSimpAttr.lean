import Lean
/-- simp set: every definition of the Subprocess model and every generated guard/update -/
register_simp_attr procdefs
