/-
  Byte-list and line-protocol helpers shared by all models.  No Mathlib.
-/
namespace Sv

abbrev Bytes := List UInt8

deriving instance DecidableEq for Except

/-- Bool-valued integer comparisons used by the generated guard definitions -/
def ilt (a b : Int) : Bool := decide (a < b)
def ile (a b : Int) : Bool := decide (a ≤ b)
@[simp] theorem ilt_iff (a b : Int) : ilt a b = true ↔ a < b := by simp [ilt]
@[simp] theorem ile_iff (a b : Int) : ile a b = true ↔ a ≤ b := by simp [ile]
@[simp] theorem ilt_false_iff (a b : Int) : ilt a b = false ↔ ¬ a < b := by simp [ilt]
@[simp] theorem ile_false_iff (a b : Int) : ile a b = false ↔ ¬ a ≤ b := by simp [ile]

/-- Python slices on byte lists with non-negative integer bounds -/
def pySliceFrom (b : Bytes) (lo : Int) : Bytes := b.drop lo.toNat
def pySliceTo (b : Bytes) (hi : Int) : Bytes := b.take hi.toNat
def pySlice (b : Bytes) (lo hi : Int) : Bytes := (b.take hi.toNat).drop lo.toNat

def hexDigit (n : Nat) : Char :=
  if n < 10 then Char.ofNat (48 + n) else Char.ofNat (87 + n)

def hexOfBytes (b : Bytes) : String :=
  if b.isEmpty then "-" else
  String.ofList (b.flatMap fun x => [hexDigit (x.toNat / 16), hexDigit (x.toNat % 16)])

def hexVal (c : Char) : Option Nat :=
  if '0' ≤ c ∧ c ≤ '9' then some (c.toNat - 48)
  else if 'a' ≤ c ∧ c ≤ 'f' then some (c.toNat - 87)
  else if 'A' ≤ c ∧ c ≤ 'F' then some (c.toNat - 55)
  else none

def bytesOfHexAux : List Char → Option Bytes
  | [] => some []
  | [_] => none
  | a :: b :: rest =>
    match hexVal a, hexVal b, bytesOfHexAux rest with
    | some x, some y, some r => some (UInt8.ofNat (x * 16 + y) :: r)
    | _, _, _ => none

def bytesOfHex (s : String) : Option Bytes :=
  if s = "-" then some [] else bytesOfHexAux s.toList

def bytesOfString (s : String) : Bytes := s.toUTF8.toList

/-- `key=value` lookup in an argument list -/
def kvGet (args : List String) (k : String) : Option String :=
  args.findSome? fun a =>
    match a.splitOn "=" with
    | key :: rest => if key = k ∧ !rest.isEmpty then some ("=".intercalate rest) else none
    | [] => none

def kvInt (args : List String) (k : String) : Option Int := (kvGet args k).bind String.toInt?
def kvNat (args : List String) (k : String) : Option Nat := (kvGet args k).bind String.toNat?
def kvBool (args : List String) (k : String) : Option Bool :=
  match kvGet args k with
  | some "1" => some true
  | some "0" => some false
  | _ => none

def words (s : String) : List String := (s.splitOn " ").filter (· ≠ "")

end Sv
