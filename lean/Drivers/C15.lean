import SupervisorModel.Basic.DriverKit
import SupervisorModel.Model.RereadIO
def main : IO Unit := Sv.driverMain [("reread", Sv.Reread.runCase), ("history", Sv.Reread.runHistory)]
