import SupervisorModel.Lemmas.SupInv
/-
  The daemon-level invariant through the RPCs, the deferred answers, the transitions and a whole
  pass; `passes_good`: it holds at every main-loop boundary of every run.
-/
set_option linter.unusedSimpArgs false
set_option linter.unusedVariables false
namespace Sv.Sup
open Sv Sv.Proc Sv.Gen.Proc Sv.Gen.Sup

theorem good_sguard' (f : M) (s : Sup) (hg : Good s) (h : Good s → s.err = none → s.exited = false → Good (f s)) :
    Good (sguard f s) := good_sguard f s hg (h hg)

theorem good_setOuts (s : Sup) (o : List SOut) (h : Good s) : Good { s with outs := o } := good_frame h rfl rfl rfl rfl
theorem good_setPending (s : Sup) (o : List Deferred) (h : Good s) : Good { s with pending := o } := good_frame h rfl rfl rfl rfl
theorem good_setMood (s : Sup) (m : Int) (h : Good s) : Good { s with mood := m } := good_frame h rfl rfl rfl rfl

theorem startRefusal_none {p : Proc} {missing : Bool} (h : startRefusal p missing = none) :
    p.state = .exited ∨ p.state = .stopped ∨ p.state = .backoff ∨ p.state = .fatal := by
  simp only [startRefusal] at h
  cases hs : p.state <;> simp_all [runningStates] <;> (split at h <;> simp_all)

theorem stopReport_ok (cfg : Cfg) (now : Int) (p : Proc) (os : List Out) :
    (stopReport cfg now { p := p, outs := os }).err = none := by
  simp only [stopReport, guard, Option.isSome_none, Bool.false_eq_true, if_false]
  split <;> simp [setP, guard]

theorem popKill_if_good {c : Prop} [Decidable c] (s : Sup) (hg : Good s) :
    Good (if c then popKill s else (some KillRes.ok, s)).2 := by
  split
  · rcases popKill_cases s with h' | ⟨k, ks, h'⟩ <;> rw [h']
    · exact hg
    · exact good_frame hg rfl rfl rfl rfl
  · exact hg

/-- what `stopProcess` does after `process.stop()` returned -/
theorem stop_tail_good (id name : Nat) (wait : Bool) (c : Bool) (code : Int) (s2 : Sup) (h2 : Good s2) :
    Good (if (c && wait) = true then
        match findPE (if c = true then reap s2 else s2).procs name with
        | some e2 =>
          if (!decide (e2.p.state ∈ stoppedStates)) = true then
            semit (.deferredStart id) { (if c = true then reap s2 else s2) with
              pending := (if c = true then reap s2 else s2).pending ++ [.stopWait id name] }
          else semit (.answer id faultSUCCESS false) (if c = true then reap s2 else s2)
        | none => (if c = true then reap s2 else s2)
      else semit (.answer id code false) (if c = true then reap s2 else s2)) := by
  have h3 : Good (if c = true then reap s2 else s2) := by
    split
    · exact reap_good _ h2
    · exact h2
  generalize (if c = true then reap s2 else s2) = s3 at h3 ⊢
  split
  · split
    · split
      · exact good_semit _ _ (good_setPending _ _ h3)
      · exact good_semit _ _ h3
    · exact h3
  · exact good_semit _ _ h3

/-- **every RPC keeps the invariant and raises no AssertionError** -/
theorem rpcOne_good (r : Rpc) (s : Sup) (hg : Good s) : Good (rpcOne r s) := by
  unfold rpcOne
  apply good_sguard _ _ hg
  intro he hx
  cases r with
  | shutdown id =>
    dsimp only
    split
    · exact good_semit _ _ hg
    · exact good_semit _ _ (good_setMood _ _ hg)
  | restart id =>
    dsimp only
    split
    · exact good_semit _ _ hg
    · exact good_semit _ _ (good_setMood _ _ hg)
  | addGroup id gid =>
    dsimp only
    split
    · exact good_semit _ _ hg
    · split
      · split <;> exact good_semit _ _ hg
      · apply good_semit
        exact ⟨sinv_addGroup hg.1 gid, hg.2⟩
  | removeGroup id gid =>
    dsimp only
    split
    · exact good_semit _ _ hg
    · split
      · exact good_semit _ _ hg
      · split
        · exact good_semit _ _ hg
        · apply good_semit
          exact ⟨sinv_removeGroup hg.1 gid, hg.2⟩
  | start id name wait missing =>
    dsimp only
    split
    · exact good_semit _ _ hg
    · split
      · exact good_semit _ _ hg
      · rename_i e hfe
        split
        · exact good_semit _ _ hg
        · rename_i href
          obtain ⟨hem, hen⟩ := findPE_some_mem hfe
          have hst := startRefusal_none href
          have hpid : e.p.pid = 0 := (hg.1.inv e hem).dead (by rcases hst with h | h | h | h <;> simp [h])
          simp only [hpid, beq_self_eq_true, if_true]
          rcases popSpawn_cases s with h | ⟨r, rs, hfr, h⟩ <;> rw [h] <;> dsimp only
          · exact good_envExhausted hg
          · refine good_sguard' _ _ (reap_good _ ?_) ?_
            · apply onProc_good _ _ r
              · exact good_frame hg rfl rfl rfl rfl
              · exact hfr
              intro e' hfe' hi _
              have h2 : some e = some e' := hfe.symm.trans hfe'
              cases h2
              exact ⟨spawn_ok [] _ _ _ _ hst, spawn_inv _ _ _ _ (wfSpawn_of_fresh hfr) hi, spawn_pstep _ _ _ _⟩
            · intro h2 _ _
              try dsimp only
              split
              · exact h2
              · split
                · exact good_semit _ _ h2
                · refine good_sguard' _ _ (procTransition_good _ _ h2) ?_
                  intro h3 _ _
                  try dsimp only
                  split
                  · exact h3
                  · split
                    · exact good_semit _ _ (good_setPending _ _ h3)
                    · exact good_semit _ _ h3
  | stop id name wait =>
    dsimp only
    split
    · exact good_semit _ _ hg
    · split
      · exact good_semit _ _ hg
      · rename_i e hfe
        split
        · exact good_envExhausted hg
        · apply stop_tail_good
          apply good_setOuts
          apply onProc_good _ _ .forkErr _ (popKill_if_good s hg) rfl
          intro e' _ hi _
          exact ⟨rpcStop_ok _ _ _ _ _ _, rpcStop_inv _ _ _ _ _ hi, Or.inl (rpcStop_same _ _ _ _ _)⟩
  | signal id name sig =>
    dsimp only
    split
    · exact good_semit _ _ hg
    · split
      · exact good_semit _ _ hg
      · rename_i e hfe
        split
        · exact good_semit _ _ hg
        · split
          · exact good_envExhausted hg
          · apply good_semit
            apply good_setOuts
            apply onProc_good _ _ .forkErr _ (popKill_if_good s hg) rfl
            intro e' _ hi _
            exact ⟨rpcSignal_ok _ _ _ _ _ _ _, rpcSignal_inv _ _ _ _ _ _ hi, Or.inl (rpcSignal_same _ _ _ _ _ _)⟩

theorem rpcGuarded_good (r : Rpc) (s : Sup) (hg : Good s) : Good (rpcGuarded r s) := by
  unfold rpcGuarded
  apply good_sguard _ _ hg
  intro _ _
  try dsimp only
  have h1 := rpcOne_good r s hg
  split
  · exact ⟨h1.1, by simp⟩
  · exact h1

theorem pollDeferred_good (d : Deferred) (s : Sup) (hg : Good s) : Good (pollDeferred d s) := by
  unfold pollDeferred
  apply good_sguard _ _ hg
  intro he hx
  cases d with
  | startWait id name =>
    dsimp only
    split
    · exact hg
    · split
      · exact good_semit _ _ hg
      · exact good_setPending _ _ hg
  | stopWait id name =>
    dsimp only
    have h1 : Good (onProc name (fun cfg => stopReport cfg s.env.now) s) := by
      apply onProc_good _ _ .forkErr _ hg rfl
      intro e _ hi _
      exact ⟨stopReport_ok _ _ _ _, stopReport_inv _ _ _ hi, Or.inl (stopReport_same _ _ _)⟩
    split
    · exact h1
    · split
      · exact good_semit _ _ h1
      · exact good_setPending _ _ h1

theorem pollAll_good (s : Sup) (hg : Good s) : Good (pollAll s) := by
  unfold pollAll
  apply good_sguard _ _ hg
  intro _ _
  try dsimp only
  exact foldl_good _ (fun acc d h => pollDeferred_good d acc h) _ _ (good_setPending _ _ hg)

theorem transitions_good (order : List (Nat × Nat)) (s : Sup) (hg : Good s) : Good (transitions order s) := by
  unfold transitions
  apply good_sguard _ _ hg
  intro _ _
  try dsimp only
  apply foldl_good _ _ _ _ hg
  intro acc ng h
  try dsimp only
  split
  · split
    · exact procTransition_good _ _ h
    · exact h
  · exact h

/-- **one pass of the main loop keeps the invariant and lets no AssertionError escape** -/
theorem pass_good (env : Env) (s : Sup) (hg : Good s) : Good (pass env s) := by
  unfold pass
  apply good_sguard _ _ hg
  intro _ _
  try dsimp only
  apply shutdownPhase1_good
  apply shutdownPhase2_good
  apply handleSignal_good
  apply reap_good
  apply transitions_good
  have h1 : Good (env.rpcs.foldl (fun acc r => rpcGuarded r acc) { s with env := env }) :=
    foldl_good _ (fun acc r h => rpcGuarded_good r acc h) _ _ (good_frame hg rfl rfl rfl rfl)
  split
  · exact pollAll_good _ h1
  · exact h1

/-- the daemon state after the passes `envs` (one environment per pass) -/
def passes (envs : List Env) (s : Sup) : Sup := envs.foldl (fun acc e => pass e acc) s

/-- **the invariant holds at every main-loop boundary**, whatever the environments answer -/
theorem passes_good (envs : List Env) (s : Sup) (h : Good s) : Good (passes envs s) :=
  foldl_good _ (fun acc e h => pass_good e acc h) _ _ h

/-- the daemon starts in a good state: distinct names, fresh process objects, sane `startsecs` -/
theorem init_good (procs dormant : List PE) (hn : ((procs ++ dormant).map (·.name)).Nodup)
    (hp : ∀ e ∈ procs, e.p = {}) (hc : ∀ e ∈ procs ++ dormant, 0 ≤ e.cfg.startsecs) :
    Good { procs := procs, dormant := dormant } := by
  refine ⟨⟨hn, ?_, ?_, ?_, ?_, rfl, by simp, hc⟩, by simp⟩
  · intro e he; rw [hp e he]; exact inv_init
  · intro e he hz; rw [hp e he] at hz; exact absurd rfl hz
  · intro pid n g hl; simp at hl
  · intro pid n g hl; simp at hl

end Sv.Sup
