import SupervisorModel.Generated.OutDisp
/-
  Model of `stripEscapes` (supervisor/dispatchers.py).  The `while` loop is written by hand
  (fuel = number of iterations, at most `len(s)` because `i` grows by at least one per
  iteration); every test, slice, search and increment is the definition regenerated from the
  source (`Sv.Gen.OutDisp.strip_*`).
-/
namespace Sv.Strip
open Sv.Gen.OutDisp

/-- the loop of `stripEscapes`; `result`, `show`, `i` are the Python locals -/
def stripGo (s : Bytes) : Nat → Bytes → Int → Int → Bytes
  | 0, result, _, _ => result
  | n + 1, result, sh, i =>
    if strip_g0 s result sh i then                        -- while i < L
      if strip_g1 s result sh i then                      -- show == 0 and s[i:i+1] in ANSI_TERMINATORS
        stripGo s n result (strip_a4 s result sh i) (strip_a10 s result sh i)
      else if strip_g2 s result sh i then                 -- elif show
        if strip_g3 s result sh i then                    -- n == -1
          strip_a6 s result sh i                          -- return result + s[i:]
        else
          let result' := strip_a7 s result sh i           -- result = result + s[i:n]
          let i' := strip_a8 s result sh i                -- i = n
          let sh' := strip_a9 s result sh i               -- show = 0
          stripGo s n result' sh' (strip_a10 s result' sh' i')
      else
        stripGo s n result sh (strip_a10 s result sh i)   -- i += 1
    else strip_a11 s result sh i                          -- return result

/-- `stripEscapes(s)` -/
def stripEscapes (s : Bytes) : Bytes :=
  stripGo s (s.length + 1) (strip_a0 s [] 0 0) (strip_a1 s [] 0 0) (strip_a2 s [] 0 0)

/-! line protocol: `case strip`, op `strip <hex>` → `<hex>` -/
def runCase (_cfg : List String) (ops : List String) : List String :=
  ops.map fun l =>
    match words l with
    | ["strip", h] =>
      match bytesOfHex h with
      | some b => hexOfBytes (stripEscapes b)
      | none => "bad-op"
    | _ => "bad-op"

end Sv.Strip
