"""
C08 -- capture mode extracts exactly what is between the tags.
Implementation side: the real POutputDispatcher (real Subprocess / ProcessConfig / loggers / BoundIO, real log
file), fed one read at a time.  Correspondence: Model/OutDisp.lean through drv_c08.  Monitors: an independent
reference splitter applied to the unfragmented stream, compared with what reached the log file, the
PROCESS_LOG events and the PROCESS_COMMUNICATION events.
"""
import itertools
from props import _outdisp as od
from props._outdisp import hexs, Cfg

ID = 'C08'
LEAN_PROPS = 'SupervisorModel.Props.C08'
DRIVER = 'drv_c08'
GENERATED = ['OutDisp']
TRUSTED = [
    "modelled, not verified: CPython bytes.split(sep, 1) (first-occurrence search, ValueError for an absent or empty separator), "
    "bytes slicing with negative bounds, bytes.endswith, bytes.find (Model/OutDispPy.lean, Model/OutDisp.lean splitFirst)",
    "the supervisor Logger/Handler/FileHandler/StreamHandler plumbing between `childlog.info(data)` and the file / BoundIO "
    "(exercised by the correspondence runs: the real classes write to a real file)",
    "the statement-level control flow of the hand-written models (recordDirect, logData, toggle, stripGo, fpaeLoop, boundWrite) against the methods: tied by correspondence (the driver executes recordDirect, proved equal to the two-layer model the theorems use)",
]
ASSUMPTIONS = [
    "a read returning b'' is the end of the stream (handle_read_event closes the dispatcher); theorems about complete streams "
    "quantify over fragmentations into non-empty reads followed by that end-of-file read",
    "log rotation and syslog are off for the channel (C19 covers rotation)",
]
RULE = ("a case = (dispatcher configuration, stream, fragmentation into reads, EOF or not). Streams: regression corpus; "
        "every 1- and 2-cut byte fragmentation of fixed tag-bearing streams; every fragmentation at symbol boundaries of every "
        "symbol string up to a length over {BEGIN, END, common tag prefix, 'BEGIN-->', 'END-->', x}; token-aware random streams "
        "(tags, tag prefixes, near-tags, invalid UTF-8, bulk) x random fragmentations x capture_maxbytes in {0,1,5,10,64,2MB}. "
        "non-trivial = the stream contains at least a tag prefix and is cut at least once; distinct = distinct (config, reads)")

B, E = od.DOC_BEGIN, od.DOC_END


def check_case(ctx, cfg, stream, chunks, run, eof):
    """the property statement over the implementation's observables (strip_ansi off)"""
    inp = {'cfg': cfg.json(), 'chunks': [hexs(c) for c in chunks], 'eof': eof}
    def bad(kind, what):
        ctx.violation(kind, what, inp)
    if run.bad_attr:
        bad('event-attribution', 'event carried the wrong process/pid/channel: %r' % (run.bad_attr[0],))
    if run.other_log():
        bad('bytes-in-other-channel-log', 'bytes appeared in the other channel\'s log: %r' % run.other_log()[:40])
    plogcat = b''.join(d for _, d in run.plog)
    if any(l != ('o' if cfg.channel == 'stdout' else 'e') for l, _ in run.plog):
        bad('plog-wrong-channel-class', 'PROCESS_LOG event of the other channel\'s class')
    if not cfg.events_on() and run.plog:
        bad('plog-while-disabled', 'PROCESS_LOG events although %s_events_enabled is off' % cfg.channel)
    if cfg.capture == 0:
        # tags are ordinary output
        if run.comm:
            bad('comm-event-with-capture-off', 'PROCESS_COMMUNICATION event with capture_maxbytes=0')
        if cfg.log and run.logged != stream:
            bad('capture-off-log-differs', 'capture off: log %r, stream %r' % (run.logged[:60], stream[:60]))
        if cfg.events_on() and plogcat != stream:
            bad('capture-off-plog-differs', 'capture off: PROCESS_LOG data %r, stream %r' % (plogcat[:60], stream[:60]))
        return
    plain, sections, open_ = od.ref_split(stream)
    for name, got, on in (('log', run.logged, cfg.log), ('plog', plogcat, cfg.events_on())):
        if not on:
            continue
        if eof:
            if got != plain:
                if plain.startswith(got):
                    bad('%s-plain-bytes-missing-at-eof' % name, '%s lacks %r of the bytes outside capture sections' % (name, plain[len(got):][:60]))
                else:
                    bad('%s-has-tag-or-captured-bytes' % name, '%s is %r, bytes outside capture sections are %r' % (name, got[:80], plain[:80]))
        elif not plain.startswith(got):
            bad('%s-has-tag-or-captured-bytes' % name, 'before EOF %s is %r, not a prefix of %r' % (name, got[:80], plain[:80]))
    if eof:
        if len(run.comm) != len(sections):
            bad('comm-event-count', '%d closed sections, %d PROCESS_COMMUNICATION events' % (len(sections), len(run.comm)))
    elif len(run.comm) > len(sections):
        bad('comm-event-count', 'more events (%d) than closed sections (%d)' % (len(run.comm), len(sections)))
    for d, sec in zip(run.comm, sections):
        if not sec.endswith(d):
            bad('comm-data-not-suffix', 'event data %r is not a trailing part of the enclosed bytes %r' % (d[:60], sec[:60]))
        if len(d) > cfg.capture:
            bad('comm-data-exceeds-maxbytes', 'event data of %d bytes with capture_maxbytes=%d' % (len(d), cfg.capture))
        if len(sec) <= cfg.capture and d != sec:
            bad('comm-data-truncated-though-it-fits', 'enclosed %r fits in %d bytes, event data %r' % (sec[:60], cfg.capture, d[:60]))


def nontrivial(stream, chunks):
    return len(chunks) > 1 and (b'<!--X' in stream or b'<' in stream)


class Batch:
    def __init__(self, ctx):
        self.ctx, self.cases, self.impls = ctx, [], []

    def one(self, cfg, stream, chunks, eof=True, monitor=True, tag=''):
        ctx = self.ctx
        run, ops, lines = od.run_case(cfg, chunks, ctx.scratch, eof)
        if monitor and not cfg.strip:
            check_case(ctx, cfg, stream, chunks, run, eof)
        self.cases.append((cfg.line(), ops)); self.impls.append(lines)
        ctx.case_done((cfg.line(), tuple(ops)), nontrivial(stream, chunks))
        ctx.count('cases' + tag)
        ctx.count('reads', len(chunks))
        ctx.count('comm-events', len(run.comm))
        ctx.count('capture=%s' % ('0' if cfg.capture == 0 else 'on'))
        if any(len(c) > cfg.capture > 0 for c in chunks): ctx.count('read-larger-than-capture_maxbytes')
        return run

    def flush(self, name):
        if self.cases:
            self.ctx.correspond(name, self.cases, self.impls)
        self.cases, self.impls = [], []


# regression corpus: (name, cfg kwargs, chunks, eof)
CORPUS = [
    ('F3 hello stays in buffer at EOF', dict(capture=10), [b'hello\n'], True),
    ('F3 END tag is the last 22 bytes', dict(capture=10), [B + b'abc' + E], True),
    ('F3 END tag split, last read short', dict(capture=10), [B + b'abc' + E[:10], E[10:]], True),
    ('F3 naive repair: stream ends in exactly BEGIN', dict(capture=10), [b'x' * 30 + B], True),
    ('F3 naive repair: same, tag split', dict(capture=10), [b'x' * 30 + B[:5], B[5:]], True),
    ('F3 naive repair: stream ends in a BEGIN prefix', dict(capture=10), [b'x' * 30 + B[:7]], True),
    ('F4 PROCESS_LOG of captured bytes', dict(capture=100, oev=1), [b'a' + B + b'secret' + E + b'b'], True),
    ('F4 same, byte by byte', dict(capture=100, oev=1), [bytes([c]) for c in b'a' + B + b'secret' + E + b'b'], True),
    ('F5 one read larger than capture_maxbytes', dict(capture=5), [B + b'0123456789abcdef' + E], True),
    ('F5 second write overflows', dict(capture=5), [B + b'0123', b'456789abcdefghijklmnopqrstuvwxyz' * 2, E + b'tail' * 10], True),
    ('nested BEGIN', dict(capture=50, oev=1), [B + b'a' + B + b'b' + E + b'c' + E + b'd' * 30], True),
    ('END before BEGIN', dict(capture=50), [E + b'a' + B + b'b' + E], True),
    ('unterminated section', dict(capture=50, oev=1), [b'a' * 30 + B + b'never closed' * 3], True),
    ('capture off: tags are output', dict(capture=0, oev=1), [b'a' + B[:9], B[9:] + b'x' + E], True),
    ('stderr channel', dict(capture=20, channel='stderr', eev=1, oev=0), [b'e1' + B + b'cap' + E + b'e2' * 20], True),
    ('stderr channel, only stdout events on', dict(capture=20, channel='stderr', eev=0, oev=1), [b'e1' + B + b'cap' + E + b'e2' * 20], True),
    ('no log file, events only', dict(capture=20, log=0, oev=1), [b'p' * 40 + B + b'cap' + E + b'q' * 40], True),
    ('child still running (no EOF)', dict(capture=20), [b'p' * 40 + B + b'cap' + E + b'q' * 40 + B[:11]], False),
    ('overlapping tag prefix <!--<!--X...', dict(capture=20), [b'<!--' + B + b'x' + E[:3] + E + b'<!--XSUPERVISOR:'], True),
]

FIXED = [b'a' + B + b'bc' + E + b'd', b'<!--' + B + b'<!--X' + E + E[:9] + B[:16] + b'END', B + E + B + b'q' + E + b'zz' * 14]


def run(ctx):
    rng = ctx.rng
    bt = Batch(ctx)
    # 1. regression corpus
    for name, kw, chunks, eof in CORPUS:
        cfg = Cfg(**kw)
        run_ = bt.one(cfg, b''.join(chunks), chunks, eof, tag=':corpus')
        if len(ctx.samples) < 2:
            ctx.sample({'corpus': name, 'case': cfg.line(), 'ops': bt.cases[-1][1][:3], 'impl': bt.impls[-1][:3]})
    bt.flush('outdisp-corpus')
    # 2. every 1-cut and (thorough: every 2-cut) byte fragmentation of fixed streams
    for stream in FIXED:
        n = len(stream)
        cutsets = [[c] for c in range(1, n)]
        if ctx.tier == 'thorough' or ctx.boost > 1:
            cutsets += [list(p) for p in itertools.combinations(range(1, n), 2)]
        else:
            cutsets += [sorted(rng.sample(range(1, n), 2)) for _ in range(150)]
        for cuts in cutsets:
            cfg = Cfg(capture=rng.choice([3, 10, 100]), oev=rng.randrange(2), log=1)
            bt.one(cfg, stream, od.fragment(stream, cuts), True, tag=':bytecuts')
    bt.flush('outdisp-bytecuts')
    # 3. every fragmentation at symbol boundaries of every symbol string up to a length
    maxlen = 4 if ctx.tier == 'quick' else 5
    if ctx.boost > 1:
        maxlen += 1 if ctx.tier == 'quick' else 0
    for w in od.symbol_streams(maxlen):
        units = [od.SYMBOLS[s] for s in w]
        stream = b''.join(units)
        cfg = Cfg(capture=10, oev=1, log=1)
        for cuts in od.all_cuts(len(units)):
            chunks, p = [], 0
            for c in cuts + [len(units)]:
                chunks.append(b''.join(units[p:c])); p = c
            chunks = [c for c in chunks if c]
            bt.one(cfg, stream, chunks, True, tag=':symbols')
        if len(bt.cases) > 20000:
            bt.flush('outdisp-symbols')
    bt.flush('outdisp-symbols')
    if ctx.tier == 'thorough':
        # longer symbol strings (sampled), still every fragmentation at symbol boundaries
        for _ in range(ctx.n(0, 1200)):
            w = [rng.choice('BEPbex') for _ in range(rng.randrange(6, 9))]
            units = [od.SYMBOLS[s] for s in w]
            stream = b''.join(units)
            cfg = Cfg(capture=rng.choice([10, 40]), oev=1, log=1)
            for cuts in od.all_cuts(len(units)):
                chunks, p = [], 0
                for c in cuts + [len(units)]:
                    chunks.append(b''.join(units[p:c])); p = c
                bt.one(cfg, stream, [c for c in chunks if c], True, tag=':symbols-long')
            if len(bt.cases) > 20000:
                bt.flush('outdisp-symbols-long')
        bt.flush('outdisp-symbols-long')
    # 4. token-aware random streams x random fragmentations x configurations
    for i in range(ctx.n(1500, 30000)):
        stream = od.gen_stream(rng)
        chunks = od.fragment(stream, od.gen_cuts(rng, len(stream), stream))
        ch = rng.choice(['stdout', 'stdout', 'stderr'])
        cfg = Cfg(capture=rng.choice([0, 1, 5, 10, 10, 64, 64, 2 << 20]), log=rng.choice([1, 1, 1, 0]),
                  strip=1 if rng.random() < 0.1 else 0, channel=ch, oev=rng.randrange(2), eev=rng.randrange(2))
        eof = rng.random() < 0.85
        bt.one(cfg, stream, chunks, eof, tag=':random')
        if i == 5:
            ctx.sample({'case': cfg.line(), 'ops': bt.cases[-1][1][:4], 'impl': bt.impls[-1][:4]})
    bt.flush('outdisp-random')
    # 4b. many capture sections in one life of the dispatcher (3-7), with payloads below, at and above capture_maxbytes,
    #     empty sections, plain output between them, random fragmentation: every section is its own event, nothing
    #     of an earlier section may show up in a later one
    for i in range(ctx.n(400, 6000)):
        cap = rng.choice([1, 5, 10, 10, 64, 2 << 20])
        pieces = []
        for _ in range(rng.randrange(3, 8)):
            if rng.random() < 0.6:
                pieces.append(bytes(rng.choice(b'abcxyz \n') for _ in range(rng.randrange(0, 9))))
            k = rng.choice([0, 0, 1, 2, cap - 1 if cap < 100 else 7, cap if cap < 100 else 9, cap + 1 if cap < 100 else 30, rng.randrange(0, 40)])
            pieces.append(B + bytes(rng.choice(b'0123456789') for _ in range(max(0, k))) + E)
        if rng.random() < 0.5:
            pieces.append(bytes(rng.choice(b'abcxyz \n') for _ in range(rng.randrange(1, 30))))
        stream = b''.join(pieces)
        mode = rng.random()
        if mode < 0.25:
            chunks = [stream]
        elif mode < 0.5:
            chunks = [p for p in pieces if p]
        else:
            chunks = od.fragment(stream, od.gen_cuts(rng, len(stream), stream))
        cfg = Cfg(capture=cap, log=1, channel=rng.choice(['stdout', 'stderr']), oev=rng.randrange(2), eev=rng.randrange(2))
        bt.one(cfg, stream, chunks, rng.random() < 0.8, tag=':many-sections')
    bt.flush('outdisp-many-sections')
    # 5. the helper functions against the real ones
    helper_correspondence(ctx)


def helper_correspondence(ctx):
    from supervisor.loggers import BoundIO
    from supervisor.medusa.asynchat_25 import find_prefix_at_end
    rng = ctx.rng
    cases, impls = [], []
    for _ in range(ctx.n(300, 3000)):
        mx = rng.choice([1, 2, 5, 10, 16])
        io = BoundIO(mx)
        ops, out = [], []
        total = b''
        for _ in range(rng.randrange(1, 7)):
            b = bytes(rng.randrange(97, 123) for _ in range(rng.choice([0, 1, 2, 3, 5, 9, 17, 40])))
            io.write(b); total += b
            v = io.getvalue()
            ops.append('write ' + hexs(b)); out.append(hexs(v))
            ctx.count('boundio-writes')
            inp = {'maxbytes': mx, 'writes': [o.split()[1] for o in ops]}
            if len(v) > mx:
                ctx.violation('boundio-exceeds-maxbytes', 'BoundIO(%d) holds %d bytes' % (mx, len(v)), inp)
            if not total.endswith(v):
                ctx.violation('boundio-not-suffix', 'BoundIO content %r is not a trailing part of what was written %r' % (v, total), inp)
            if len(total) <= mx and v != total:
                ctx.violation('boundio-dropped-though-it-fits', 'BoundIO(%d) holds %r after %r' % (mx, v, total), inp)
        cases.append(('case boundio max=%d' % mx, ops)); impls.append(out)
        ctx.case_done(('boundio', mx, tuple(ops)), True)
    ctx.correspond('boundio', cases, impls)
    cases, impls = [], []
    ops, out = [], []
    for needle in (B, E, b'\r\n', b'ab', b'aab', b'abab', b'x'):
        for _ in range(ctx.n(40, 400)):
            k = rng.randrange(0, len(needle))
            hay = bytes(rng.choice(b'ab<!-') for _ in range(rng.randrange(0, 6))) + needle[:k]
            if rng.random() < 0.2:
                hay = hay[:-1]
            if needle in hay:
                continue        # find_prefix_at_end is only called when the needle is absent
            ops.append('fpae %s %s' % (hexs(hay), hexs(needle)))
            out.append(str(find_prefix_at_end(hay, needle)))
            ctx.count('fpae-calls')
    cases.append(('case fpae', ops)); impls.append(out)
    ctx.correspond('find_prefix_at_end', cases, impls)


def replay(ctx, data):
    inp = data['input']
    if 'cfg' not in inp:
        return helper_correspondence(ctx)
    cfg = Cfg(**inp['cfg'])
    chunks = [bytes.fromhex(h) if h != '-' else b'' for h in inp['chunks']]
    bt = Batch(ctx)
    bt.one(cfg, b''.join(chunks), chunks, inp.get('eof', True))
    bt.flush('outdisp-replay')


TECHNIQUE = ("Lean 4 refinement proof: the dispatcher's scanner (record_output, find_prefix_at_end, regenerated guards/slices) refines a "
             "reference splitter for every fragmentation (monoid-action form); differential correspondence against the real POutputDispatcher")
LEVEL_TEXT = ("scan_refines / feed_refines / run_complete are proved for every dispatcher state, every stream and every fragmentation "
              "into reads (no bound), over definitions regenerated from dispatchers.py, asynchat_25.py and loggers.py on each run; "
              "the model is run against the real dispatcher on exhaustive small fragmentations and token-aware random streams")
LEVEL_NOTE = ("trusts Lean's kernel, extract.py's expression translation, CPython bytes.split/slicing/endswith as modelled, the logger "
              "plumbing; statement-level control flow of the models is tied by correspondence")
DESIGN_REF = "DESIGN.md section 6, C08"
