-- stub: replaced by the property author
namespace Sv.Props.C07
end Sv.Props.C07
