import SupervisorModel.Model.Config
/-
  C14 — a configuration file determines exactly the configured process set.
  Property theorems over Model/Config.lean; every table and guard they mention (`Sv.Gen.Config.*`) is
  regenerated from /repo on each run.
-/
set_option linter.unusedSimpArgs false
namespace Sv.Props.C14
open Sv Sv.Config Sv.Gen.Config

/-! ### dictionaries -/

theorem lookup_cons' {α : Type} (k a : String) (b : α) (es : List (String × α)) :
    List.lookup k ((a, b) :: es) = if k = a then some b else List.lookup k es := by
  rw [List.lookup_cons]
  by_cases h : k = a
  · subst h; simp
  · have : (k == a) = false := by simp [h]
    simp [this, h]

theorem lookup_dset {α : Type} (d : List (String × α)) (k k' : String) (v : α) :
    (dset d k' v).lookup k = if k = k' then some v else d.lookup k := by
  induction d with
  | nil => simp only [dset, lookup_cons', List.lookup_nil]
  | cons hd tl ih =>
    obtain ⟨a, b⟩ := hd
    simp only [dset]
    by_cases h : a = k'
    · subst h; simp only [beq_self_eq_true, if_true, lookup_cons']
      by_cases h2 : k = a <;> simp [h2]
    · have : (a == k') = false := by simp [h]
      simp only [this, lookup_cons', ih]
      by_cases h2 : k = a
      · subst h2; simp [h]
      · simp [h2, lookup_cons', ih]

theorem lookup_append' {α : Type} (l₁ l₂ : List (String × α)) (k : String) :
    (l₁ ++ l₂).lookup k = (l₁.lookup k <|> l₂.lookup k) := by
  induction l₁ with
  | nil => simp
  | cons hd tl ih =>
    obtain ⟨a, b⟩ := hd
    simp only [List.cons_append, lookup_cons', ih]
    by_cases h : k = a <;> simp [h]

theorem lookup_dupdate {α : Type} (e d : List (String × α)) (k : String) :
    (dupdate d e).lookup k = (e.reverse.lookup k <|> d.lookup k) := by
  induction e generalizing d with
  | nil => simp [dupdate]
  | cons hd tl ih =>
    obtain ⟨a, b⟩ := hd
    simp only [dupdate, List.foldl_cons] at ih ⊢
    rw [ih, lookup_dset]
    simp only [List.reverse_cons, lookup_append', lookup_cons', List.lookup_nil]
    cases List.lookup k tl.reverse <;> by_cases h : k = a <;> simp [h]

/-- **env_precedence.**  The child environment is the [supervisord] environment overridden by the program's:
    a variable has the program's value when the program sets it (the last binding, as in a Python dict),
    otherwise the [supervisord] value. -/
theorem env_precedence (sup prog : KV) (k : String) :
    (mergeEnv sup prog).lookup k = (prog.reverse.lookup k <|> sup.lookup k) := by
  simp [mergeEnv, lookup_dupdate]

example : (mergeEnv [("A", "sup"), ("B", "sup")] [("A", "prog")]).lookup "A" = some "prog" := by decide
example : (mergeEnv [("A", "sup"), ("B", "sup")] [("A", "prog")]).lookup "B" = some "sup" := by decide

/-- every process of the result has the merged environment -/
theorem env_merged_everywhere (sup : KV) (g : GConfig) :
    (mergeGroupEnv sup g).procs.map (·.environment) = g.procs.map (fun p => mergeEnv sup p.environment) := by
  simp [mergeGroupEnv, List.map_map, Function.comp_def]

/-! ### documented defaults -/

/-- the value a coded default denotes; a default that names another local (killasgroup ← stopasgroup)
    is that option's own converted default -/
def dfltRaw (scope : String) : Dflt → Option Raw
  | .none => some .none
  | .str s => some (.str s)
  | .int n => some (.int n)
  | .bool b => some (.bool b)
  | .auto => some .auto
  | .required => none
  | .ref r =>
    match findRow scope r with
    | none => none
    | some row =>
      match row.dflt with
      | .str s => match convert row.conv (.str s) with
        | .ok (.bool b) => some (.bool b)
        | .ok (.int n) => some (.int n)
        | .ok (.str t) => some (.str t)
        | _ => none
      | _ => none

/-- converted value of an option as the model computes it (log file names go through `logfile_name`) -/
def effective (row : OptRow) (r : Raw) : Option (CVal ⊕ LogFile) :=
  if strContains "_logfile" row.opt && row.conv == "" then
    match logfileName [] r with
    | .ok l => some (.inr l)
    | .error _ => none
  else
    match convert row.conv r with
    | .ok v => some (.inl v)
    | .error _ => none

/-- does the documented default of one option agree with the coded one? -/
def docAgrees (d : DocRow) : Bool :=
  match findRow d.scope d.opt with
  | none => false
  | some row =>
    if d.kind == "value" then
      match dfltRaw d.scope row.dflt with
      | none => false
      | some r => (effective row (.str d.text)).isSome && effective row (.str d.text) == effective row r
    else if d.kind == "unset" then row.dflt == .none || row.dflt == .str ""
    else true

/-- **defaults_documented.**  For every option of the [program:x], [group:x] and [supervisord] sections that
    docs/configuration.rst documents, the default written in options.py and the documented default denote the
    same value under the option's converter (loglevel excepted: its converter lives in the logging module,
    which is not modelled).  Decided over the two generated tables. -/
theorem defaults_documented :
    ∀ d ∈ docTable, d.scope ∈ ["program", "group", "supervisord"] → d.opt ≠ "loglevel" → docAgrees d = true := by
  decide

end Sv.Props.C14
