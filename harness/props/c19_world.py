"""
C19, the clear / reopen fan-out through the real code.

A *world* is what supervisord has at run time as far as logs are concerned:
  * the activity logger built by the real ServerOptions.make_logger() in one of its configurations
    (daemon / nodaemon / silent, plain / rotating with and without backups, log level INFO / DEBG;
    optionally one more handler without reopen()/remove() in front of or behind the others),
  * process groups (real ProcessGroup) of real Subprocess objects whose dispatchers come from the real
    ProcessConfig / EventListenerConfig .make_dispatchers() over real pipes: stdout and stderr logs,
    plain or rotating, or none, stderr possibly redirected, and the stdin dispatcher,
  * the real Supervisor (handle_signal) and the real SupervisorNamespaceRPCInterface.
Operations are the ones an operator has: activity-log messages, child output, clearLog,
clearProcessLogs(name), clearAllProcessLogs, SIGUSR2 (through the real signal receiver and
Supervisor.handle_signal), ServerOptions.reopenlogs(), and files removed / replaced from outside.
Observable: every log's directory (names and contents) after every step; what is handed to a logger is
observed at the logger seam (Logger.log / Logger.info), the clock of LogRecord is frozen.

Two more dimensions:
  * where the bounds come from (`via`): 'attr' = attributes set on the options object, or 'conf' = a
    configuration file (and command line) written by the harness and parsed by the real
    ServerOptions.realize(): `[supervisord] logfile_maxbytes / logfile_backups`, `-y / -z`,
    `[program:x] / [eventlistener:x] stdout_/stderr_logfile_maxbytes / _backups`, each possibly not written
    at all; groups come from the real process_group_configs through Supervisor.add_process_group().
    `expected_bounds()` states what the operator configured (from the documentation of the options, not from the
    code); `handler_params()` reads the parameters of the handler that writes to each configured path.
  * the mood of the daemon (RUNNING / RESTARTING / SHUTDOWN), reached through the real handle_signal
    (SIGTERM, SIGINT, SIGQUIT, SIGHUP) or the shutdown / restart RPCs; every other operation can come in any mood.
"""
import io, os, re, signal, sys, time

FMT = '%(asctime)s %(levelname)s %(message)s\n'       # ServerOptions.make_logger's format


class _FrozenTime:
    """stands in for the `time` module inside supervisor.loggers: LogRecord stamps every record with t = 0"""
    def time(self): return 0.0
    def localtime(self, t=None): return time.gmtime(0)
    def strftime(self, f, t): return time.strftime(f, t)


def hexs(b):
    return b.hex() if b else '-'


def listing(d):
    res, other = {}, []
    for fn in os.listdir(d):
        m = re.fullmatch(r'log(?:\.(\d+))?', fn)
        if not m or (m.group(1) and str(int(m.group(1))) != m.group(1)):
            other.append(fn); continue
        with open(os.path.join(d, fn), 'rb') as f:
            res[int(m.group(1) or 0)] = f.read()
    return res, other


# documented defaults (docs/configuration.rst: logfile_maxbytes 50MB, logfile_backups 10; the same for
# stdout_logfile_maxbytes / stdout_logfile_backups and stderr)
DOC_DEFAULT_MAXBYTES = 50 * 1024 * 1024
DOC_DEFAULT_BACKUPS = 10
UNITS = {'KB': 1024, 'MB': 1024 * 1024, 'GB': 1024 * 1024 * 1024}          # docs: "KB", "MB", "GB" multipliers


def bytes_text(n, unit=''):
    """how the operator writes n bytes; with a unit when n is a multiple of it"""
    if unit and n and n % UNITS[unit.upper()] == 0:
        return '%d%s' % (n // UNITS[unit.upper()], unit)
    return '%d' % n


def expected_act(w):
    """[maxbytes, backups] the operator configured for the activity log: command line over file over documented default"""
    cli = w.get('cli') or {}
    mb = cli['maxbytes'] if 'maxbytes' in cli else w['maxbytes'] if w['maxbytes'] is not None else DOC_DEFAULT_MAXBYTES
    bk = cli['backups'] if 'backups' in cli else w['backups'] if w['backups'] is not None else DOC_DEFAULT_BACKUPS
    return [mb, bk]


def expected_chan(c):
    return [c[0] if c[0] is not None else DOC_DEFAULT_MAXBYTES, c[1] if c[1] is not None else DOC_DEFAULT_BACKUPS]


def chan_cfg(c):
    """[maxbytes, backups] -> the per-log configuration the monitors and the model use"""
    return {'rotating': bool(c[0]), 'maxbytes': c[0], 'backups': c[1]}


class World:
    def __init__(self, root, w):
        from supervisor import loggers, events
        from supervisor.options import ServerOptions, ProcessConfig, EventListenerConfig, ProcessGroupConfig
        from supervisor.process import ProcessGroup
        from supervisor.supervisord import Supervisor
        from supervisor.rpcinterface import SupervisorNamespaceRPCInterface
        self.loggers = loggers
        self.w = w
        self.root = root
        os.makedirs(root)
        self._saved_time = loggers.time
        loggers.time = _FrozenTime()
        self.dirs = {}              # logid -> directory
        self.cfgs = {}              # logid -> {'rotating','maxbytes','backups'}
        self.pipes = []
        self.events = []            # seam observations of the running operation
        try:
            self._build(ServerOptions, ProcessConfig, EventListenerConfig, ProcessGroupConfig, ProcessGroup, Supervisor,
                        SupervisorNamespaceRPCInterface)
        except BaseException:
            self.close()
            raise

    # ---- construction ---------------------------------------------------------------------------
    def _logdir(self, logid):
        d = os.path.join(self.root, logid.replace('.', '_'))
        os.makedirs(d)
        self.dirs[logid] = d
        return os.path.join(d, 'log')

    def _options_class(self, ServerOptions):
        """ServerOptions with the logger seam installed at the moment make_logger() has attached the handlers and is
        about to replay the parsing messages into them (so that those messages are observed like any other)"""
        world = self
        class Opts(ServerOptions):
            def _log_parsing_messages(self, logger):
                world._install_seam(self, logger)
                ServerOptions._log_parsing_messages(self, logger)
        return Opts

    def _install_seam(self, opts, logger):
        loggers, w = self.loggers, self.w
        self.bare = None
        if w.get('extra', 'none') != 'none':
            # one more handler, of the base class: it can emit but has neither reopen() nor remove()
            self.bare = io.BytesIO()
            h = loggers.Handler(self.bare)
            h.setFormat(FMT); h.setLevel(logger.level)
            if w['extra'] == 'front': logger.handlers.insert(0, h)
            else: logger.handlers.append(h)
        # the logger seam: everything handed to the activity logger, with the directories as they are right after
        orig_log = logger.log
        def log(level, msg, **kw):
            r = orig_log(level, msg, **kw)
            line = b''
            if level >= logger.level:
                line = (FMT % loggers.LogRecord(level, msg, **kw).asdict()).encode('utf-8')
            self.events.append(('act', line, self.snapshot()))
            return r
        logger.log = log

    def conf_text(self):
        """the configuration file an operator would write for this world (via = 'conf')"""
        w = self.w
        act = self._logdir('act')
        L = ['[supervisord]', 'logfile=%s' % act, 'pidfile=%s' % os.path.join(self.root, 'pid'), 'childlogdir=%s' % self.root,
             'nodaemon=%s' % ('true' if w['nodaemon'] else 'false'), 'silent=%s' % ('true' if w['silent'] else 'false'),
             'loglevel=%s' % {'INFO': 'info', 'DEBG': 'debug'}[w['level']]]
        if w['maxbytes'] is not None: L.append('logfile_maxbytes=%s' % bytes_text(w['maxbytes'], w.get('unit', '')))
        if w['backups'] is not None: L.append('logfile_backups=%d' % w['backups'])
        if w.get('user'): L.append('user=root')
        L.append('')
        self.names = {}
        for gi, g in enumerate(w['groups']):
            members = []
            for pi, p in enumerate(g):
                if p['kind'] == 'l':
                    if len(g) != 1 or p['err'] == 'x':
                        raise ValueError('a configured event listener is a group of its own and keeps its stderr')
                    sec, gname = 'g%d' % gi, 'g%d' % gi
                    L += ['[eventlistener:%s]' % sec, 'events=TICK_5', 'priority=%d' % (10 + gi)]
                else:
                    sec, gname = 'g%dp%d' % (gi, pi), 'g%d' % gi
                    L += ['[program:%s]' % sec, 'priority=%d' % (10 + pi)]
                    members.append(sec)
                self.names[(gi, pi)] = (gname, sec)
                L += ['command=/bin/true', 'autostart=false']
                for ch, key in (('o', 'out'), ('e', 'err')):
                    name = {'o': 'stdout', 'e': 'stderr'}[ch]
                    c = p[key]
                    if c == 'x':
                        L.append('redirect_stderr=true')
                        if p.get('xfile'):
                            # a file name that the documentation says is ignored (and warned about at start-up)
                            L.append('stderr_logfile=%s' % os.path.join(self.root, 'ignored_%d_%d' % (gi, pi)))
                    elif c is None:
                        L.append('%s_logfile=NONE' % name)
                    else:
                        logid = '%d.%d.%s' % (gi, pi, ch)
                        L.append('%s_logfile=%s' % (name, self._logdir(logid)))
                        if c[0] is not None: L.append('%s_logfile_maxbytes=%s' % (name, bytes_text(c[0], p.get('unit', ''))))
                        if c[1] is not None: L.append('%s_logfile_backups=%d' % (name, c[1]))
                        self.cfgs[logid] = chan_cfg(expected_chan(c))
                L.append('')
            if members:
                L += ['[group:g%d]' % gi, 'programs=%s' % ','.join(members), 'priority=%d' % (10 + gi), '']
        return '\n'.join(L)

    def cli_args(self, conf):
        w = self.w
        cli = w.get('cli') or {}
        args = ['-c', conf]
        long = w.get('cliform', 'short') == 'long'
        if 'maxbytes' in cli:
            t = bytes_text(cli['maxbytes'], w.get('cliunit', ''))
            args += ['--logfile_maxbytes=' + t] if long else ['-y', t]
        if 'backups' in cli:
            args += ['--logfile_backups=%d' % cli['backups']] if long else ['-z', '%d' % cli['backups']]
        return args

    def _build(self, ServerOptions, ProcessConfig, EventListenerConfig, ProcessGroupConfig, ProcessGroup, Supervisor, RPC):
        loggers, w = self.loggers, self.w
        self.boot_events = []
        self.via = w.get('via', 'attr')
        opts = self.opts = self._options_class(ServerOptions)()
        self.cfgs['act'] = chan_cfg(expected_act(w) if self.via == 'conf' else [w['maxbytes'], w['backups']])
        if self.via == 'conf':
            text = self.conf_text()
            conf = os.path.join(self.root, 'supervisord.conf')
            with open(conf, 'w') as f:
                f.write(text)
            self.conf = text
            saved_err = sys.stderr
            sys.stderr = cap = io.StringIO()
            try:
                try:
                    opts.realize(args=self.cli_args(conf), doc='', progname='supervisord')     # the real thing
                except SystemExit:
                    raise ValueError('the harness wrote a configuration that supervisord rejects: %s\n%s' % (cap.getvalue(), text))
            finally:
                sys.stderr = saved_err
        else:
            opts.logfile = self._logdir('act')
            opts.loglevel = getattr(loggers.LevelsByName, w['level'])
            opts.nodaemon, opts.silent = w['nodaemon'], w['silent']
            opts.logfile_maxbytes, opts.logfile_backups = w['maxbytes'], w['backups']
            opts.strip_ansi = False
        self.stdout = io.StringIO()
        self.bare = None
        saved = sys.stdout
        sys.stdout = self.stdout
        try:
            opts.make_logger()                      # the real thing; the seam goes in before the parsing messages are replayed
        finally:
            sys.stdout = saved
        self.boot_events = list(self.events)
        del self.events[:]
        self.fmtpre = (FMT % loggers.LogRecord(loggers.LevelsByName.INFO, '').asdict()).encode('utf-8')[:-1]

        self.sup = Supervisor(opts)
        self.procs = {}
        if self.via == 'conf':
            for config in opts.process_group_configs:
                self.sup.add_process_group(config)                          # after_setuid(), make_group(): the real thing
            for (gi, pi), (gname, pname) in self.names.items():
                proc = self.sup.process_groups[gname].processes[pname]
                self._attach(gi, pi, proc)
        else:
            self.names = {}
            groups = {}
            for gi, g in enumerate(w['groups']):
                pconfigs = []
                for pi, p in enumerate(g):
                    params = dict(name='p%d' % pi, uid=None, command='/bin/true', directory=None, umask=None, priority=999 - pi,
                                  autostart=False, autorestart=False, startsecs=1, startretries=3,
                                  stdout_capture_maxbytes=0, stdout_events_enabled=False, stdout_syslog=False,
                                  stderr_capture_maxbytes=0, stderr_events_enabled=False, stderr_syslog=False,
                                  stopsignal=signal.SIGTERM, stopwaitsecs=1, stopasgroup=False, killasgroup=False,
                                  exitcodes=(0,), redirect_stderr=(p['err'] == 'x'))
                    for ch, key in (('o', 'out'), ('e', 'err')):
                        name = {'o': 'stdout', 'e': 'stderr'}[ch]
                        c = p[key]
                        if c is None or c == 'x':
                            params.update({name + '_logfile': None, name + '_logfile_maxbytes': 0, name + '_logfile_backups': 0})
                        else:
                            logid = '%d.%d.%s' % (gi, pi, ch)
                            params.update({name + '_logfile': self._logdir(logid), name + '_logfile_maxbytes': c[0],
                                           name + '_logfile_backups': c[1]})
                            self.cfgs[logid] = chan_cfg(c)
                    pconfigs.append((EventListenerConfig if p['kind'] == 'l' else ProcessConfig)(opts, **params))
                    self.names[(gi, pi)] = ('g%d' % gi, 'p%d' % pi)
                gconfig = ProcessGroupConfig(opts, 'g%d' % gi, 999 - gi, pconfigs)
                group = ProcessGroup(gconfig)                               # makes the real Subprocess objects
                groups['g%d' % gi] = group
                for pi, pc in enumerate(pconfigs):
                    self._attach(gi, pi, group.processes[pc.name])
            self.sup.process_groups = groups
        self.rpc = RPC(self.sup)
        # make_logger() runs before the children's logs are opened; they are not touched by what it logs: the start-up
        # messages are shown against the children's logs as they are once everything is set up
        base = self.snapshot()
        for _, _, snap in self.boot_events:
            for lid in self.dirs:
                if lid != 'act':
                    snap[lid] = base[lid]
        from supervisor import states
        self._moodname = {v: k for k, v in vars(states.SupervisorStates).items() if isinstance(v, int)}

    def _attach(self, gi, pi, proc):
        proc.dispatchers, proc.pipes = proc.config.make_dispatchers(proc)   # real dispatchers over real pipes
        self.pipes.append(proc.pipes)
        self.procs[(gi, pi)] = proc
        for ch in ('o', 'e'):
            logid = '%d.%d.%s' % (gi, pi, ch)
            if logid in self.dirs:
                self._watch(logid, proc.dispatchers[proc.pipes['stdout' if ch == 'o' else 'stderr']])

    def _watch(self, logid, disp):
        lg = getattr(disp, 'normallog', None) or disp.childlog
        self.chanlog = getattr(self, 'chanlog', {})
        self.chanlog[logid] = lg
        orig = lg.info
        def info(data, **kw):
            r = orig(data, **kw)
            self.events.append((logid, bytes(data), self.snapshot()))
            return r
        lg.info = info

    # ---- observation ----------------------------------------------------------------------------
    def snapshot(self):
        snap = {lid: listing(d) for lid, d in self.dirs.items()}
        snap['#out'] = len(self.stdout.getvalue().encode('utf-8'))
        snap['#bare'] = len(self.bare.getvalue()) if self.bare is not None else 0
        return snap

    def mood(self):
        """the daemon's mood as Supervisor.get_state() reports it"""
        return self._moodname.get(self.sup.get_state(), '?')

    def handler_params(self):
        """{logid: [(maxBytes or None when the handler has no size limit at all, backupCount or None)]} for the handlers that
        write to the log's configured path"""
        res = {}
        for lid, d in self.dirs.items():
            path = os.path.join(d, 'log')
            lg = self.opts.logger if lid == 'act' else getattr(self, 'chanlog', {}).get(lid)
            res[lid] = [(getattr(h, 'maxBytes', None), getattr(h, 'backupCount', None))
                        for h in (lg.handlers if lg is not None else []) if getattr(h, 'baseFilename', None) == path]
        return res

    def exists(self, logid):
        return os.path.exists(os.path.join(self.dirs[logid], 'log'))

    # ---- operations -----------------------------------------------------------------------------
    def run_op(self, o):
        """-> (events [(logid, bytes handed to that logger, snapshot right after)], final snapshot, error text,
               refused?)  -- refused: the operation answered with a documented fault and did nothing"""
        from supervisor.xmlrpc import RPCError, Faults
        from supervisor.http import NOT_DONE_YET
        del self.events[:]
        err, refused = 'ok', False
        mood0 = self.mood()
        def fault(e):
            # the documented refusals: NO_FILE for a log that is not there (handled at clearLog), SHUTDOWN_STATE while the
            # daemon is restarting or shutting down
            if e.code == Faults.SHUTDOWN_STATE and mood0 != 'RUNNING':
                return None
            return 'err fault %s' % e.code
        saved = sys.stderr
        sys.stderr = cap = io.StringIO()
        try:
            try:
                k = o[0]
                if k == 'log':
                    self.opts.logger.info(o[1])
                elif k == 'chunk':
                    proc = self.procs[(o[1], o[2])]
                    name = 'stdout' if o[3] == 'o' else 'stderr'
                    os.write(proc.pipes['child_' + name], o[4])
                    proc.dispatchers[proc.pipes[name]].handle_read_event()
                elif k == 'clearlog':
                    present = self.exists('act')
                    try:
                        if self.rpc.clearLog() is not True:
                            err = 'err clearLog did not return True'
                    except RPCError as e:
                        if e.code == Faults.NO_FILE and not present:
                            refused = True
                        elif fault(e) is None:
                            refused = True
                        else:
                            err = fault(e)
                elif k == 'optreopen':
                    self.opts.reopenlogs()
                elif k == 'sigusr2':
                    self.opts.signal_receiver.receive(signal.SIGUSR2, None)     # what the real signal handler does
                    self.sup.handle_signal()
                elif k == 'signal':
                    self.opts.signal_receiver.receive(getattr(signal, 'SIG' + o[1]), None)
                    self.sup.handle_signal()
                elif k == 'rpc':
                    try:
                        if getattr(self.rpc, o[1])() is not True:
                            err = 'err %s did not return True' % o[1]
                    except RPCError as e:
                        if fault(e) is None: refused = True
                        else: err = fault(e)
                elif k == 'clearproc':
                    name = '%s:%s' % self.names[(o[1], o[2])]
                    try:
                        if self.rpc.clearProcessLogs(name) is not True:
                            err = 'err clearProcessLogs did not return True'
                    except RPCError as e:
                        if fault(e) is None: refused = True
                        else: err = fault(e)
                elif k == 'clearall':
                    try:
                        cb = self.rpc.clearAllProcessLogs()
                        res = NOT_DONE_YET
                        for _ in range(len(self.procs) + 2):
                            res = cb()
                            if res is not NOT_DONE_YET:
                                break
                        if res is NOT_DONE_YET:
                            err = 'err clearAllProcessLogs never finished'
                        else:
                            bad = [r for r in res if r['status'] != Faults.SUCCESS]
                            if bad or len(res) != len(self.procs):
                                err = 'err clearAllProcessLogs answered %d results, %d not SUCCESS' % (len(res), len(bad))
                    except RPCError as e:
                        if fault(e) is None: refused = True
                        else: err = fault(e)
                elif k == 'extremove':
                    try:
                        os.remove(self._name(o[1], o[2]))
                    except FileNotFoundError:
                        pass
                elif k == 'extreplace':
                    tmp = os.path.join(self.root, '.tmp')
                    with open(tmp, 'wb') as f:
                        f.write(o[3])
                    os.rename(tmp, self._name(o[1], o[2]))
                else:
                    raise ValueError('unknown world op %r' % (o,))
            except ValueError as e:
                if 'unknown world op' in str(e):
                    raise
                err = 'err ValueError'
            except OSError:
                err = 'err osError'
            except Exception as e:
                err = 'err ' + type(e).__name__
        finally:
            sys.stderr = saved
        if cap.getvalue():
            err += ' swallowed-exception'
        return list(self.events), self.snapshot(), err, refused

    def _name(self, logid, i):
        p = os.path.join(self.dirs[logid], 'log')
        return p if i == 0 else '%s.%d' % (p, i)

    def close(self):
        try:
            lg = getattr(getattr(self, 'opts', None), 'logger', None)
            if lg is not None:
                lg.close()
            for proc in getattr(self, 'procs', {}).values():
                for d in proc.dispatchers.values():
                    for nm in ('normallog', 'capturelog', 'childlog'):
                        l = getattr(d, nm, None)
                        if l is not None:
                            l.close()
            for p in self.pipes:
                for fd in p.values():
                    if fd is not None:
                        try:
                            os.close(fd)
                        except OSError:
                            pass
        finally:
            self.loggers.time = self._saved_time
            try:
                from supervisor import events
                events.clear()                    # event listener pools made from a configuration subscribe globally
            except Exception:
                pass


# ---- the property's view of an operation: which logs it clears / reopens ----------------------------
def covered(w, logids, o):
    """{logid: 'clear' | 'reopen'} -- stated from the documentation of the operations, not from the code"""
    k = o[0]
    if k == 'clearlog': return {'act': 'clear'}
    if k == 'optreopen': return {'act': 'reopen'}
    if k == 'sigusr2': return {l: 'reopen' for l in logids}
    if k == 'clearproc': return {l: 'clear' for l in logids if l.startswith('%d.%d.' % (o[1], o[2]))}
    if k == 'clearall': return {l: 'clear' for l in logids if l != 'act'}
    return {}


def op_json(o):
    return [x.hex() if isinstance(x, bytes) else x for x in o]


def op_unjson(l):
    if l[0] == 'chunk': return ('chunk', l[1], l[2], l[3], bytes.fromhex(l[4]))
    if l[0] == 'extreplace': return ('extreplace', l[1], l[2], bytes.fromhex(l[3]))
    return tuple(l)


def case_line(world, show):
    w = world.w
    conf = world.via == 'conf'
    def oi(v):
        return 'd' if v is None else '%d' % v
    def ch(c):
        return 'x' if c == 'x' else '-' if c is None else '%s.%s' % (oi(c[0]), oi(c[1]))
    groups = '/'.join(','.join('%s:%s:%s' % (p['kind'], ch(p['out']), ch(p['err'])) for p in g) for g in w['groups']) or 'none'
    if conf:
        cli = w.get('cli') or {}
        bounds = 'via=conf maxbytes=%s backups=%s climb=%s clibk=%s' % (
            '-' if w['maxbytes'] is None else w['maxbytes'], '-' if w['backups'] is None else w['backups'],
            cli.get('maxbytes', '-'), cli.get('backups', '-'))
    else:
        bounds = 'via=attr maxbytes=%d backups=%d' % (w['maxbytes'], w['backups'])
    return 'case logfan nodaemon=%d silent=%d %s extra=%s fmtpre=%s show=%d groups=%s' % (
        w['nodaemon'], w['silent'], bounds, w.get('extra', 'none'), hexs(world.fmtpre), show, groups)


def canon_log(ls, other, show):
    parts = ['%d=%s' % (k, hexs(ls[k])) for k in sorted(ls) if k <= show]
    parts += ['beyond:%d' % k for k in sorted(ls) if k > show] + ['other:' + o for o in sorted(other)]
    return ' '.join(parts) + ' | ok'


def canon_world(world, snap, show, err):
    """the same shape as LogFan.showWorld: stdout and bare byte counts, the activity log's directory, then
    every child log's directory in (group, process, stdout-before-stderr) order"""
    ids = list(world.dirs)          # creation order: act, then (group, process, stdout, stderr)
    parts = ['out=%d bare=%d ; %s' % (snap['#out'], snap['#bare'], canon_log(snap['act'][0], snap['act'][1], show))]
    for l in ids[1:]:
        parts.append(canon_log(snap[l][0], snap[l][1], show))
    return ' || '.join(parts) + ('' if err == 'ok' else ' !' + err)
