-- stub: replaced by the property author
namespace Sv.Props.C12
end Sv.Props.C12
