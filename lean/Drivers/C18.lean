import SupervisorModel.Basic.DriverKit
import SupervisorModel.Model.Child
def main : IO Unit := Sv.driverMain [("child", Sv.Child.runCase)]
