import SupervisorModel.Model.Child
/-
  Helper lemmas for C18: the shape of every run of the child script (`run_cases`), list
  decomposition, the events of the `finally` block, facts about `preSteps`.
-/
set_option linter.unusedSimpArgs false
namespace Sv.Child
open Sv.Gen.Child

/-- the calls of a script, in order -/
def calls : List Step → List Call
  | [] => []
  | .sys c _ :: r => c :: calls r
  | .refuse _ :: r => calls r

def NoRefuse (steps : List Step) : Prop := ∀ m, Step.refuse m ∉ steps

/-- every event of `d` is the call of some step of the script, and it succeeded or its failure
    was swallowed by that step's handler -/
def FromSteps (steps : List Step) (d : List Ev) : Prop :=
  ∀ ev ∈ d, ∃ c h, Step.sys c h ∈ steps ∧ ev.call = c ∧
    (ev.res = none ∨ ∃ f, ev.res = some f ∧ h f = .swallow)

theorem FromSteps.cons_steps {st : Step} {steps : List Step} {d : List Ev} (h : FromSteps steps d) :
    FromSteps (st :: steps) d := by
  intro ev hev
  obtain ⟨c, hh, hm, r⟩ := h ev hev
  exact ⟨c, hh, List.mem_cons_of_mem _ hm, r⟩

theorem calls_append (a b : List Step) : calls (a ++ b) = calls a ++ calls b := by
  induction a with
  | nil => rfl
  | cons st r ih => cases st <;> simp [calls, ih]

theorem calls_map_sys {α : Type} (l : List α) (f : α → Call) (h : Fail → Action) :
    calls (l.map fun x => Step.sys (f x) h) = l.map f := by
  induction l with
  | nil => rfl
  | cons x r ih => simp [calls, ih]

/-- the three shapes of a run: every step succeeded (or was swallowed) and the continuation runs;
    a step failed and was not swallowed; a refusal step was reached -/
theorem run_cases (orc : Oracle) (k : List Ev → List Ev) : ∀ (steps : List Step) (log : List Ev),
    (∃ d, NoRefuse steps ∧ d.map (·.call) = calls steps ∧ FromSteps steps d ∧
        run orc k steps log = k (log ++ d)) ∨
    (∃ d c h f, Step.sys c h ∈ steps ∧ FromSteps steps d ∧ h f ≠ .swallow ∧
        run orc k steps log = finish orc (h f) (log ++ d ++ [⟨c, some f⟩])) ∨
    (∃ d m, Step.refuse m ∈ steps ∧ FromSteps steps d ∧
        run orc k steps log = finish orc (.report m) (log ++ d)) := by
  intro steps
  induction steps with
  | nil =>
    intro log
    refine Or.inl ⟨[], ?_, rfl, ?_, by simp [run]⟩
    · intro m; simp
    · intro ev hev; simp at hev
  | cons st rest ih =>
    intro log
    cases st with
    | refuse m =>
      refine Or.inr (Or.inr ⟨[], m, by simp, ?_, by simp [run]⟩)
      intro ev hev; simp at hev
    | sys c h =>
      have lift : ∀ (e : Ev), e.call = c → (e.res = none ∨ ∃ f, e.res = some f ∧ h f = .swallow) →
          run orc k (Step.sys c h :: rest) log = run orc k rest (log ++ [e]) →
          ((∃ d, NoRefuse (Step.sys c h :: rest) ∧ d.map (·.call) = calls (Step.sys c h :: rest) ∧
              FromSteps (Step.sys c h :: rest) d ∧ run orc k (Step.sys c h :: rest) log = k (log ++ d)) ∨
           (∃ d c' h' f, Step.sys c' h' ∈ Step.sys c h :: rest ∧ FromSteps (Step.sys c h :: rest) d ∧ h' f ≠ .swallow ∧
              run orc k (Step.sys c h :: rest) log = finish orc (h' f) (log ++ d ++ [⟨c', some f⟩])) ∨
           (∃ d m, Step.refuse m ∈ Step.sys c h :: rest ∧ FromSteps (Step.sys c h :: rest) d ∧
              run orc k (Step.sys c h :: rest) log = finish orc (.report m) (log ++ d))) := by
        intro e hc hr heq
        have hfs : ∀ d, FromSteps rest d → FromSteps (Step.sys c h :: rest) (e :: d) := by
          intro d hd ev hev
          rcases List.mem_cons.mp hev with rfl | hev
          · exact ⟨c, h, by simp, hc, hr⟩
          · exact hd.cons_steps ev hev
        rcases ih (log ++ [e]) with ⟨d, hnr, hcalls, hfrom, hrun⟩ | ⟨d, c', h', f, hmem, hfrom, hns, hrun⟩ | ⟨d, m, hmem, hfrom, hrun⟩
        · refine Or.inl ⟨e :: d, ?_, ?_, hfs d hfrom, ?_⟩
          · intro m hm
            rcases List.mem_cons.mp hm with hm | hm
            · cases hm
            · exact hnr m hm
          · simp [calls, hcalls, hc]
          · rw [heq, hrun]; simp
        · refine Or.inr (Or.inl ⟨e :: d, c', h', f, List.mem_cons_of_mem _ hmem, hfs d hfrom, hns, ?_⟩)
          rw [heq, hrun]; simp
        · refine Or.inr (Or.inr ⟨e :: d, m, List.mem_cons_of_mem _ hmem, hfs d hfrom, ?_⟩)
          rw [heq, hrun]; simp
      cases hq : orc log.length c with
      | none =>
        exact lift ⟨c, none⟩ rfl (Or.inl rfl) (by simp [run, hq])
      | some f =>
        cases ha : h f with
        | swallow =>
          exact lift ⟨c, some f⟩ rfl (Or.inr ⟨f, rfl, ha⟩) (by simp [run, hq, ha])
        | propagate =>
          refine Or.inr (Or.inl ⟨[], c, h, f, by simp, ?_, by simp [ha], by simp [run, hq, ha]⟩)
          intro ev hev; simp at hev
        | report m =>
          refine Or.inr (Or.inl ⟨[], c, h, f, by simp, ?_, by simp [ha], by simp [run, hq, ha]⟩)
          intro ev hev; simp at hev

/-! ### the events written by `finish` -/

def finalEvs (orc : Oracle) (n : Nat) : List Ev :=
  [⟨.write write_fd msg_not_spawned, orc n (.write write_fd msg_not_spawned)⟩, ⟨.exit exit_code, none⟩]

theorem finish_report (orc : Oracle) (m : String) (log : List Ev) :
    finish orc (.report m) log =
      log ++ ⟨.write write_fd m, orc log.length (.write write_fd m)⟩ :: finalEvs orc (log.length + 1) := by
  simp [finish, finallyEvs, finalEvs]

theorem finish_propagate (orc : Oracle) (log : List Ev) :
    finish orc .propagate log = log ++ finalEvs orc log.length := by
  simp [finish, finallyEvs, finalEvs]

theorem finish_swallow (orc : Oracle) (log : List Ev) :
    finish orc .swallow log = log ++ finalEvs orc log.length := by
  simp [finish, finallyEvs, finalEvs]

/-- calls made while preparing (everything except execve, write, _exit) -/
def Call.isPrep : Call → Bool
  | .execve _ _ _ => false
  | .write _ _ => false
  | .exit _ => false
  | _ => true

/-- whatever the reaction, `finish` appends at most a reason, then the final message and `_exit` -/
theorem finish_shape (orc : Oracle) (a : Action) (log : List Ev) :
    ∃ t, finish orc a log = log ++ t ++ finalEvs orc (log.length + t.length) ∧
      (t = [] ∨ ∃ m, a = .report m ∧ t = [⟨.write write_fd m, orc log.length (.write write_fd m)⟩]) := by
  cases a with
  | swallow => exact ⟨[], by simp [finish_swallow], Or.inl rfl⟩
  | propagate => exact ⟨[], by simp [finish_propagate], Or.inl rfl⟩
  | report m => exact ⟨[_], by simp [finish_report], Or.inr ⟨m, rfl, rfl⟩⟩

/-! ### list decomposition -/

/-- if no element of `d` satisfies `Q` and `x` does, an occurrence of `x` in `d ++ t` lies in `t` -/
theorem skip_prefix {α : Type} (Q : α → Prop) {x : α} (hx : Q x) :
    ∀ (d pre : List α) {post t : List α}, (∀ e ∈ d, ¬ Q e) → pre ++ x :: post = d ++ t →
      ∃ t1, pre = d ++ t1 ∧ t = t1 ++ x :: post := by
  intro d
  induction d with
  | nil => intro pre post t _ h; exact ⟨pre, by simp, by simpa using h.symm⟩
  | cons y d ih =>
    intro pre post t hd h
    cases pre with
    | nil =>
      simp at h
      exact absurd (h.1 ▸ hx) (hd y (by simp))
    | cons z pre =>
      simp at h
      obtain ⟨t1, h1, h2⟩ := ih pre (fun e he => hd e (List.mem_cons_of_mem _ he)) h.2
      exact ⟨t1, by simp [h.1, h1], h2⟩

/-! ### facts about the script of the child -/

theorem mem_preSteps_isPrep (c : Cfg) : ∀ c' h, Step.sys c' h ∈ preSteps c → c'.isPrep = true := by
  intro c' h hm
  simp only [preSteps, fdSteps, privSteps, dirSteps, umaskSteps, List.mem_append, List.mem_cons,
    List.mem_map, List.mem_singleton] at hm
  rcases hm with (((hm | hm) | hm) | hm) | hm
  · rcases hm with hm | hm
    · cases hm; rfl
    · simp at hm
  · rcases hm with (hm | hm) | hm
    · split at hm
      · simp at hm; rcases hm with ⟨rfl, _⟩; rfl
      · simp at hm
    · rcases hm with hm | hm | hm | hm
      · cases hm; rfl
      · cases hm; rfl
      · cases hm; rfl
      · simp at hm
    · obtain ⟨fd, _, hfd⟩ := hm
      cases hfd; rfl
  · split at hm
    · simp at hm
    · split at hm
      · simp at hm
      · split at hm
        · simp at hm
        · simp only [List.mem_append, List.mem_cons] at hm
          rcases hm with (hm | hm | hm) | hm
          · cases hm; rfl
          · cases hm; rfl
          · simp at hm
          · split at hm
            · simp at hm
            · split at hm
              · simp at hm
              · simp at hm
                rcases hm with ⟨rfl, _⟩ | ⟨rfl, _⟩ | ⟨rfl, _⟩ | ⟨rfl, _⟩ <;> rfl
  · split at hm
    · split at hm
      · simp at hm; rcases hm with ⟨rfl, _⟩; rfl
      · simp at hm
    · simp at hm
  · split at hm
    · split at hm
      · simp at hm; rcases hm with ⟨rfl, _⟩; rfl
      · simp at hm
    · simp at hm


/-! ### the script with every regenerated condition evaluated -- the only place where the
    generated definitions are unfolded -/

def specFd (c : Cfg) : List Step :=
  (if c.fcgi then [Step.sys .sockFileno hPropagate] else []) ++
  [ .sys (.dup2 (if c.fcgi then c.sockFd else c.pin) 0) hPropagate,
    .sys (.dup2 c.pout 1) hPropagate,
    .sys (.dup2 (if c.redirect then c.pout else c.perr) 2) hPropagate ] ++
  (pyRange 3 c.minfds).map (fun fd => Step.sys (.close fd) hClose)

def specPrivTail (c : Cfg) (u : Int) : List Step :=
  if c.curUid = u then [] else
  if c.curUid ≠ 0 then [.refuse (msgSetuid u reasonNonRoot)] else
  [ .sys .getgrall (hGuarded "" ""),
    .sys (.setgroups (groupList c)) (hGuarded "OSError" (msgSetuid u reasonGroups)),
    .sys (.setgid c.pwGid) (hGuarded "OSError" (msgSetuid u reasonGid)),
    .sys (.setuid u) (hGuarded "OSError" (msgSetuid u reasonUid)) ]

def specPriv (c : Cfg) : List Step :=
  match c.uid with
  | none => []
  | some u =>
    [ .sys (.getpwuid u) (hGuarded "KeyError" (msgSetuid u (reasonNoUid u))),
      .sys .getuid (hGuarded "" "") ] ++ specPrivTail c u

def specDir (c : Cfg) : List Step :=
  match c.directory with
  | some d => [.sys (.chdir d) (hChdir d)]
  | none => []

def specUmask (c : Cfg) : List Step :=
  match c.umask with
  | some m => [.sys (.umask m) (hExec c.filename c.argv)]
  | none => []

def specSteps (c : Cfg) : List Step :=
  [.sys .setpgrp hPropagate] ++ specFd c ++ specPriv c ++ specDir c ++ specUmask c

theorem fdSteps_eq (c : Cfg) : fdSteps c = specFd c := by
  simp only [fdSteps, specFd, prepFds_g0, fcgiPrepFds_g0, fds_first_closed, fcgi_fds_first_closed]
  cases c.fcgi <;> simp

theorem privSteps_eq (c : Cfg) : privSteps c = specPriv c := by
  unfold privSteps specPriv
  cases hu : c.uid with
  | none => simp [setUid_g0]
  | some u =>
    have h1 : dpGuard "pwd.getpwuid" = "KeyError" := by decide
    have h2 : dpGuard "os.getuid" = "" := by decide
    have h3 : dpGuard "grp.getgrall" = "" := by decide
    have h4 : dpGuard "os.setgroups" = "OSError" := by decide
    have h5 : dpGuard "os.setgid" = "OSError" := by decide
    have h6 : dpGuard "os.setuid" = "OSError" := by decide
    simp only [setUid_g0, dropPriv_g0, dropPriv_g1, dropPriv_g2, specPrivTail, h1, h2, h3, h4, h5, h6,
      Option.isNone_some, Bool.false_eq_true, if_false, beq_iff_eq, bne_iff_ne, ne_eq]

theorem dirSteps_eq (c : Cfg) : dirSteps c = specDir c := by
  unfold dirSteps specDir
  cases c.directory <;> simp [spawnChild_g5]

theorem umaskSteps_eq (c : Cfg) : umaskSteps c = specUmask c := by
  unfold umaskSteps specUmask
  cases c.umask <;> simp [spawnChild_g6]

theorem preSteps_eq (c : Cfg) : preSteps c = specSteps c := by
  simp only [preSteps, specSteps, fdSteps_eq, privSteps_eq, dirSteps_eq, umaskSteps_eq]

/-- every preparing call in the log is the call of some step of the script -/
theorem prep_calls_from_script (c : Cfg) (orc : Oracle) :
    ∀ ev ∈ childLog c orc, ev.call.isPrep = true → ∃ h, Step.sys ev.call h ∈ specSteps c := by
  intro ev hev hp
  have hfin : ∀ a log, ev ∈ finish orc a log → ev ∈ log := by
    intro a log h
    obtain ⟨t, hf, ht⟩ := finish_shape orc a log
    rw [hf] at h
    simp only [List.mem_append] at h
    rcases h with (h | h) | h
    · exact h
    · rcases ht with rfl | ⟨m, _, rfl⟩
      · simp at h
      · simp at h; subst h; simp [Call.isPrep] at hp
    · simp [finalEvs] at h; rcases h with rfl | rfl <;> simp [Call.isPrep] at hp
  have hd : ∀ d, FromSteps (specSteps c) d → ev ∈ d → ∃ h, Step.sys ev.call h ∈ specSteps c := by
    intro d hfrom he
    obtain ⟨c', h, hm, hc, _⟩ := hfrom ev he
    exact ⟨h, by rw [hc]; exact hm⟩
  unfold childLog at hev
  rw [preSteps_eq] at hev
  rcases run_cases orc (execStage c orc) (specSteps c) [] with
    ⟨d, _, _, hfrom, hrun⟩ | ⟨d, c', h, f, hmem, hfrom, _, hrun⟩ | ⟨d, m, _, hfrom, hrun⟩
  · rw [hrun] at hev
    simp only [List.nil_append] at hev
    unfold execStage at hev
    split at hev
    · rcases List.mem_append.mp hev with h | h
      · exact hd d hfrom h
      · simp at h; subst h; simp [execCall, Call.isPrep] at hp
    · have := hfin _ _ hev
      rcases List.mem_append.mp this with h | h
      · exact hd d hfrom h
      · simp at h; subst h; simp [execCall, Call.isPrep] at hp
  · rw [hrun] at hev
    have := hfin _ _ hev
    simp only [List.nil_append, List.mem_append, List.mem_singleton] at this
    rcases this with h' | h'
    · exact hd d hfrom h'
    · subst h'; exact ⟨h, hmem⟩
  · rw [hrun] at hev
    have := hfin _ _ hev
    simp only [List.nil_append] at this
    exact hd d hfrom this

/-- the group/user-id calls are in the script only when a user is configured, and `setuid` is
    called with that user -/
theorem priv_step_has_uid (c : Cfg) (c' : Call) (h : Fail → Action) (hm : Step.sys c' h ∈ specSteps c)
    (hc : (∃ gs, c' = .setgroups gs) ∨ (∃ g, c' = .setgid g) ∨ (∃ u, c' = .setuid u)) :
    ∃ u, c.uid = some u ∧ ∀ u', c' = .setuid u' → u' = u := by
  simp only [specSteps, specFd, specPriv, specPrivTail, specDir, specUmask, List.mem_append, List.mem_cons,
    List.mem_map, List.mem_singleton] at hm
  rcases hm with (((hm | hm) | hm) | hm) | hm
  · rcases hm with hm | hm
    · cases hm; simp at hc
    · simp at hm
  · rcases hm with (hm | hm) | hm
    · split at hm
      · simp at hm; rcases hm with ⟨rfl, _⟩; simp at hc
      · simp at hm
    · rcases hm with hm | hm | hm | hm
      · cases hm; simp at hc
      · cases hm; simp at hc
      · cases hm; simp at hc
      · simp at hm
    · obtain ⟨fd, _, hfd⟩ := hm
      cases hfd; simp at hc
  · split at hm
    · simp at hm
    · rename_i u hu
      refine ⟨u, hu, ?_⟩
      simp only [List.mem_append, List.mem_cons] at hm
      rcases hm with (hm | hm | hm) | hm
      · cases hm; simp
      · cases hm; simp
      · simp at hm
      · split at hm
        · simp at hm
        · split at hm
          · simp at hm
          · simp at hm
            rcases hm with ⟨rfl, _⟩ | ⟨rfl, _⟩ | ⟨rfl, _⟩ | ⟨rfl, _⟩ <;> simp
  · split at hm
    · simp at hm; rcases hm with ⟨rfl, _⟩; simp at hc
    · simp at hm
  · split at hm
    · simp at hm; rcases hm with ⟨rfl, _⟩; simp at hc
    · simp at hm

end Sv.Child
