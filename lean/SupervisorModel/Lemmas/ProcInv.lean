import SupervisorModel.Model.ProcOps
import SupervisorModel.Lemmas.ProcDefs
/-
  The bookkeeping invariant of one process (pid ↔ state, killing ↔ STOPPING) and its
  preservation by every operation; and: under the invariant no operation the main loop
  performs raises the AssertionError of `_assertInState`.  Used by C02, C05, C06, C13.
-/
set_option linter.unusedSimpArgs false
set_option linter.unusedVariables false
namespace Sv.Proc
open Sv Sv.Gen.Proc

/-- pid and state agree; `killing` is set exactly while a stop is in progress -/
structure Inv (p : Proc) : Prop where
  live : p.state = .starting ∨ p.state = .running ∨ p.state = .stopping → p.pid ≠ 0
  dead : p.state = .stopped ∨ p.state = .backoff ∨ p.state = .exited ∨ p.state = .fatal → p.pid = 0
  stopping : p.state = .stopping → p.killing = true
  killing : p.killing = true → p.state = .stopping ∨ p.state = .unknown

theorem inv_init : Inv {} := by constructor <;> simp

/-- a well-formed spawn answer: the parent side of a fork sees a non-zero pid -/
def wfSpawn : SpawnRes → Prop
  | .ok pid => pid ≠ 0
  | _ => True

theorem rollback_fields (cfg : Cfg) (now : Int) (p : Proc) :
    (rollback cfg now p).state = p.state ∧ (rollback cfg now p).pid = p.pid ∧ (rollback cfg now p).killing = p.killing := by
  simp only [rollback]
  repeat' split
  all_goals simp

theorem rollback_inv (cfg : Cfg) (now : Int) (p : Proc) (h : Inv p) : Inv (rollback cfg now p) := by
  obtain ⟨h1, h2, h3⟩ := rollback_fields cfg now p
  constructor <;> (rw [h1]) <;> (try rw [h2]) <;> (try rw [h3])
  · exact h.live
  · exact h.dead
  · exact h.stopping
  · exact h.killing

/-- brute-force helper: unfold one method on a process with known state -/
macro "inv_unfold" : tactic => `(tactic| simp_all [procdefs, signallableStates, runningStates, stoppedStates])

theorem spawn_inv (cfg : Cfg) (now : Int) (res : SpawnRes) (s : S) (hw : wfSpawn res) (h : Inv s.p) :
    Inv (spawn cfg now res s).p := by
  obtain ⟨p, os, err⟩ := s
  obtain ⟨h1, h2, h3, h4⟩ := h
  cases err with
  | some e => constructor <;> simp_all [spawn, guard]
  | none =>
  cases hs : p.state <;> cases res <;> cases hk : p.killing <;> by_cases hp : p.pid = 0 <;>
    simp_all [wfSpawn] <;> constructor <;> inv_unfold

theorem kill_inv (cfg : Cfg) (now sig : Int) (kr : KillRes) (s : S) (h : Inv s.p) : Inv (kill cfg now sig kr s).p := by
  obtain ⟨p, os, err⟩ := s
  obtain ⟨h1, h2, h3, h4⟩ := h
  cases err with
  | some e => constructor <;> simp_all [kill, guard]
  | none =>
  cases hs : p.state <;> cases kr <;> cases hk : p.killing <;> by_cases hp : p.pid = 0 <;>
    simp_all <;> constructor <;> inv_unfold

theorem giveUp_inv (cfg : Cfg) (now : Int) (s : S) (h : Inv s.p) : Inv (giveUp cfg now s).p := by
  obtain ⟨p, os, err⟩ := s
  obtain ⟨h1, h2, h3, h4⟩ := h
  cases err with
  | some e => constructor <;> simp_all [giveUp, guard]
  | none =>
  cases hs : p.state <;> cases hk : p.killing <;> by_cases hp : p.pid = 0 <;>
    simp_all <;> constructor <;> inv_unfold

theorem signal_inv (cfg : Cfg) (now sig : Int) (kr : KillRes) (s : S) (h : Inv s.p) : Inv (signal cfg now sig kr s).p := by
  obtain ⟨p, os, err⟩ := s
  obtain ⟨h1, h2, h3, h4⟩ := h
  cases err with
  | some e => constructor <;> simp_all [signal, guard]
  | none =>
  cases hs : p.state <;> cases kr <;> cases hk : p.killing <;> by_cases hp : p.pid = 0 <;>
    simp_all <;> constructor <;> inv_unfold

theorem setP_inv (f : Proc → Proc) (s : S) (hf : ∀ p, Inv p → Inv (f p)) (h : Inv s.p) : Inv (setP f s).p := by
  obtain ⟨p, os, err⟩ := s
  cases err <;> simp_all [setP, guard]

theorem emit_inv (o : Out) (s : S) (h : Inv s.p) : Inv (emit o s).p := by
  obtain ⟨p, os, err⟩ := s
  cases err <;> simp_all [emit, guard]

theorem stop_inv (cfg : Cfg) (now : Int) (kr : KillRes) (s : S) (h : Inv s.p) : Inv (stop cfg now kr s).p := by
  rw [stop, guard]
  split
  · exact h
  · dsimp only
    apply kill_inv
    apply setP_inv _ _ _ h
    intro p hp
    obtain ⟨h1, h2, h3, h4⟩ := hp
    constructor <;> simp_all

theorem finishCore_inv (cfg : Cfg) (e : Env) (busy : Bool) (s : S) (h : Inv s.p) : Inv (finishCore cfg e busy s).p := by
  obtain ⟨p, os, err⟩ := s
  obtain ⟨h1, h2, h3, h4⟩ := h
  cases err with
  | some e => constructor <;> simp_all [finishCore, guard]
  | none =>
  cases hs : p.state <;> cases busy <;> cases hk : p.killing <;> cases ht : e.tooQuickly <;> cases hx : e.exitExpected <;>
    by_cases hp : p.pid = 0 <;> simp_all <;> constructor <;> inv_unfold

theorem finish_inv (cfg : Cfg) (now es : Int) (busy : Bool) (s : S) (h : Inv s.p) : Inv (finish cfg now es busy s).p := by
  rw [finish, guard]
  split
  · exact h
  · dsimp only
    apply finishCore_inv
    apply setP_inv
    · intro p hp
      obtain ⟨h1, h2, h3, h4⟩ := hp
      constructor <;> simp_all
    · exact setP_inv _ _ (fun p hp => rollback_inv cfg now p hp) h

theorem autoStart_inv (cfg : Cfg) (e : Env) (res : SpawnRes) (s : S) (hw : wfSpawn res) (h : Inv s.p) :
    Inv (autoStart cfg e res s).p := by
  rw [autoStart, guard]
  repeat' split
  all_goals first | exact h | exact spawn_inv _ _ _ _ hw h

theorem toRunning_inv (cfg : Cfg) (e : Env) (s : S) (h : Inv s.p) : Inv (toRunning cfg e s).p := by
  obtain ⟨p, os, err⟩ := s
  obtain ⟨h1, h2, h3, h4⟩ := h
  cases err with
  | some e => constructor <;> simp_all [toRunning, guard]
  | none =>
  cases h10 : transition_g10 p cfg e <;> cases h11 : transition_g11 p cfg e <;>
  cases hs : p.state <;> cases hk : p.killing <;>
    by_cases hp : p.pid = 0 <;> simp_all <;> constructor <;>
    simp_all [toRunning, changeState, assertIn, emit, setP, guard, transition_a4, transition_a5, transition_c0, transition_c1_0,
      change_state_g0, change_state_g1, change_state_a0, change_state_a2, change_state_a4, change_state_a5, announces_all]

theorem escalate_inv (cfg : Cfg) (e : Env) (kr : KillRes) (s : S) (h : Inv s.p) : Inv (escalate cfg e kr s).p := by
  rw [escalate, guard]
  repeat' split
  all_goals first | exact h | exact giveUp_inv _ _ _ h | exact kill_inv _ _ _ _ _ h

theorem transition_inv (cfg : Cfg) (now mood : Int) (res : SpawnRes) (kr : KillRes) (s : S) (hw : wfSpawn res)
    (h : Inv s.p) : Inv (transition cfg now mood res kr s).p := by
  rw [transition, guard]
  split
  · exact h
  · dsimp only
    apply escalate_inv
    apply toRunning_inv
    apply autoStart_inv _ _ _ _ hw
    exact setP_inv _ _ (fun p hp => rollback_inv cfg now p hp) h

theorem stopReport_inv (cfg : Cfg) (now : Int) (s : S) (h : Inv s.p) : Inv (stopReport cfg now s).p := by
  rw [stopReport, guard]
  split
  · exact h
  · dsimp only
    split
    · apply setP_inv
      · intro p hp
        split
        · obtain ⟨h1, h2, h3, h4⟩ := hp
          constructor <;> simp_all
        · exact hp
      · exact setP_inv _ _ (fun p hp => rollback_inv cfg now p hp) h
    · exact h

theorem answer_inv (c : Int) (s : S) (h : Inv s.p) : Inv (answer c s).p := emit_inv _ s h

theorem rpcStart_inv (cfg : Cfg) (now mood : Int) (res : SpawnRes) (s : S) (hw : wfSpawn res) (h : Inv s.p) :
    Inv (rpcStart cfg now mood res s).p := by
  rw [rpcStart, guard]
  dsimp only
  repeat' split
  all_goals first
    | exact h
    | exact answer_inv _ _ h
    | exact answer_inv _ _ (spawn_inv _ _ _ _ hw h)
    | exact answer_inv _ _ (transition_inv _ _ _ _ _ _ hw (spawn_inv _ _ _ _ hw h))

theorem rpcStop_inv (cfg : Cfg) (now mood : Int) (kr : KillRes) (s : S) (h : Inv s.p) : Inv (rpcStop cfg now mood kr s).p := by
  rw [rpcStop, guard]
  repeat' split
  all_goals first
    | exact h
    | exact answer_inv _ _ h
    | exact answer_inv _ _ (stop_inv _ _ _ _ h)

theorem rpcSignal_inv (cfg : Cfg) (now mood sig : Int) (kr : KillRes) (s : S) (h : Inv s.p) :
    Inv (rpcSignal cfg now mood sig kr s).p := by
  rw [rpcSignal, guard]
  repeat' split
  all_goals first
    | exact h
    | exact answer_inv _ _ h
    | exact answer_inv _ _ (signal_inv _ _ _ _ _ h)

theorem groupStop_inv (cfg : Cfg) (now : Int) (kr : KillRes) (s : S) (h : Inv s.p) : Inv (groupStop cfg now kr s).p := by
  rw [groupStop, guard]
  repeat' split
  all_goals first
    | exact h
    | exact stop_inv _ _ _ _ h
    | exact giveUp_inv _ _ _ h

/-- well-formedness of an operation's environment answers -/
def wfOp : Op → Prop
  | .transition _ _ res _ => wfSpawn res
  | .rpcStart _ _ res => wfSpawn res
  | _ => True

/-- **the bookkeeping invariant is preserved by every operation** -/
theorem step_inv (cfg : Cfg) (p : Proc) (op : Op) (hw : wfOp op) (h : Inv p) : Inv (stepP cfg p op).p := by
  cases op <;> simp only [stepP, step]
  · exact transition_inv _ _ _ _ _ _ hw h
  · exact finish_inv _ _ _ _ _ h
  · exact rpcStart_inv _ _ _ _ _ hw h
  · exact rpcStop_inv _ _ _ _ _ h
  · exact rpcSignal_inv _ _ _ _ _ _ h
  · exact groupStop_inv _ _ _ _ h
  · exact stopReport_inv _ _ _ h

theorem run_inv (cfg : Cfg) (ops : List Op) (h : Hist) (hw : ∀ op ∈ ops, wfOp op) (hi : Inv h.p) : Inv (run cfg h ops).p := by
  induction ops generalizing h with
  | nil => simpa [run] using hi
  | cons op ops ih =>
    simp only [run]
    apply ih
    · intro o ho; exact hw o (List.mem_cons_of_mem _ ho)
    · exact step_inv cfg h.p op (hw op (List.mem_cons_self ..)) hi

/-! ### no AssertionError under the invariant -/

theorem spawn_ok (os : List Out) (cfg : Cfg) (now : Int) (res : SpawnRes) (p : Proc)
    (hs : p.state = .exited ∨ p.state = .stopped ∨ p.state = .backoff ∨ p.state = .fatal) :
    (spawn cfg now res { p := p, outs := os }).err = none := by
  rcases hs with hs | hs | hs | hs <;> cases res <;> by_cases hp : p.pid = 0 <;>
    simp [procdefs, hs, hp] <;> (repeat' split) <;> simp_all

/-- what a spawn out of BACKOFF leaves behind: STARTING with the retry counter untouched, or BACKOFF -/
theorem spawn_from_backoff (os : List Out) (cfg : Cfg) (now : Int) (res : SpawnRes) (p : Proc) (hs : p.state = .backoff) :
    ((spawn cfg now res { p := p, outs := os }).p.state = .backoff) ∨
    ((spawn cfg now res { p := p, outs := os }).p.backoff = p.backoff ∧ (spawn cfg now res { p := p, outs := os }).p.state ≠ .backoff) := by
  cases res <;> by_cases hp : p.pid = 0 <;> simp [procdefs, hs, hp] <;> (repeat' split) <;> simp_all

theorem giveUp_ok (cfg : Cfg) (now : Int) (s : S) (hs : s.p.state = .backoff) (he : s.err = none) :
    (giveUp cfg now s).err = none := by
  obtain ⟨p, os, err⟩ := s
  simp_all [procdefs]

/-- the UNKNOWN exception of `kill_ok`: kill() in UNKNOWN with a pid asserts (never called by the loop there) -/
theorem kill_ok_live (cfg : Cfg) (now sig : Int) (kr : KillRes) (s : S)
    (hs : s.p.state = .running ∨ s.p.state = .starting ∨ s.p.state = .stopping ∨ s.p.state = .backoff) (he : s.err = none) :
    (kill cfg now sig kr s).err = none := by
  obtain ⟨p, os, err⟩ := s
  rcases hs with hs | hs | hs | hs <;> cases kr <;> by_cases hp : p.pid = 0 <;> simp_all [procdefs, signallableStates]

theorem autoStart_cases (cfg : Cfg) (e : Env) (res : SpawnRes) (s : S) :
    autoStart cfg e res s = s ∨
    (autoStart cfg e res s = spawn cfg e.now res s ∧
      (e.st0 = .exited ∨ e.st0 = .stopped ∨ (e.st0 = .backoff ∧ s.p.backoff ≤ cfg.startretries))) := by
  rw [autoStart, guard]
  repeat' split
  all_goals first
    | (left; rfl)
    | (right; refine ⟨rfl, ?_⟩; simp_all [transition_g1, transition_g5, transition_g7, transition_g8])

theorem toRunning_id (cfg : Cfg) (e : Env) (s : S) (h : e.st0 ≠ .starting) : toRunning cfg e s = s := by
  simp [toRunning, guard, transition_g10, h]

theorem escalate_id (cfg : Cfg) (e : Env) (kr : KillRes) (s : S) (h1 : e.st0 ≠ .backoff) (h2 : e.st0 ≠ .stopping) :
    escalate cfg e kr s = s := by
  simp [escalate, guard, transition_g12, transition_g14, h1, h2]

theorem toRunning_ok (cfg : Cfg) (e : Env) (s : S) (hs : s.p.state = .starting) (he : s.err = none) :
    (toRunning cfg e s).err = none := by
  obtain ⟨p, os, err⟩ := s
  cases h10 : transition_g10 p cfg e <;> cases h11 : transition_g11 p cfg e <;>
    simp_all [toRunning, changeState, assertIn, emit, setP, guard, transition_a4, transition_a5, transition_c0, transition_c1_0,
      change_state_g0, change_state_g1, change_state_a0, change_state_a2, announces_all]

theorem blocks_ok (os : List Out) (cfg : Cfg) (now mood : Int) (res : SpawnRes) (kr : KillRes) (q : Proc) (hq : Inv q) :
    (escalate cfg { now := now, mood := mood, st0 := q.state } kr
      (toRunning cfg { now := now, mood := mood, st0 := q.state }
        (autoStart cfg { now := now, mood := mood, st0 := q.state } res { p := q, outs := os }))).err = none := by
  generalize he : ({ now := now, mood := mood, st0 := q.state } : Env) = e
  have hst : e.st0 = q.state := by rw [← he]
  have hnow : e.now = now := by rw [← he]
  rcases autoStart_cases cfg e res { p := q, outs := os } with h | ⟨h, hc⟩
  · rw [h]
    cases hs : q.state
    case starting =>
      rw [escalate_id _ _ _ _ (by rw [hst, hs]; simp) (by rw [hst, hs]; simp)]
      exact toRunning_ok _ _ _ hs rfl
    case stopping =>
      rw [toRunning_id _ _ _ (by rw [hst, hs]; simp)]
      simp only [escalate, guard, transition_g12, transition_g14, hst, hs]
      simp
      split
      · exact kill_ok_live _ _ _ _ _ (Or.inr (Or.inr (Or.inl hs))) rfl
      · rfl
    case backoff =>
      rw [toRunning_id _ _ _ (by rw [hst, hs]; simp)]
      simp only [escalate, guard, transition_g12, transition_g14, hst, hs]
      simp
      split
      · exact giveUp_ok _ _ _ hs rfl
      · rfl
    all_goals
      rw [toRunning_id _ _ _ (by rw [hst, hs]; simp), escalate_id _ _ _ _ (by rw [hst, hs]; simp) (by rw [hst, hs]; simp)]
  · rw [h, hnow]
    rcases hc with hc | hc | ⟨hc, hle⟩
    · have hok := spawn_ok os cfg now res q (Or.inl (hst ▸ hc))
      rw [toRunning_id _ _ _ (by rw [hc]; simp), escalate_id _ _ _ _ (by rw [hc]; simp) (by rw [hc]; simp)]
      exact hok
    · have hok := spawn_ok os cfg now res q (Or.inr (Or.inl (hst ▸ hc)))
      rw [toRunning_id _ _ _ (by rw [hc]; simp), escalate_id _ _ _ _ (by rw [hc]; simp) (by rw [hc]; simp)]
      exact hok
    · have hsb : q.state = .backoff := hst ▸ hc
      have hok := spawn_ok os cfg now res q (Or.inr (Or.inr (Or.inl hsb)))
      have hsp := spawn_from_backoff os cfg now res q hsb
      rw [toRunning_id _ _ _ (by rw [hc]; simp)]
      simp only [escalate, guard, transition_g12, transition_g13, transition_g14, hc, hok]
      simp
      split
      · rcases hsp with hsp | ⟨hsp1, hsp2⟩
        · exact giveUp_ok _ _ _ hsp hok
        · rename_i hgt; rw [hsp1] at hgt; simp at hle; omega
      · exact hok

/-- **no pass-time operation raises**: `transition()` never trips `_assertInState` on a process
    satisfying the bookkeeping invariant -/
theorem transition_ok (os : List Out) (cfg : Cfg) (p : Proc) (now mood : Int) (res : SpawnRes) (kr : KillRes) (hi : Inv p) :
    (transition cfg now mood res kr { p := p, outs := os }).err = none := by
  have hq := rollback_inv cfg now p hi
  obtain ⟨hs, _, _⟩ := rollback_fields cfg now p
  simp only [transition, guard, setP, transition_a1, Option.isSome_none, Bool.false_eq_true, if_false]
  rw [← hs]
  exact blocks_ok os cfg now mood res kr (rollback cfg now p) hq

theorem finishCore_ok (os : List Out) (cfg : Cfg) (e : Env) (busy : Bool) (p : Proc)
    (h : p.state = .unknown ∨ (p.state = .stopping ∧ p.killing = true) ∨ (p.state = .starting ∧ p.killing = false) ∨
      (p.state = .running ∧ p.killing = false ∧ e.tooQuickly = false)) :
    (finishCore cfg e busy { p := p, outs := os }).err = none := by
  rcases h with hs | ⟨hs, hk⟩ | ⟨hs, hk⟩ | ⟨hs, hk, ht⟩ <;> cases busy <;> cases ht' : e.tooQuickly <;> cases hx : e.exitExpected <;>
    cases hk' : p.killing <;> simp_all [procdefs]

theorem tooQuickly_running_false (cfg : Cfg) (now es : Int) (p : Proc) (hs : p.state = .running) (hw : 0 ≤ cfg.startsecs) :
    tooQuickly cfg { now := now, es := es } { rollback cfg now p with laststop := now } = false := by
  simp [tooQuickly, finish_g0, finish_a4, finish_a5, rollback, rollback_g0, rollback_g3, rollback_g4, rollback_a2, hs]
  repeat' split
  all_goals (intros; (try dsimp only at *); omega)

/-- **reaping never raises**: `finish()` on a process that holds a child (pid ≠ 0) and satisfies the
    invariant cannot trip `_assertInState` — in particular not in UNKNOWN (fix F9) and not in
    RUNNING after a clock jump -/
theorem finish_ok (os : List Out) (cfg : Cfg) (p : Proc) (now es : Int) (busy : Bool) (hi : Inv p) (hp : p.pid ≠ 0)
    (hw : 0 ≤ cfg.startsecs) : (finish cfg now es busy { p := p, outs := os }).err = none := by
  obtain ⟨h1, h2, h3⟩ := rollback_fields cfg now p
  have htq := tooQuickly_running_false cfg now es p
  simp only [finish, guard, setP, finish_a2, Option.isSome_none, Bool.false_eq_true, if_false]
  apply finishCore_ok
  dsimp only
  rw [h1, h3]
  cases hs : p.state
  case unknown => left; rfl
  case stopping => right; left; exact ⟨rfl, hi.stopping hs⟩
  case starting =>
    right; right; left
    refine ⟨rfl, ?_⟩
    cases hk : p.killing
    · rfl
    · have := hi.killing hk; simp_all
  case running =>
    right; right; right
    refine ⟨rfl, ?_, htq hs hw⟩
    cases hk : p.killing
    · rfl
    · have := hi.killing hk; simp_all
  all_goals (exfalso; apply hp; apply hi.dead; simp [hs])

theorem stop_ok (os : List Out) (cfg : Cfg) (now : Int) (kr : KillRes) (p : Proc)
    (hs : p.state = .running ∨ p.state = .starting ∨ p.state = .backoff) :
    (stop cfg now kr { p := p, outs := os }).err = none := by
  simp only [stop, guard, Option.isSome_none, Bool.false_eq_true, if_false]
  apply kill_ok_live
  · rcases hs with hs | hs | hs <;> simp [setP, guard, hs]
  · simp [setP, guard]

theorem groupStop_ok (os : List Out) (cfg : Cfg) (now : Int) (kr : KillRes) (p : Proc) : (groupStop cfg now kr { p := p, outs := os }).err = none := by
  simp only [groupStop, guard, Option.isSome_none, Bool.false_eq_true, if_false]
  repeat' split
  · exact stop_ok _ _ _ _ _ (by simp_all)
  · exact stop_ok _ _ _ _ _ (by simp_all)
  · exact giveUp_ok _ _ _ (by simp_all) rfl
  · rfl

theorem rpcStop_ok (os : List Out) (cfg : Cfg) (now mood : Int) (kr : KillRes) (p : Proc) : (rpcStop cfg now mood kr { p := p, outs := os }).err = none := by
  have hemit : ∀ (o : Out) (s : S), (emit o s).err = s.err := by
    intro o s; obtain ⟨q, os, err⟩ := s; cases err <;> simp [emit, guard]
  simp only [rpcStop, guard, Option.isSome_none, Bool.false_eq_true, if_false, answer]
  repeat' split
  all_goals (rw [hemit])
  all_goals first
    | rfl
    | (apply stop_ok
       rename_i h1 h2 h3
       simp [runningStates] at h2
       cases hs : p.state <;> simp_all)

theorem signal_ok (os : List Out) (cfg : Cfg) (now sig : Int) (kr : KillRes) (p : Proc)
    (hs : p.state = .running ∨ p.state = .starting ∨ p.state = .stopping) :
    (signal cfg now sig kr { p := p, outs := os }).err = none := by
  rcases hs with hs | hs | hs <;> cases kr <;> by_cases hp : p.pid = 0 <;> simp [procdefs, hs, hp]

theorem rpcSignal_ok (os : List Out) (cfg : Cfg) (now mood sig : Int) (kr : KillRes) (p : Proc) :
    (rpcSignal cfg now mood sig kr { p := p, outs := os }).err = none := by
  have hemit : ∀ (o : Out) (s : S), (emit o s).err = s.err := by
    intro o s; obtain ⟨q, os, err⟩ := s; cases err <;> simp [emit, guard]
  simp only [rpcSignal, guard, Option.isSome_none, Bool.false_eq_true, if_false, answer]
  repeat' split
  all_goals (rw [hemit])
  all_goals first
    | rfl
    | (apply signal_ok
       rename_i h1 h2 h3
       simp [signallableStates] at h2
       cases hs : p.state <;> simp_all)

end Sv.Proc
