import SupervisorModel.Basic.Bytes
import SupervisorModel.Basic.St
import SupervisorModel.Generated.Ctl
/-
  Model of supervisorctl (supervisor/supervisorctl.py): `Controller.onecmd` with its exception net and
  401 handling, `upcheck`, `set_exitstatus_from_xmlrpc_fault`, and the actions
  start stop restart signal status pid clear add remove update reread avail tail maintail shutdown reload
  version of `DefaultControllerPlugin`, non-interactive (`options.interactive = False`).

  One action is a function of the command line and a *server script* (the answers the XML-RPC proxy gives,
  in the order the client asks) to (lines written with `ctl.output`, exit status, calls made).
  Control flow is written by hand; every fault-code comparison, every exit-status constant and every
  tolerated-fault argument is the definition regenerated from the source (`Sv.Gen.Ctl.*`); the result
  wording tables and the help texts are regenerated tables.

  Outside the model: help, fg, open, quit/exit/EOF, interactive mode, the HTTP transport of `tail -f`
  (modelled as one pseudo call `GET <path>` answered by a status and a body).
-/
namespace Sv.Ctl
open Sv.Gen.Ctl

/-! ## server answers -/
structure Res where
  group : String
  name : String
  status : Int
  desc : String
deriving DecidableEq, Repr

structure Info where
  group : String
  name : String
  state : Int
  statename : String
  desc : String
  pid : Int
deriving DecidableEq, Repr

structure CfgInfo where
  group : String
  name : String
  inuse : Bool
  autostart : Bool
  gprio : Int
  pprio : Int
deriving DecidableEq, Repr

inductive Val where
  | unit
  | str (s : String)
  | int (n : Int)
  | results (l : List Res)
  | infos (l : List Info)
  | info (i : Info)
  | reload (added changed removed : List String)
  | configs (l : List CfgInfo)
deriving DecidableEq, Repr

/-- what the proxy does for one call: return a value, raise `xmlrpclib.Fault`, raise
    `xmlrpclib.ProtocolError` (HTTP status), raise `socket.error` (errno) -/
inductive Ans where
  | ok (v : Val)
  | fault (code : Int) (text : String)
  | proto (code : Int)
  | sock (errno : Int)
deriving DecidableEq, Repr

structure Call where
  meth : String
  args : List String
  ans : Ans
deriving DecidableEq, Repr

inductive Exc where
  | fault (code : Int) (text : String)
  | proto (code : Int)
  | sock (errno : Int)
  | valueError
  | badScript        -- the script does not fit the calls the client makes (harness error, not Python)
  | unmodelled
deriving DecidableEq, Repr

structure CS where
  script : List Ans
  calls : List Call := []
  exit : Int := 0
  stderr : Bool := false
  url : String := ""
deriving Repr

abbrev S := St CS String Exc

/-! ## evaluating generated definitions (they share one long parameter list) -/
/-- a generated constant -/
abbrev K {α : Type} (f : Int → Int → Int → Int → Option Int → String → String → List String → List String →
    String → String → String → Option String → α) : α := f 0 0 0 0 none "" "" [] [] "" "" "" none
abbrev onCode {α : Type} (f : Int → Int → Int → Int → Option Int → String → String → List String → List String →
    String → String → String → Option String → α) (code : Int) : α := f code 0 0 0 none "" "" [] [] "" "" "" none
abbrev onErrno {α : Type} (f : Int → Int → Int → Int → Option Int → String → String → List String → List String →
    String → String → String → Option String → α) (errno : Int) : α := f 0 errno 0 0 none "" "" [] [] "" "" "" none
abbrev onPid {α : Type} (f : Int → Int → Int → Int → Option Int → String → String → List String → List String →
    String → String → String → Option String → α) (pid : Int) : α := f 0 0 pid 0 none "" "" [] [] "" "" "" none
abbrev onState {α : Type} (f : Int → Int → Int → Int → Option Int → String → String → List String → List String →
    String → String → String → Option String → α) (state : Int) : α := f 0 0 0 state none "" "" [] [] "" "" "" none
abbrev onIgn {α : Type} (f : Int → Int → Int → Int → Option Int → String → String → List String → List String →
    String → String → String → Option String → α) (code : Int) (ign : Option Int) : α :=
  f code 0 0 0 ign "" "" [] [] "" "" "" none
abbrev onArg {α : Type} (f : Int → Int → Int → Int → Option Int → String → String → List String → List String →
    String → String → String → Option String → α) (arg : String) : α := f 0 0 0 0 none arg "" [] [] "" "" "" none
abbrev onApi {α : Type} (f : Int → Int → Int → Int → Option Int → String → String → List String → List String →
    String → String → String → Option String → α) (api : String) : α := f 0 0 0 0 none "" api [] [] "" "" "" none
abbrev onNames {α : Type} (f : Int → Int → Int → Int → Option Int → String → String → List String → List String →
    String → String → String → Option String → α) (names : List String) : α :=
  f 0 0 0 0 none "" "" names [] "" "" "" none
abbrev onArgs {α : Type} (f : Int → Int → Int → Int → Option Int → String → String → List String → List String →
    String → String → String → Option String → α) (args : List String) : α :=
  f 0 0 0 0 none "" "" [] args "" "" "" none
abbrev onPname {α : Type} (f : Int → Int → Int → Int → Option Int → String → String → List String → List String →
    String → String → String → Option String → α) (pname : Option String) : α :=
  f 0 0 0 0 none "" "" [] [] "" "" "" pname
abbrev onMatch {α : Type} (f : Int → Int → Int → Int → Option Int → String → String → List String → List String →
    String → String → String → Option String → α) (igroup iname gname : String) (pname : Option String) : α :=
  f 0 0 0 0 none "" "" [] [] igroup iname gname pname

/-! ## strings: `str.split()`, `str.strip()`, namespecs -/
def isWs (c : Char) : Bool :=
  c == ' ' || c == '\t' || c == '\n' || c == '\r' || c == '\x0b' || c == '\x0c' ||
  (0x1c ≤ c.toNat && c.toNat ≤ 0x1f)

def splitWsAux : List Char → List Char → List (List Char)
  | [], cur => if cur.isEmpty then [] else [cur.reverse]
  | c :: cs, cur =>
    if isWs c then (if cur.isEmpty then splitWsAux cs [] else cur.reverse :: splitWsAux cs [])
    else splitWsAux cs (c :: cur)

/-- `s.split()` -/
def pySplit (s : String) : List String := (splitWsAux s.toList []).map String.ofList

def stripL (cs : List Char) : List Char := cs.dropWhile isWs
/-- `s.strip()` on character lists -/
def strip (cs : List Char) : List Char := (stripL (stripL cs).reverse).reverse

/-- `namespec.split(':', 1)` when there is a colon -/
def splitColon : List Char → Option (List Char × List Char)
  | [] => none
  | c :: cs =>
    if c = ':' then some ([], cs)
    else match splitColon cs with
      | none => none
      | some gp => some (c :: gp.1, gp.2)

/-- options.split_namespec -/
def splitNamespec (ns : String) : String × Option String :=
  match splitColon ns.toList with
  | none => (ns, some ns)
  | some gp => (String.ofList gp.1, if gp.2.isEmpty || gp.2 == ['*'] then none else some (String.ofList gp.2))

/-- options.make_namespec -/
def makeNamespec (g p : String) : String := if g == p then p else g ++ ":" ++ p

/-- `'%s' % x` for a process name that may be None -/
def pyStr : Option String → String
  | some p => p
  | none => "None"

def makeNamespecO (g : String) (p : Option String) : String :=
  if some g == p then pyStr p else g ++ ":" ++ pyStr p

def padRight (s : String) (n : Nat) : String := s ++ String.ofList (List.replicate (n - s.length) ' ')

/-- `int(what)`: optional sign, decimal digits -/
def pyInt (s : String) : Option Int :=
  match s.toList with
  | '+' :: rest => if rest.all Char.isDigit && !rest.isEmpty then (String.ofList rest).toNat?.map Int.ofNat else none
  | '-' :: rest => if rest.all Char.isDigit && !rest.isEmpty then (String.ofList rest).toNat?.map (fun n => - Int.ofNat n) else none
  | rest => if rest.all Char.isDigit && !rest.isEmpty then (String.ofList rest).toNat?.map Int.ofNat else none

/-! ## primitives -/
def out (l : String) : S → S := emit l
def outs (ls : List String) : S → S := fun s => ls.foldl (fun s l => out l s) s
def setExit (n : Int) : S → S := setP fun p => { p with exit := n }
def badScript : S → S := raise Exc.badScript
def raiseFault (c : Int) (t : String) : S → S := raise (Exc.fault c t)
def raiseSock (e : Int) : S → S := raise (Exc.sock e)

/-- one call on the server proxy: pops the next answer of the script, records the call, and continues
    with the matching continuation; `ProtocolError` always propagates -/
def rpc (meth : String) (args : List String) (kOk : Val → S → S) (kFault : Int → String → S → S)
    (kSock : Int → S → S) : S → S := guard fun s =>
  match s.p.script with
  | [] => badScript s
  | a :: rest =>
    let s1 : S := { s with p := { s.p with script := rest, calls := s.p.calls ++ [⟨meth, args, a⟩] } }
    match a with
    | .ok v => kOk v s1
    | .fault c t => kFault c t s1
    | .proto c => raise (Exc.proto c) s1
    | .sock e => kSock e s1

/-- Controller.set_exitstatus_from_xmlrpc_fault -/
def setExitFromFault (code : Int) (ign : Option Int) : S → S := guard fun s =>
  if onIgn setexit_g0 code ign then s
  else if onIgn setexit_g1 code ign then setExit (K setexit_a0) s
  else setExit (K setexit_a1) s

/-! ## result wording -/
def lookupWord (tbl : List (Int × Word)) (code : Int) : Option Word := (tbl.find? fun e => e.1 == code).map (·.2)

def renderWord (tmpl : String × String × String) (success : String) (name desc : String) : Word → String
  | .err t => tmpl.1 ++ name ++ tmpl.2.1 ++ t ++ tmpl.2.2
  | .ok t => name ++ ": " ++ t
  | .okparam => name ++ ": " ++ success
  | .desc => desc

/-- `_startresult` / `_signalresult` / `_clearresult`: `none` = the final `raise ValueError` -/
def resultLine (tbl : List (Int × Word)) (tmpl : String × String × String) (success : String)
    (group : String) (name : Option String) (status : Int) (desc : String) : Option String :=
  (lookupWord tbl status).map (renderWord tmpl success (makeNamespecO group name) desc)

def startLine (group : String) (name : Option String) (status : Int) (desc : String) : Option String :=
  resultLine startWording startWording_template "" group name status desc
def stopLine (group : String) (name : Option String) (status : Int) (desc : String) : Option String :=
  resultLine signalWording signalWording_template stopSuccessWord group name status desc
def signalLine (group : String) (name : Option String) (status : Int) (desc : String) : Option String :=
  resultLine signalWording signalWording_template signalSuccessWord group name status desc
def clearLine (group : String) (name : Option String) (status : Int) (desc : String) : Option String :=
  resultLine clearWording clearWording_template "" group name status desc

abbrev LineFn := String → Option String → Int → String → Option String

/-- `self.ctl.output(self._xresult(result)); self.ctl.set_exitstatus_from_xmlrpc_fault(status, ign)` -/
def printOne (line : LineFn) (ign : Option Int) (group : String) (name : Option String) (status : Int)
    (desc : String) : S → S :=
  match line group name status desc with
  | none => raise Exc.valueError
  | some l => fun s => s |> out l |> setExitFromFault status ign

/-- `for result in results: …` -/
def printResults (line : LineFn) (ign : Option Int) : List Res → S → S
  | [] => id
  | r :: rs => fun s => s |> printOne line ign r.group (some r.name) r.status r.desc |> printResults line ign rs

def expectResults (k : List Res → S → S) : Val → S → S
  | .results rs => k rs
  | _ => badScript

/-- a method documented to return `True` -/
def expectUnit (k : S → S) : Val → S → S
  | .unit => k
  | _ => badScript

/-! ## upcheck -/
def msgWrongVersion (api : String) : String :=
  "Sorry, this version of supervisorctl expects to talk to a server with API version " ++ API_VERSION ++
  ", but the remote version is " ++ api ++ "."
def msgNoNamespace : String :=
  "Sorry, supervisord responded but did not recognize the supervisor namespace commands that supervisorctl " ++
  "uses to control it.  Please check that the [rpcinterface:supervisor] section is enabled in the " ++
  "configuration file (see sample.conf)."

/-- Controller.upcheck; `onUp` continues after `True`, `onDown` after `False` -/
def upcheck (onUp onDown : S → S) : S → S :=
  rpc "getVersion" []
    (fun v s => match v with
      | .str api =>
        if onApi upcheck_g0 api then s |> out (msgWrongVersion api) |> setExit (K upcheck_a2) |> onDown
        else onUp s
      | _ => badScript s)
    (fun code text s =>
      if onCode upcheck_g1 code then s |> out msgNoNamespace |> setExit (K upcheck_a4) |> onDown
      else s |> setExit (K upcheck_a6) |> raiseFault code text)
    (fun errno s =>
      if onErrno upcheck_g2 errno then s |> out (s.p.url ++ " refused connection") |> setExit (K upcheck_a7) |> onDown
      else if onErrno upcheck_g3 errno then s |> out (s.p.url ++ " no such file") |> setExit (K upcheck_a9) |> onDown
      else s |> setExit (K upcheck_a11) |> raiseSock errno)

/-! ## start / stop / signal / restart / clear -/
def startOne (name : String) : S → S :=
  let gp := splitNamespec name
  if onPname do_start_g3 gp.2 then
    rpc "startProcessGroup" [gp.1]
      (expectResults (printResults startLine (some (K do_start_c1_1))))
      (fun code text s =>
        if onCode do_start_g4 code then s |> out (gp.1 ++ ": ERROR (no such group)") |> setExit (K do_start_a7)
        else if onCode do_start_g5 code then
          s |> out (gp.1 ++ ": ERROR (supervisor shutting down)") |> setExit (K do_start_a9)
        else s |> setExit (K do_start_a10) |> raiseFault code text)
      raiseSock
  else
    rpc "startProcess" [name]
      (expectUnit (out (makeNamespecO gp.1 gp.2 ++ ": started")))
      (fun code text => printOne startLine (some (K do_start_c2_1)) gp.1 gp.2 code text)
      raiseSock

def startNames (names : List String) : S → S :=
  if onNames do_start_g2 names then
    rpc "startAllProcesses" [] (expectResults (printResults startLine (some (K do_start_c0_1)))) raiseFault raiseSock
  else fun s => names.foldl (fun s n => startOne n s) s

def doStart (arg : String) : S → S :=
  upcheck (fun s =>
    let names := pySplit arg
    if onNames do_start_g1 names then
      s |> out "Error: start requires a process name" |> setExit (K do_start_a2) |> outs help_start
    else startNames names s) id

def stopOne (name : String) : S → S :=
  let gp := splitNamespec name
  if onPname do_stop_g3 gp.2 then
    rpc "stopProcessGroup" [gp.1]
      (expectResults (printResults stopLine (some (K do_stop_c1_1))))
      (fun code text s =>
        let s := setExit (K do_stop_a6) s
        if onCode do_stop_g4 code then s |> out (gp.1 ++ ": ERROR (no such group)")
        else if onCode do_stop_g5 code then s |> out (gp.1 ++ ": ERROR (supervisor shutting down)")
        else s |> raiseFault code text)
      raiseSock
  else
    rpc "stopProcess" [name]
      (expectUnit (out (makeNamespecO gp.1 gp.2 ++ ": stopped")))
      (fun code text => printOne stopLine (some (K do_stop_c2_1)) gp.1 gp.2 code text)
      raiseSock

def stopNames (names : List String) : S → S :=
  if onNames do_stop_g2 names then
    rpc "stopAllProcesses" [] (expectResults (printResults stopLine (some (K do_stop_c0_1)))) raiseFault raiseSock
  else fun s => names.foldl (fun s n => stopOne n s) s

def doStop (arg : String) : S → S :=
  upcheck (fun s =>
    let names := pySplit arg
    if onNames do_stop_g1 names then
      s |> out "Error: stop requires a process name" |> setExit (K do_stop_a2) |> outs help_stop
    else stopNames names s) id

def doRestart (arg : String) : S → S :=
  upcheck (fun s =>
    let names := pySplit arg
    if onNames do_restart_g1 names then
      s |> out "Error: restart requires a process name" |> setExit (K do_restart_a1) |> outs help_restart
    else s |> doStop arg |> doStart arg) id

def signalOne (sig : String) (name : String) : S → S :=
  let gp := splitNamespec name
  if onPname do_signal_g3 gp.2 then
    rpc "signalProcessGroup" [gp.1, sig]
      (expectResults (printResults signalLine none))
      (fun code text s =>
        if onCode do_signal_g4 code then s |> out (gp.1 ++ ": ERROR (no such group)") |> setExit (K do_signal_a9)
        else if onCode do_signal_g5 code then
          s |> out (gp.1 ++ ": ERROR (supervisor shutting down)") |> setExit (K do_signal_a11)
        else s |> raiseFault code text)
      raiseSock
  else
    rpc "signalProcess" [name, sig]
      (expectUnit (out (makeNamespecO gp.1 gp.2 ++ ": signalled")))
      (fun code text => printOne signalLine none gp.1 gp.2 code text)
      raiseSock

def signalNames (sig : String) (names : List String) : S → S :=
  if onNames do_signal_g2 names then
    rpc "signalAllProcesses" [sig] (expectResults (printResults signalLine none)) raiseFault raiseSock
  else fun s => names.foldl (fun s n => signalOne sig n s) s

def doSignal (arg : String) : S → S :=
  upcheck (fun s =>
    let args := pySplit arg
    if onArgs do_signal_g1 args then
      s |> out "Error: signal requires a signal name and a process name" |> outs help_signal |> setExit (K do_signal_a1)
    else
      match args with
      | sig :: names => signalNames sig names s
      | [] => s |> out "Error: signal requires a signal name and a process name" |> outs help_signal |> setExit (K do_signal_a1)) id

def clearOne (name : String) : S → S :=
  let gp := splitNamespec name
  rpc "clearProcessLogs" [name]
    (expectUnit (out (makeNamespecO gp.1 gp.2 ++ ": cleared")))
    (fun code text => printOne clearLine none gp.1 gp.2 code text)
    raiseSock

def clearNames (names : List String) : S → S :=
  if onNames do_clear_g2 names then
    rpc "clearAllProcessLogs" [] (expectResults (printResults clearLine none)) raiseFault raiseSock
  else fun s => names.foldl (fun s n => clearOne n s) s

def doClear (arg : String) : S → S :=
  upcheck (fun s =>
    let names := pySplit arg
    if onNames do_clear_g1 names then
      s |> out "Error: clear requires a process name" |> setExit (K do_clear_a1) |> outs help_clear
    else clearNames names s) id

/-! ## status / pid -/
def infoNamespec (i : Info) : String := makeNamespec i.group i.name

def statusLine (maxlen : Nat) (i : Info) : String :=
  padRight (infoNamespec i) (maxlen + 3) ++ padRight i.statename 10 ++ i.desc

def showStatuses (infos : List Info) : S → S :=
  let maxlen := infos.foldl (fun m i => if (infoNamespec i).length > m then (infoNamespec i).length else m) 30
  outs (infos.map (statusLine maxlen))

/-- `matched` of do_status for one (name, info) pair -/
def statusMatches (gp : String × Option String) (i : Info) : Bool :=
  if onMatch do_status_g2 i.group i.name gp.1 gp.2 then
    onMatch do_status_a8 i.group i.name gp.1 gp.2 && (some i.name == gp.2)
  else onMatch do_status_a8 i.group i.name gp.1 gp.2

def statusName (all : List Info) (name : String) (acc : S × List Info) : S × List Info :=
  let gp := splitNamespec name
  let hit := all.filter (statusMatches gp)
  if hit.isEmpty then
    let msg := if onPname do_status_g5 gp.2 then gp.1 ++ ": ERROR (no such group)" else name ++ ": ERROR (no such process)"
    (acc.1 |> out msg |> setExit (K do_status_a13), acc.2)
  else (acc.1, acc.2 ++ hit)

def statusSelect (all : List Info) (names : List String) (s : S) : S × List Info :=
  names.foldl (fun acc n => statusName all n acc) (s, [])

def markStopped (infos : List Info) : S → S := fun s =>
  infos.foldl (fun s i => if onState do_status_g6 i.state then setExit (K do_status_a14) s else s) s

def doStatus (arg : String) : S → S :=
  upcheck
    (rpc "getAllProcessInfo" []
      (fun v s => match v with
        | .infos all =>
          let names := pySplit arg
          if onNames do_status_g1 names then s |> showStatuses all |> markStopped all
          else
            let sel := statusSelect all names s
            sel.1 |> showStatuses sel.2 |> markStopped sel.2
        | _ => badScript s)
      raiseFault raiseSock)
    (setExit (K do_status_a0))

def pidOne (name : String) : S → S :=
  rpc "getProcessInfo" [name]
    (fun v s => match v with
      | .info i =>
        let s := out (toString i.pid) s
        if onPid do_pid_g4 i.pid then setExit (K do_pid_a6) s else s
      | _ => badScript s)
    (fun code text s =>
      let s := setExit (K do_pid_a4) s
      if onCode do_pid_g3 code then out ("No such process " ++ name) s
      else if onCode do_pid_g5 code then out (name ++ ": ERROR (supervisor shutting down)") s
      else raiseFault code text s)
    raiseSock

def doPid (arg : String) : S → S :=
  upcheck (fun s =>
    let names := pySplit arg
    if onNames do_pid_g1 names then
      rpc "getPID" [] (fun v s => match v with | .int n => out (toString n) s | _ => badScript s) raiseFault raiseSock s
    else if onNames do_pid_g2 names then
      rpc "getAllProcessInfo" []
        (fun v s => match v with | .infos l => outs (l.map fun i => toString i.pid) s | _ => badScript s)
        raiseFault raiseSock s
    else names.foldl (fun s n => pidOne n s) s) id

/-! ## add / remove / shutdown / reload / version / reread / avail -/
def addOne (name : String) : S → S :=
  rpc "addProcessGroup" [name]
    (expectUnit (out (name ++ ": added process group")))
    (fun code text s =>
      if onCode do_add_g1 code then s |> out "ERROR: shutting down" |> setExit (K do_add_a3)
      else if onCode do_add_g2 code then s |> out "ERROR: process group already active"
      else if onCode do_add_g3 code then s |> out ("ERROR: no such process/group: " ++ name) |> setExit (K do_add_a4)
      else s |> setExit (K do_add_a5) |> raiseFault code text)
    raiseSock

def doAdd (arg : String) : S → S := fun s =>
  if onNames do_add_g0 (pySplit arg) then
    s |> out "Error: add requires a process/group name" |> setExit (K do_add_a1) |> outs help_add
  else (pySplit arg).foldl (fun s n => addOne n s) s

def removeOne (name : String) : S → S :=
  rpc "removeProcessGroup" [name]
    (expectUnit (out (name ++ ": removed process group")))
    (fun code text s =>
      let s := setExit (K do_remove_a3) s
      if onCode do_remove_g3 code then s |> out "ERROR: shutting down"
      else if onCode do_remove_g1 code then s |> out ("ERROR: process/group still running: " ++ name)
      else if onCode do_remove_g2 code then s |> out ("ERROR: no such process/group: " ++ name)
      else s |> raiseFault code text)
    raiseSock

def doRemove (arg : String) : S → S := fun s =>
  if onNames do_remove_g0 (pySplit arg) then
    s |> out "Error: remove requires a process/group name" |> setExit (K do_remove_a1) |> outs help_remove
  else (pySplit arg).foldl (fun s n => removeOne n s) s

def doShutdown (arg : String) : S → S :=
  if onArg do_shutdown_g0 arg then
    fun s => s |> out "Error: shutdown accepts no arguments" |> setExit (K do_shutdown_a0) |> outs help_shutdown
  else
    rpc "shutdown" []
      (expectUnit (out "Shut down"))
      (fun code text s =>
        if onCode do_shutdown_g3 code then s |> out "ERROR: already shutting down"
        else s |> setExit (K do_shutdown_a5) |> raiseFault code text)
      (fun errno s =>
        let s := setExit (K do_shutdown_a6) s
        if onErrno do_shutdown_g4 errno then s |> out ("ERROR: " ++ s.p.url ++ " refused connection (already shut down?)")
        else if onErrno do_shutdown_g5 errno then s |> out ("ERROR: " ++ s.p.url ++ " no such file (already shut down?)")
        else s |> raiseSock errno)

def doReload (arg : String) : S → S :=
  if onArg do_reload_g0 arg then
    fun s => s |> out "Error: reload accepts no arguments" |> setExit (K do_reload_a0) |> outs help_reload
  else
    rpc "restart" []
      (expectUnit (out "Restarted supervisord"))
      (fun code text s =>
        let s := setExit (K do_reload_a5) s
        if onCode do_reload_g3 code then s |> out "ERROR: already shutting down"
        else s |> raiseFault code text)
      raiseSock

def doVersion (arg : String) : S → S :=
  if onArg do_version_g0 arg then
    fun s => s |> out "Error: version accepts no arguments" |> setExit (K do_version_a0) |> outs help_version
  else
    upcheck
      (rpc "getSupervisorVersion" [] (fun v s => match v with | .str x => out x s | _ => badScript s) raiseFault raiseSock)
      id

/-- `_formatChanges`: names sorted, later categories overwrite earlier ones -/
def insertSorted (kv : String × String) : List (String × String) → List (String × String)
  | [] => [kv]
  | x :: xs => if kv.1 < x.1 then kv :: x :: xs else if kv.1 == x.1 then kv :: xs else x :: insertSorted kv xs

def formatChanges (added changed dropped : List String) : S → S :=
  let d0 := added.foldl (fun d n => insertSorted (n, "available") d) []
  let d1 := changed.foldl (fun d n => insertSorted (n, "changed") d) d0
  let d2 := dropped.foldl (fun d n => insertSorted (n, "disappeared") d) d1
  if d2.isEmpty then out "No config updates to processes"
  else outs (d2.map fun kv => kv.1 ++ ": " ++ kv.2)

def doReread (arg : String) : S → S :=
  if onArg do_reread_g0 arg then
    fun s => s |> out "Error: reread accepts no arguments" |> setExit (K do_reread_a0) |> outs help_reread
  else
    rpc "reloadConfig" []
      (fun v s => match v with | .reload a c r => formatChanges a c r s | _ => badScript s)
      (fun code text s =>
        let s := setExit (K do_reread_a3) s
        if onCode do_reread_g1 code then s |> out "ERROR: supervisor shutting down"
        else if onCode do_reread_g2 code then s |> out ("ERROR: " ++ text)
        else s |> raiseFault code text)
      raiseSock

def formatConfigInfo (c : CfgInfo) : String :=
  padRight (makeNamespec c.group c.name) 32 ++ " " ++ padRight (if c.inuse then "in use" else "avail") 9 ++ " " ++
  padRight (if c.autostart then "auto" else "manual") 9 ++ " " ++ toString c.gprio ++ ":" ++ toString c.pprio

def doAvail (arg : String) : S → S :=
  if onArg do_avail_g0 arg then
    fun s => s |> out "Error: avail accepts no arguments" |> setExit (K do_avail_a0) |> outs help_avail
  else
    rpc "getAllConfigInfo" []
      (fun v s => match v with | .configs l => outs (l.map formatConfigInfo) s | _ => badScript s)
      (fun code text s =>
        let s := setExit (K do_avail_a3) s
        if onCode do_avail_g1 code then s |> out "ERROR: supervisor shutting down"
        else s |> raiseFault code text)
      raiseSock

/-! ## update -/
def dedupSorted (l : List String) : List String :=
  (l.foldl (fun d n => insertSorted (n, "") d) []).map (·.1)

/-- `if valid_gnames and gname not in valid_gnames: continue` -/
def skipped (valid : List String) (g : String) : Bool := !valid.isEmpty && !valid.contains g

/-- do_update.stop_failures: some entry is neither SUCCESS nor NOT_RUNNING -/
def stopFailed (rs : List Res) : Bool := rs.any fun r => !(updateStopOk.contains r.status)

def updRemoved (valid : List String) (g : String) : S → S :=
  if skipped valid g then id
  else
    rpc "stopProcessGroup" [g]
      (expectResults fun rs s =>
        let s := out (g ++ ": stopped") s
        if stopFailed rs then
          s |> out (g ++ ": has problems; not removing") |> setExit (K do_update_a9)
        else
          s |> rpc "removeProcessGroup" [g] (expectUnit (out (g ++ ": removed process group"))) raiseFault raiseSock)
      raiseFault raiseSock

def updChanged (valid : List String) (g : String) : S → S :=
  if skipped valid g then id
  else
    rpc "stopProcessGroup" [g]
      (expectResults fun rs s =>
        let s := out (g ++ ": stopped") s
        if stopFailed rs then
          s |> out (g ++ ": has problems; not updating") |> setExit (K do_update_a11)
        else
          s |> rpc "removeProcessGroup" [g]
            (expectUnit (rpc "addProcessGroup" [g] (expectUnit (out (g ++ ": updated process group"))) raiseFault raiseSock))
            raiseFault raiseSock)
      raiseFault raiseSock

def updAdded (valid : List String) (g : String) : S → S :=
  if skipped valid g then id
  else rpc "addProcessGroup" [g] (expectUnit (out (g ++ ": added process group"))) raiseFault raiseSock

def updApply (valid added changed removed : List String) : S → S := fun s =>
  let s := removed.foldl (fun s g => updRemoved valid g s) s
  let s := changed.foldl (fun s g => updChanged valid g s) s
  added.foldl (fun s g => updAdded valid g s) s

/-- `valid_gnames` of do_update (a set; kept sorted) -/
def validOf (arg : String) : List String :=
  if (dedupSorted (pySplit arg)).contains "all" then [] else dedupSorted (pySplit arg)

def updNoSuch (groups : List String) (g : String) : S → S := fun s =>
  if groups.contains g then s
  else s |> out ("ERROR: no such group: " ++ g) |> setExit (K do_update_a7)

/-- do_update after reloadConfig answered -/
def updChecked (valid added changed removed : List String) : S → S :=
  if valid.isEmpty then updApply valid added changed removed
  else
    rpc "getAllProcessInfo" []
      (fun v s => match v with
        | .infos l =>
          s |> (fun s => valid.foldl (fun s g => updNoSuch (l.map (·.group) ++ added) g s) s)
            |> updApply valid added changed removed
        | _ => badScript s)
      raiseFault raiseSock

def doUpdate (arg : String) : S → S :=
  rpc "reloadConfig" []
    (fun v s => match v with
      | .reload added changed removed => updChecked (validOf arg) added changed removed s
      | _ => badScript s)
    (fun code text s =>
      let s := setExit (K do_update_a2) s
      if onCode do_update_g0 code then s |> out "ERROR: already shutting down"
      else s |> raiseFault code text)
    raiseSock

/-! ## tail / maintail -/
def lowerAscii (s : String) : String := String.ofList (s.toList.map Char.toLower)

/-- `_tailf(path)`: the HTTP transport is one pseudo call answered `int status` (non-200: the listener writes
    to stderr and TailListener.error sets the exit status) or `str body` (status 200; the body goes to the process' stdout, not through `ctl.output`) -/
def tailF (path : String) : S → S := fun s =>
  s |> out "==> Press Ctrl-C to exit <=="
    |> rpc "GET" [path]
        (fun v s => match v with
          | .int _ => s |> setP (fun p => { p with stderr := true }) |> setExit (K taillistener_a0)
          | .str _ => s
          | _ => badScript s)
        (fun _ _ => badScript) (fun _ => badScript)

def tailRead (name channel : String) (bytes : Int) : S → S :=
  rpc (if channel == "stdout" then "readProcessStdoutLog" else "readProcessStderrLog") [name, toString (-bytes), "0"]
    (fun v s => match v with | .str x => out x s | _ => badScript s)
    (fun code text s =>
      let s := setExit (K do_tail_a20) s
      if onCode do_tail_g11 code then s |> out (name ++ ": ERROR (no log file)")
      else if onCode do_tail_g12 code then s |> out (name ++ ": ERROR (unknown error reading log)")
      else if onCode do_tail_g13 code then s |> out (name ++ ": ERROR (no such process name)")
      else s |> raiseFault code text)
    raiseSock

/-- the part of do_tail after name/channel are known -/
def tailGo (modifier : Option String) (name channel : String) : S → S :=
  match modifier with
  | none => tailRead name channel (K do_tail_a11)
  | some m =>
    let what := String.ofList (m.toList.drop 1)
    if what == "f" then tailF ("/logtail/" ++ name ++ "/" ++ channel)
    else match pyInt what with
      | some n => tailRead name channel n
      | none => fun s => s |> out ("Error: bad argument " ++ m) |> setExit (K do_tail_a15)

def tailArgs (modifier : Option String) (args : List String) : S → S :=
  if onArgs do_tail_g4 args then
    match args.getLast? with
    | some name => tailGo modifier name "stdout"
    | none => badScript
  else if onArgs do_tail_g5 args then
    match args.head?, args.getLast? with
    | some name, some last =>
      let channel := lowerAscii last
      if channel != "stderr" && channel != "stdout" then
        fun s => s |> out ("Error: bad channel '" ++ channel ++ "'") |> setExit (K do_tail_a9)
      else tailGo modifier name channel
    | _, _ => badScript
  else fun s => s |> out "Error: tail requires process name" |> setExit (K do_tail_a10)

def doTail (arg : String) : S → S :=
  upcheck (fun s =>
    let args := pySplit arg
    if onArgs do_tail_g1 args then
      s |> out "Error: too few arguments" |> setExit (K do_tail_a1) |> outs help_tail
    else if onArgs do_tail_g2 args then
      s |> out "Error: too many arguments" |> setExit (K do_tail_a2) |> outs help_tail
    else
      match args with
      | a0 :: rest => if a0.toList.head? == some '-' then tailArgs (some a0) rest s else tailArgs none args s
      | [] => badScript s) id

def mainRead (bytes : Int) : S → S :=
  rpc "readLog" [toString (-bytes), "0"]
    (fun v s => match v with | .str x => out x s | _ => badScript s)
    (fun code text s =>
      let s := setExit (K do_maintail_a12) s
      if onCode do_maintail_g5 code then s |> out "supervisord: ERROR (no log file)"
      else if onCode do_maintail_g6 code then s |> out "supervisord: ERROR (unknown error reading log)"
      else s |> raiseFault code text)
    raiseSock

def doMaintail (arg : String) : S → S :=
  upcheck (fun s =>
    let args := pySplit arg
    if onArgs do_maintail_g1 args then
      s |> out "Error: too many arguments" |> setExit (K do_maintail_a1) |> outs help_maintail
    else if onArgs do_maintail_g2 args then
      match args with
      | a0 :: _ =>
        if a0.toList.head? == some '-' then
          let what := String.ofList (a0.toList.drop 1)
          if what == "f" then tailF "/mainlogtail" s
          else match pyInt what with
            | some n => mainRead n s
            | none => s |> out ("Error: bad argument " ++ a0) |> setExit (K do_maintail_a6)
        else s |> out ("Error: bad argument " ++ a0) |> setExit (K do_maintail_a8)
      | [] => badScript s
    else mainRead (K do_maintail_a9) s) id

/-! ## onecmd -/
inductive Action where
  | start | stop | restart | signal | status | pid | clear | add | remove | update | reread | avail
  | tail | maintail | shutdown | reload | version
deriving DecidableEq, Repr

def Action.ofString : String → Option Action
  | "start" => some .start | "stop" => some .stop | "restart" => some .restart | "signal" => some .signal
  | "status" => some .status | "pid" => some .pid | "clear" => some .clear | "add" => some .add
  | "remove" => some .remove | "update" => some .update | "reread" => some .reread | "avail" => some .avail
  | "tail" => some .tail | "maintail" => some .maintail | "shutdown" => some .shutdown
  | "reload" => some .reload | "version" => some .version
  | _ => none

def Action.all : List Action :=
  [.start, .stop, .restart, .signal, .status, .pid, .clear, .add, .remove, .update, .reread, .avail,
   .tail, .maintail, .shutdown, .reload, .version]

def Action.run : Action → String → S → S
  | .start => doStart | .stop => doStop | .restart => doRestart | .signal => doSignal
  | .status => doStatus | .pid => doPid | .clear => doClear | .add => doAdd | .remove => doRemove
  | .update => doUpdate | .reread => doReread | .avail => doAvail | .tail => doTail
  | .maintail => doMaintail | .shutdown => doShutdown | .reload => doReload | .version => doVersion

/-- the other do_* methods reachable from onecmd (not modelled) -/
def unmodelledCmds : List String := ["help", "EOF", "quit", "exit", "open", "fg"]

def excName : Exc → String
  | .fault _ _ => "Fault"
  | .proto _ => "ProtocolError"
  | .sock _ => "OSError"
  | .valueError => "ValueError"
  | .badScript => "badScript"
  | .unmodelled => "unmodelled"

def isHarnessErr : Option Exc → Bool
  | some .badScript => true
  | some .unmodelled => true
  | _ => false

/-- the outer `except Exception:` of onecmd -/
def net (s : S) : S :=
  match s.err with
  | none => s
  | some e =>
    if isHarnessErr (some e) then s
    else { s with err := none } |> out ("error: " ++ excName e) |> setExit (K onecmd_a18)

/-- the try/except structure of onecmd around `do_func(arg)` (non-interactive) -/
def protect (f : S → S) (s : S) : S :=
  let s1 := f s
  match s1.err with
  | some (.proto c) =>
    if onCode onecmd_g4 c then
      net (({ s1 with err := none } : S) |> out "Server requires authentication" |> setExit (K onecmd_a14) |> f)
    else net (({ s1 with err := none } : S) |> setExit (K onecmd_a15) |> raise (Exc.proto c))
  | _ => net s1

def isIdentChar (c : Char) : Bool := c.isAlphanum || c == '_'

/-- Controller.default -/
def unknownSyntax (line : String) : S → S := fun s =>
  s |> out ("*** Unknown syntax: " ++ line) |> setExit (K dflt_a0)

/-- Controller.onecmd (with cmd.Cmd.parseline) -/
def onecmd (line : String) : S → S := fun s =>
  let l := strip line.toList
  match l with
  | [] => s
  | '?' :: _ => raise Exc.unmodelled s
  | '!' :: _ => unknownSyntax (String.ofList l) s
  | _ =>
    let cmd := String.ofList (l.takeWhile isIdentChar)
    let arg := String.ofList (strip (l.dropWhile isIdentChar))
    if cmd == "" then unknownSyntax (String.ofList l) s
    else match Action.ofString cmd with
      | some a => protect (a.run arg) s
      | none => if unmodelledCmds.contains cmd then raise Exc.unmodelled s else unknownSyntax (String.ofList l) s

def init (url : String) (script : List Ans) : S := { p := { script := script, url := url } }

/-- one invocation `supervisorctl <line>` against a server that answers as `script` says -/
def run (url : String) (line : String) (script : List Ans) : S := onecmd line (init url script)

/-! ## line protocol -/
def hexDigitU (n : Nat) : Char := hexDigit n

/-- ASCII rendering of a string: printable ASCII as is, backslash doubled, everything else `\u{hex}` -/
def esc (s : String) : String :=
  String.ofList (s.toList.flatMap fun c =>
    if c == '\\' then ['\\', '\\']
    else if 0x20 ≤ c.toNat && c.toNat < 0x7f then [c]
    else ['\\', 'u', '{'] ++ (Nat.toDigits 16 c.toNat) ++ ['}'])

def strOfHex (h : String) : Option String :=
  (bytesOfHex h).bind fun b => String.fromUTF8? (ByteArray.mk b.toArray)

def splitList (s : String) (sep : String) : List String := if s == "" then [] else s.splitOn sep

def allSome {α : Type} : List (Option α) → Option (List α)
  | [] => some []
  | none :: _ => none
  | some a :: rest => (allSome rest).map (a :: ·)

def parseRes (t : String) : Option Res :=
  match t.splitOn "/" with
  | [g, n, st, d] =>
    match strOfHex g, strOfHex n, st.toInt?, strOfHex d with
    | some g, some n, some st, some d => some ⟨g, n, st, d⟩
    | _, _, _, _ => none
  | _ => none

def parseInfo (t : String) : Option Info :=
  match t.splitOn "/" with
  | [g, n, st, sn, d, pid] =>
    match strOfHex g, strOfHex n, st.toInt?, strOfHex sn, strOfHex d, pid.toInt? with
    | some g, some n, some st, some sn, some d, some pid => some ⟨g, n, st, sn, d, pid⟩
    | _, _, _, _, _, _ => none
  | _ => none

def parseCfg (t : String) : Option CfgInfo :=
  match t.splitOn "/" with
  | [g, n, iu, au, gp, pp] =>
    match strOfHex g, strOfHex n, iu.toInt?, au.toInt?, gp.toInt?, pp.toInt? with
    | some g, some n, some iu, some au, some gp, some pp => some ⟨g, n, iu != 0, au != 0, gp, pp⟩
    | _, _, _, _, _, _ => none
  | _ => none

def parseNames (t : String) : Option (List String) := allSome ((splitList t ",").map strOfHex)

def parseAns (t : String) : Option Ans :=
  match t.splitOn ":" with
  | ["V"] => some (.ok .unit)
  | ["S", h] => (strOfHex h).map fun s => .ok (.str s)
  | ["I", n] => n.toInt?.map fun n => .ok (.int n)
  | ["R", l] => (allSome ((splitList l ",").map parseRes)).map fun l => .ok (.results l)
  | ["P", l] => (allSome ((splitList l ",").map parseInfo)).map fun l => .ok (.infos l)
  | ["Q", i] => (parseInfo i).map fun i => .ok (.info i)
  | ["C", l] => (allSome ((splitList l ",").map parseCfg)).map fun l => .ok (.configs l)
  | ["L", l] =>
    match l.splitOn ";" with
    | [a, c, r] =>
      match parseNames a, parseNames c, parseNames r with
      | some a, some c, some r => some (.ok (.reload a c r))
      | _, _, _ => none
    | _ => none
  | ["F", c, h] =>
    match c.toInt?, strOfHex h with
    | some c, some t => some (.fault c t)
    | _, _ => none
  | ["H", c] => c.toInt?.map .proto
  | ["E", e] => e.toInt?.map .sock
  | _ => none

def renderCall (c : Call) : String := c.meth ++ "(" ++ ",".intercalate c.args ++ ")"

def renderS (s : S) : String :=
  match s.err with
  | some .badScript => "bad-op script"
  | some .unmodelled => "unmodelled"
  | _ =>
    "exit=" ++ toString s.p.exit ++ " stderr=" ++ (if s.p.stderr then "1" else "0") ++
    " left=" ++ toString s.p.script.length ++
    " calls=" ++ esc (";".intercalate (s.p.calls.map renderCall)) ++
    " out=" ++ esc ("".intercalate (s.outs.map (· ++ "\n")))

def runCase (cfg : List String) (ops : List String) : List String :=
  match kvGet cfg "url" >>= strOfHex with
  | none => ops.map fun _ => "bad-config"
  | some url => ops.map fun l =>
    match words l with
    | "cmd" :: line :: toks =>
      match strOfHex line, allSome (toks.map parseAns) with
      | some line, some script => renderS (run url line script)
      | _, _ => "bad-op"
    | _ => "bad-op"

end Sv.Ctl
