"""
C11, second half: *what* is announced and *when*.

L1   group histories: the real Supervisor.add_process_group / remove_process_group (directly and through the real
     addProcessGroup / removeProcessGroup RPC methods) over real ProcessGroupConfig / EventListenerPoolConfig /
     FastCGIGroupConfig objects, with a fault at every point where an addition or removal can fail (after_setuid,
     make_group, before_remove raising; a FastCGI socket that cannot be bound; processes still running), retries included.
     Correspondence with Model/Notify.lean (`case groups`), monitors: notifications vs the table, one to one.
L1   reaping: the real Subprocess.finish over a real POutputDispatcher (every dispatcher configuration of C07/C08, streams
     with capture tokens, a last read that returns data, nothing or end of file).  Correspondence (`case finish`), monitors:
     every output notification names the child's pid and precedes the state notification; nothing read is left unannounced.
L1   Subprocess.change_state: the values of the notification are those at the change (`case change`).
L2   the unmodified Supervisor.run()/runforever() over harness/simkernel.py (subclassed here only to record more: the payload
     rendered at notification time, the keys of supervisord.process_groups and the mood at every record; and to create /
     remove the directory of a FastCGI socket on script request).  Monitors over the kernel's own log: group notifications
     vs the table, PROCESS_LOG / PROCESS_COMMUNICATION vs the bytes each child pid wrote (pid, process, group, channel,
     order with respect to the exit notification, completeness), PROCESS_STATE chain / pid / expected / tries vs the kernel's
     child table, SUPERVISOR_STATE_CHANGE vs the mood, TICK vs the clock of successive passes, REMOTE_COMMUNICATION vs the
     sendRemoteCommEvent calls, and "rendered again later, every payload is unchanged".
"""
import errno, os, random, re, shutil, signal, types

from props import _outdisp as od
from props._outdisp import hexs

ADDED, REMOVED = 'ProcessGroupAddedEvent', 'ProcessGroupRemovedEvent'
STILL_RUNNING, ALREADY_ADDED = 91, 90        # xmlrpc.Faults (checked against the tree under verification in GroupWorld)
ST = {0: 'STOPPED', 10: 'STARTING', 20: 'RUNNING', 30: 'BACKOFF', 40: 'STOPPING', 100: 'EXITED', 200: 'FATAL', 1000: 'UNKNOWN'}
CODE = {v: k for k, v in ST.items()}


# =============================================================================================== L1: group histories

class Injected(RuntimeError):
    """an injected failure of a class the RPC methods do not catch"""


class InjectedValueError(ValueError):
    """an injected ValueError (what FastCGIProcessGroup raises when its socket cannot be created)"""


class InjectedNotFound(FileNotFoundError):
    """an injected OSError subclass (a child log directory that does not exist, ...)"""


FLAVOR_CLASS = {'RuntimeError': Injected, 'ValueError': InjectedValueError, 'FileNotFoundError': InjectedNotFound}
FLAVORS = sorted(FLAVOR_CLASS)


def mro_names(flavor):
    """the class of the injected exception with its bases, as the model's handler matching wants it"""
    return '/'.join(c.__name__ for c in FLAVOR_CLASS[flavor or 'RuntimeError'].__mro__ if c is not object)


def _raise(cfg, what):
    raise FLAVOR_CLASS[cfg.flavor](what)


def _faulty(cls):
    """a group configuration whose after_setuid / make_group / (group's) before_remove can be made to fail"""
    class Faulty(cls):
        fault = None
        flavor = 'RuntimeError'
        live = None              # the world's list of live group objects (made, not yet before_remove()d)

        def after_setuid(self):
            if self.fault == 'after_setuid':
                _raise(self, 'after_setuid')
            return cls.after_setuid(self)

        def make_group(self):
            if self.fault == 'make_group':
                _raise(self, 'make_group')
            g = cls.make_group(self)
            orig, cfg = g.before_remove, self
            # the group object is live from here until its before_remove() has run (a listener pool: subscribed)
            if cfg.live is not None and cfg.name not in cfg.live:
                cfg.live.append(cfg.name)

            def before_remove():
                if cfg.fault == 'before_remove':
                    _raise(cfg, 'before_remove')
                r = orig()
                if cfg.live is not None and cfg.name in cfg.live:
                    cfg.live.remove(cfg.name)
                return r
            g.before_remove = before_remove
            return g
    Faulty.__name__ = 'Faulty' + cls.__name__
    return Faulty


class GroupWorld:
    """one real Supervisor with three configured groups: a (plain), b (event listener pool), f (FastCGI on a unix socket
    whose directory may be missing)"""
    def __init__(self, scratch):
        from supervisor import events, supervisord, dispatchers
        from supervisor.options import ProcessGroupConfig, EventListenerPoolConfig, FastCGIGroupConfig
        from supervisor.datatypes import UnixStreamSocketConfig
        from supervisor.rpcinterface import SupervisorNamespaceRPCInterface
        from supervisor.tests.base import DummyOptions, DummyPConfig
        from supervisor.states import ProcessStates
        self.events, self.PS = events, ProcessStates
        from supervisor.xmlrpc import Faults
        global STILL_RUNNING, ALREADY_ADDED
        STILL_RUNNING, ALREADY_ADDED = Faults.STILL_RUNNING, Faults.ALREADY_ADDED
        events.clear()
        self.options = o = DummyOptions()
        self.sockdir = os.path.join(scratch, 'fcgi-sock')
        shutil.rmtree(self.sockdir, ignore_errors=True)
        pc = lambda n: [DummyPConfig(o, n + '1', '/bin/' + n), DummyPConfig(o, n + '2', '/bin/' + n)]
        self.cfgs = {
            'a': _faulty(ProcessGroupConfig)(o, 'a', 999, pc('a')),
            'b': _faulty(EventListenerPoolConfig)(o, 'b', 999, pc('b'), 10, [events.EventTypes.TICK_5], dispatchers.default_handler),
            'f': _faulty(FastCGIGroupConfig)(o, 'f', 999, pc('f'), UnixStreamSocketConfig(os.path.join(self.sockdir, 's'))),
        }
        o.process_group_configs = list(self.cfgs.values())
        self.live = []
        for c in self.cfgs.values():
            c.live = self.live
        self.sup = supervisord.Supervisor(o)
        self.iface = SupervisorNamespaceRPCInterface(self.sup)
        self.notes = []
        events.subscribe(events.ProcessGroupEvent, self._see)

    def _see(self, e):
        self.notes.append((type(e).__name__, e.group, e.group in self.sup.process_groups, e.payload()))

    def close(self):
        for g in list(self.sup.process_groups.values()):
            try:
                g.before_remove()
            except Exception:
                pass
        self.events.clear()
        shutil.rmtree(self.sockdir, ignore_errors=True)

    def groups(self):
        return list(self.sup.process_groups)

    def probe(self):
        """announce a TICK_5 (the type pool `b` is subscribed to) and report whether pool `b` -- the object in the table, or
        the last one that was -- was offered it: an offered event carries the pool's poolserial (the header's poolserial:)"""
        ev = self.events.Tick5Event(1000, self.sup)
        before = dict(getattr(ev, 'pool_serials', None) or {})
        self.events.notify(ev)
        return 'b' in (getattr(ev, 'pool_serials', None) or {}) and 'b' not in before

    def op(self, op):
        """op = ['add', name, fault, via, flavor] | ['remove', name, unstopped, fault, via, flavor] | ['sockdir', 0|1]
        (flavor: the class of the injected exception, one of FLAVORS; optional)
        returns the result text: true | false | fault:<code> | raised:<what> | badname"""
        from supervisor.xmlrpc import RPCError, Faults
        if op[0] == 'sockdir':
            if op[1]:
                os.makedirs(self.sockdir, exist_ok=True)
            else:
                shutil.rmtree(self.sockdir, ignore_errors=True)
            return None
        name = op[1]
        cfg = self.cfgs.get(name)
        try:
            if op[0] == 'add':
                fault, via = op[2], op[3]
                if cfg is not None:
                    cfg.fault, cfg.flavor = fault, (op[4] if len(op) > 4 and op[4] else 'RuntimeError')
                if via == 'rpc' or cfg is None:
                    r = self.iface.addProcessGroup(name)
                else:
                    r = self.sup.add_process_group(cfg)
            else:
                unstopped, fault, via = op[2], op[3], op[4]
                if cfg is not None:
                    cfg.fault, cfg.flavor = fault, (op[5] if len(op) > 5 and op[5] else 'RuntimeError')
                g = self.sup.process_groups.get(name)
                if g is not None:
                    for p in g.processes.values():
                        p.state = self.PS.STOPPED
                    if unstopped:
                        list(g.processes.values())[-1].state = self.PS.RUNNING
                if via == 'rpc':
                    r = self.iface.removeProcessGroup(name)
                else:
                    r = self.sup.remove_process_group(name)
            return 'true' if r is True else 'false' if r is False else 'value:%r' % (r,)
        except RPCError as e:
            if e.code == Faults.BAD_NAME:
                return 'badname'
            return 'fault:%d' % e.code
        except (Injected, InjectedValueError, InjectedNotFound) as e:
            return 'raised:' + str(e)
        except KeyError:
            return 'raised:KeyError'
        except ValueError as e:          # FastCGIProcessGroup: 'Could not create FastCGI socket ...'
            return 'raised:make_group' if 'FastCGI socket' in str(e) else 'raised:ValueError'
        finally:
            if cfg is not None:
                cfg.fault = None


def group_history(ctx, hist, tag=''):
    """run one history on a fresh world; returns (op lines, impl lines)"""
    w = GroupWorld(ctx.scratch)
    inp = {'what': 'group-history', 'history': hist}
    ops, lines = [], []
    view = []
    try:
        for k, op in enumerate(hist):
            if op[0] == 'sockdir':
                w.op(op)
                continue
            before = w.groups()
            live_before = list(w.live)
            del w.notes[:]
            name = op[1]
            env_missing = name == 'f' and op[0] == 'add' and not os.path.isdir(w.sockdir)
            res = w.op(op)
            after = w.groups()
            notes = list(w.notes)
            where = 'op %d %r' % (k, op)
            # ---- a refused call changes nothing; a pool is subscribed exactly while it is in the table -----------------
            if res in ('false', 'fault:%d' % STILL_RUNNING, 'fault:%d' % ALREADY_ADDED) and (after != before or w.live != live_before or notes):
                ctx.violation('refused-call-changed-something', '%s answered %s, yet: table %r -> %r, live group objects %r -> %r, notifications %r' % (
                    where, res, before, after, live_before, w.live, [(c, g) for c, g, _, _ in notes]), inp)
            offered = w.probe()
            if ('b' in after) != offered:
                ctx.violation('pool-in-table-not-offered-event' if 'b' in after else 'removed-pool-still-offered-event',
                              '%s answered %s: listener pool b is %sin supervisord.process_groups, and a TICK_5 announced now is %soffered to it' % (
                                  where, res, '' if 'b' in after else 'not ', '' if offered else 'not '), inp)
            if sorted(w.live) != sorted(after):
                ctx.violation('group-live-but-not-in-table' if set(w.live) - set(after) else 'group-in-table-but-not-live',
                              '%s answered %s: group objects made and not before_remove()d %r, supervisord.process_groups %r' % (where, res, sorted(w.live), sorted(after)), inp)
            # ---- monitors: the property in its own terms -------------------------------------------------------
            for cls, g, present, payload in notes:
                if payload != 'groupname:%s\n' % g:
                    ctx.violation('group-payload-wrong', '%s: payload %r for group %r' % (where, payload, g), inp)
                if g != name:
                    ctx.violation('group-notification-names-other-group', '%s: %s names %r' % (where, cls, g), inp)
                if cls == ADDED:
                    if g in view:
                        ctx.violation('group-added-announced-twice', '%s: PROCESS_GROUP_ADDED for %r, already announced and not removed since' % (where, g), inp)
                    if not present:
                        ctx.violation('group-added-announced-but-absent', '%s: at the PROCESS_GROUP_ADDED notification %r is not in supervisord.process_groups' % (where, g), inp)
                    if g not in view:
                        view.append(g)
                else:
                    if g not in view:
                        ctx.violation('group-removed-announced-but-not-active', '%s: PROCESS_GROUP_REMOVED for %r which was not announced as added' % (where, g), inp)
                    if present:
                        ctx.violation('group-removed-announced-but-present', '%s: at the PROCESS_GROUP_REMOVED notification %r is still in supervisord.process_groups' % (where, g), inp)
                    if g in view:
                        view.remove(g)
            if sorted(view) != sorted(after):
                kind = 'group-announced-but-not-in-table' if set(view) - set(after) else 'group-in-table-but-not-announced'
                ctx.violation(kind, '%s answered %s: notifications say the active groups are %r, supervisord.process_groups has %r' % (where, res, sorted(view), sorted(after)), inp)
                view = list(after)
            changed = (set(after) - set(before)) if op[0] == 'add' else (set(before) - set(after))
            if (res == 'true') != (name in changed):
                ctx.violation('group-call-answer-wrong', '%s answered %s, table before %r after %r' % (where, res, before, after), inp)
            ctx.count('group-op:%s:%s' % (op[0], res.split(':')[0] if res else res))
            # ---- model line ------------------------------------------------------------------------------------
            if res == 'badname':
                continue            # refused by the RPC layer before the Supervisor method is called
            rpc = (op[3] if op[0] == 'add' else op[4]) == 'rpc'
            if op[0] == 'add':
                flavor = op[4] if len(op) > 4 and op[4] else 'RuntimeError'
                fault = op[2]
                if env_missing and fault is None:
                    fault, flavor = 'make_group', 'ValueError'       # the real FastCGIProcessGroup raises ValueError
                if rpc:
                    ops.append('rpcadd %s %s %s' % (name, fault or '-', mro_names(flavor) if fault else '-'))
                else:
                    ops.append('add %s %s' % (name, fault or '-'))
            else:
                flavor = op[5] if len(op) > 5 and op[5] else 'RuntimeError'
                if rpc:
                    ops.append('rpcremove %s %d %s %s' % (name, 1 if op[2] else 0, op[3] or '-', mro_names(flavor) if op[3] else '-'))
                else:
                    ops.append('remove %s %d %s' % (name, 1 if op[2] else 0, op[3] or '-'))
            if res.startswith('fault:') or res.startswith('raised:'):
                ctx.count('group-failure:%s:%s' % (op[0], res if res.startswith('fault:') else 'raised'))
            lines.append('res=%s | notes=%s | groups=%s | live=%s' % (res, ','.join('%s:%s:%d' % (c, g, p) for c, g, p, _ in notes) or '-',
                                                                 ','.join(after) or '-', ','.join(w.live) or '-'))
    finally:
        w.close()
    ctx.case_done(('groups', repr(hist)), nontrivial=any(l.split(' | ')[1] != 'notes=-' for l in lines))
    ctx.count('group-histories' + tag)
    return ops, lines


GROUP_OPS = [['add', n, f, None, None] for n in 'ab' for f in (None, 'after_setuid', 'make_group')] + \
            [['remove', n, u, f, None, None] for n in 'ab' for (u, f) in ((False, None), (True, None), (False, 'before_remove'))]

GROUP_CORPUS = [
    # C11-3's story on the FastCGI group: the socket cannot be bound, the addition fails; the operator retries
    [['add', 'f', None, 'rpc'], ['sockdir', 1], ['add', 'f', None, 'rpc'], ['add', 'f', None, 'rpc'], ['remove', 'f', False, None, 'rpc'], ['sockdir', 0], ['add', 'f', None, 'direct']],
    [['add', 'a', 'make_group', 'rpc'], ['add', 'a', None, 'rpc'], ['remove', 'a', True, None, 'rpc'], ['remove', 'a', False, 'before_remove', 'direct'], ['remove', 'a', False, None, 'rpc'], ['add', 'a', None, 'direct']],
    [['add', 'b', 'after_setuid', 'direct'], ['add', 'b', None, 'direct'], ['add', 'b', None, 'direct'], ['remove', 'b', False, None, 'direct'], ['remove', 'b', False, None, 'direct']],
    [['add', 'nosuch', None, 'rpc'], ['remove', 'a', False, None, 'rpc'], ['remove', 'a', False, None, 'direct']],
    # seed C11-8: the removal of listener pool b is refused (a member is running); b stays in the table and must keep being offered
    # events (the probe after every operation); then it is stopped, removed for good, and added again
    [['add', 'b', None, 'rpc'], ['add', 'a', None, 'direct'], ['remove', 'b', True, None, 'rpc'], ['remove', 'b', True, None, 'direct'],
     ['remove', 'a', True, None, 'rpc'], ['remove', 'b', False, 'before_remove', 'rpc', 'ValueError'], ['remove', 'b', False, None, 'rpc'],
     ['add', 'b', None, 'rpc'], ['remove', 'a', False, None, 'direct']],
    # a failed addition through the RPC method: a ValueError is answered as a fault, another exception escapes; either way nothing is
    # announced and the retry announces once (F48)
    [['add', 'a', 'make_group', 'rpc', 'ValueError'], ['add', 'a', 'make_group', 'rpc', 'RuntimeError'], ['add', 'a', 'after_setuid', 'rpc', 'ValueError'],
     ['add', 'a', 'after_setuid', 'rpc', 'RuntimeError'], ['add', 'a', 'after_setuid', 'rpc', 'FileNotFoundError'], ['add', 'a', 'make_group', 'rpc', 'FileNotFoundError'], ['add', 'a', 'make_group', 'direct', 'ValueError'], ['add', 'a', None, 'rpc'], ['add', 'a', None, 'rpc'],
     ['remove', 'a', True, None, 'rpc'], ['remove', 'a', False, 'before_remove', 'rpc', 'ValueError'], ['remove', 'a', False, 'before_remove', 'rpc', 'RuntimeError'], ['remove', 'a', False, 'before_remove', 'rpc', 'FileNotFoundError'],
     ['remove', 'a', False, None, 'rpc']],
]


def gen_group_history(rng):
    h = []
    for _ in range(rng.randrange(3, 14)):
        r = rng.random()
        n = rng.choice('abf')
        via = rng.choice(['direct', 'rpc'])
        if r < 0.1:
            h.append(['sockdir', rng.randrange(2)])
        elif r < 0.55:
            h.append(['add', n, rng.choice([None, None, None, 'after_setuid', 'make_group']), via, rng.choice(FLAVORS)])
        else:
            h.append(['remove', n, rng.random() < 0.3, rng.choice([None, None, None, 'before_remove']), via, rng.choice(FLAVORS)])
    return h


def group_histories(ctx):
    import itertools
    rng = ctx.rng
    cases, impls = [], []
    def one(h, tag):
        o, l = group_history(ctx, h, tag)
        cases.append(('case groups', o)); impls.append(l)
    for h in GROUP_CORPUS:
        one(h, ':corpus')
    # every history of up to 3 (thorough: 4) operations over two groups, every fault point; the way in (direct / RPC) drawn
    depth = 3 if ctx.tier == 'quick' else 4
    for L in range(1, depth + 1):
        for combo in itertools.product(range(len(GROUP_OPS)), repeat=L):
            h = [list(GROUP_OPS[i]) for i in combo]
            for op in h:
                op[-2] = 'rpc' if rng.random() < 0.5 else 'direct'
                op[-1] = rng.choice(FLAVORS)
            one(h, ':exhaustive')
    for _ in range(ctx.n(300, 4000)):
        one(gen_group_history(rng), ':random')
    ctx.sample({'case': 'groups', 'ops': cases[0][1], 'impl': impls[0]})
    ctx.correspond('groups', cases, impls)


# =============================================================================================== L1: reaping (finish)

FIN_PID = 4242
EXITS = ['exited', 'stopped', 'backoff', 'unknown']      # which branch of finish(): what the state was


class Seen(list):
    """event subscription that also records, at notification time, the rendered payload and the process's pid"""
    def __init__(self):
        list.__init__(self)
        self.meta = []

    def append(self, e):
        list.append(self, e)
        proc = getattr(e, 'process', None)
        self.meta.append((e.payload() if hasattr(e, 'payload') else None, getattr(proc, 'pid', None), getattr(proc, 'backoff', None)))


def head_of(payload):
    first = payload.split('\n', 1)[0]
    return dict(t.split(':', 1) for t in first.split(' ') if ':' in t)


def finish_case(ctx, cfg, chunks, pending, how, tag=''):
    """chunks: main-loop reads while the child lives (b'' = end of file seen); pending: what the read made by finish()'s drain
    returns (b'' = nothing / end of file); how: one of EXITS.  returns (case line, ops, impl lines)"""
    from supervisor import events
    from supervisor.states import ProcessStates as PS
    events.clear()
    seen = Seen()
    events.subscribe(events.Event, seen.append)
    run = od.Run(cfg, ctx.scratch, shared_seen=seen, pid=FIN_PID, name='w')
    proc = run.proc
    run.opt.close_parent_pipes = lambda pipes: None
    proc.group = types.SimpleNamespace(config=types.SimpleNamespace(name='grp'))
    proc.dispatchers = {run.fd: run.disp}
    proc.pipes = {}
    proc.laststart = 1
    if how == 'exited':
        proc.state = PS.RUNNING
    elif how == 'stopped':
        proc.state, proc.killing = PS.STOPPING, True
    elif how == 'backoff':
        import time
        proc.state, proc.laststart = PS.STARTING, time.time() - 0.001
        proc.config.startsecs = 10 ** 9
    else:
        proc.state = PS.UNKNOWN
    inp = {'what': 'finish', 'cfg': cfg.json(), 'chunks': [hexs(c) for c in chunks], 'pending': hexs(pending), 'how': how}
    ops, lines = [], []

    def notes_since(n0):
        out = []
        for e, (payload, pid_now, _) in list(zip(seen, seen.meta))[n0:]:
            if isinstance(e, events.ProcessLogEvent):
                out.append(('plog', 'o' if isinstance(e, events.ProcessLogStdoutEvent) else 'e', head_of(payload).get('pid'), bytes(e.data), payload, e))
            elif isinstance(e, events.ProcessCommunicationEvent):
                out.append(('comm', None, head_of(payload).get('pid'), bytes(e.data), payload, e))
            elif isinstance(e, events.ProcessStateEvent):
                out.append(('state', None, head_of(payload).get('pid', str(pid_now)), b'', payload, e))
        return out

    def show(notes):
        return ','.join('plog:%s:%s:%s' % (c, p, hexs(d)) if k == 'plog' else 'comm:%s:%s' % (p, hexs(d)) if k == 'comm' else 'state:%s' % p
                        for k, c, p, d, _, _ in notes) or '-'
    try:
        for c in chunks:
            n0 = len(seen)
            if run.was_readable:
                run.step(c)
            ops.append('read ' + hexs(c))
            lines.append('%s | pid=%d disp=%d' % (show(notes_since(n0)), proc.pid, 1 if proc.dispatchers else 0))
        n0 = len(seen)
        run.opt.pending[run.fd] = [pending]
        proc.finish(FIN_PID, 0)
        fin = notes_since(n0)
        ops.append('finish %s %d' % (hexs(pending), 0 if how == 'unknown' else 1))
        lines.append('%s | pid=%d disp=%d' % (show(fin), proc.pid, 1 if proc.dispatchers else 0))
        # ---- monitors ------------------------------------------------------------------------------------------
        allnotes = notes_since(0)
        state_at = [i for i, n in enumerate(allnotes) if n[0] == 'state']
        for i, (k, c, p, d, payload, e) in enumerate(allnotes):
            if k == 'state':
                continue
            h = head_of(payload)
            if p != str(FIN_PID):
                ctx.violation('output-event-wrong-pid', '%s announces %r as written by pid:%s; the child that wrote it had pid %d' % (
                    events.getEventNameByType(type(e)), d[:40], p, FIN_PID), inp)
            if h.get('processname') != 'w' or h.get('groupname') != 'grp' or (k == 'plog' and h.get('channel') != cfg.channel):
                ctx.violation('output-event-wrong-process', 'payload header %r for output of w/grp on %s' % (payload.split('\n', 1)[0], cfg.channel), inp)
            if state_at and i > state_at[0]:
                ctx.violation('output-announced-after-exit-notification', '%s for %r is notified after the PROCESS_STATE notification of the exit' % (
                    events.getEventNameByType(type(e)), d[:40]), inp)
        if how != 'unknown' and len(state_at) != 1:
            ctx.violation('exit-not-announced-once', '%d PROCESS_STATE notifications for one exit (%s)' % (len(state_at), how), inp)
        for i in state_at:
            h = head_of(allnotes[i][4])
            if 'pid' in h and h['pid'] != str(FIN_PID):
                ctx.violation('state-event-wrong-pid', 'exit notification carries pid:%s, the child had pid %d' % (h['pid'], FIN_PID), inp)
        if proc.pid != 0:
            ctx.violation('pid-kept-after-reap', 'pid %r after finish()' % proc.pid, inp)
        # what was read is announced by the time the exit is: nothing stays behind in a discarded dispatcher
        eof_seen = b'' in chunks          # after end of file the dispatcher is closed: nothing more is read
        stream = b''.join(chunks[:chunks.index(b'')]) if eof_seen else b''.join(chunks) + pending
        got_plog = b''.join(d for k, _, _, d, _, _ in allnotes if k == 'plog')
        got_comm = [d for k, _, _, d, _, _ in allnotes if k == 'comm']
        if not cfg.strip:
            plain, sections, open_ = od.ref_split(stream) if cfg.capture else (stream, [], None)
            if cfg.events_on() and got_plog != plain:
                ctx.violation('output-read-but-not-announced-at-reap' if plain.startswith(got_plog) else 'output-announcement-differs',
                              'read outside capture sections %r, PROCESS_LOG data %r' % (plain[-60:], got_plog[-60:]), inp)
            if cfg.capture and (len(got_comm) != len(sections) or any(not s.endswith(g) or (len(s) <= cfg.capture and g != s) for g, s in zip(got_comm, sections))):
                ctx.violation('comm-events-differ-from-sections', 'sections %r, PROCESS_COMMUNICATION data %r' % ([s[:30] for s in sections], [g[:30] for g in got_comm]), inp)
        if not cfg.events_on() and got_plog:
            ctx.violation('plog-while-disabled', 'PROCESS_LOG although events are disabled for %s' % cfg.channel, inp)
        # rendered again now (as a listener pool does, later), every payload is what it was at notification time
        for e, (payload, _, _) in zip(seen, seen.meta):
            if payload is not None and e.payload() != payload:
                ctx.violation('payload-changed-after-notification', '%s: %r at notification, %r afterwards' % (type(e).__name__, payload[:80], e.payload()[:80]), inp)
                break
    finally:
        run.keep_events = False
        run.finish()
    ctx.count('finish-cases' + tag)
    ctx.count('finish:' + how)
    if fin and fin[0][0] != 'state':
        ctx.count('finish-with-output-at-reap')
    ctx.case_done(('finish', cfg.line(), tuple(ops), how), nontrivial=len(fin) > 1)
    return cfg.line().replace('case outdisp', 'case finish') + ' pid=%d' % FIN_PID, ops, lines


B, E = od.DOC_BEGIN, od.DOC_END
FINISH_CORPUS = [
    # C11-4's two children: the END token / a short line arrive with the reaping read
    (dict(capture=4096, oev=1), [b'starting up ' + b'.' * 40 + b'\n' + B + b'result=' + b'42' * 20], E, 'exited'),
    (dict(capture=4096, oev=1), [b'working ' + b'.' * 40 + b'\n'], b'bye\n', 'exited'),
    (dict(capture=40, oev=1), [b'x' * 30], B[:7], 'stopped'),
    (dict(capture=40, oev=1), [b'held'], b'', 'backoff'),
    (dict(capture=40, oev=1), [B + b'abc'], E[:5], 'exited'),
    (dict(capture=0, oev=1), [b'one', b'two'], b'three', 'exited'),
    (dict(capture=0, channel='stderr', eev=1), [b'err'], b'last words', 'stopped'),
    (dict(capture=40, oev=1), [b'abc', b''], b'', 'exited'),
    (dict(capture=40, oev=1), [b'abc'], b'def', 'unknown'),
    # several capture sections in one life (C11-2's story), the last one closed by the reaping read
    (dict(capture=40, oev=1), [B + b'one' + E + b'mid' + B + b'two' + E, B + b'thr'], b'ee' + E + b'end', 'exited'),
]


def finish_cases(ctx):
    rng = ctx.rng
    cases, impls = [], []
    def one(kw, chunks, pending, how, tag):
        c, o, l = finish_case(ctx, od.Cfg(**kw), chunks, pending, how, tag)
        cases.append((c, o)); impls.append(l)
    for kw, chunks, pending, how in FINISH_CORPUS:
        one(kw, chunks, pending, how, ':corpus')
    # every way a short stream over {BEGIN, END, token prefix, x} can be cut into "read before" / "read by the reaping"
    for w in od.symbol_streams(3, 'BEPx'):
        stream = [od.SYMBOLS[s] for s in w]
        for cut in range(len(stream) + 1):
            one(dict(capture=30, oev=1), [b''.join(stream[:cut])] if cut else [], b''.join(stream[cut:]), EXITS[(len(w) + cut) % 3], ':symbolic')
    for _ in range(ctx.n(600, 10000)):
        stream = od.gen_stream(rng, tokens_weight=0.35)
        chunks = od.fragment(stream, od.gen_cuts(rng, len(stream), stream))
        pending = b''
        if chunks and rng.random() < 0.7:
            pending = chunks.pop()
            if rng.random() < 0.3:
                pending = pending[-rng.randrange(1, 30):]
        if rng.random() < 0.1:
            chunks.append(b'')
            pending = b''
        kw = dict(capture=rng.choice([0, 5, 30, 30, 1000]), log=rng.choice([1, 1, 0]), channel=rng.choice(['stdout', 'stdout', 'stderr']),
                  oev=rng.choice([1, 1, 0]), eev=rng.choice([1, 1, 0]), strip=1 if rng.random() < 0.1 else 0)
        one(kw, chunks, pending, rng.choice(EXITS + ['exited', 'exited']), ':random')
    ctx.sample({'case': cases[1][0], 'ops': cases[1][1], 'impl': impls[1]})
    ctx.correspond('finish', cases, impls)


# =============================================================================================== L1: change_state

def change_cases(ctx):
    from supervisor import events
    from supervisor.process import Subprocess
    from supervisor.states import ProcessStates as PS
    from supervisor.tests.base import DummyOptions, DummyPConfig
    rng = ctx.rng
    codes = sorted(v for k, v in vars(PS).items() if isinstance(v, int))
    ops, lines = [], []
    events.clear()
    seen = Seen()
    events.subscribe(events.ProcessStateEvent, seen.append)
    todo = [(a, b, 2, 77, True) for a in codes for b in codes]
    for _ in range(ctx.n(200, 3000)):
        todo.append((rng.choice(codes), rng.choice(codes), rng.randrange(0, 9), rng.choice([0, 1, 77, 32768]), rng.random() < 0.5))
    try:
        for st, new, backoff, pid, expected in todo:
            p = Subprocess(DummyPConfig(DummyOptions(), 'c', '/bin/c'))
            p.group = types.SimpleNamespace(config=types.SimpleNamespace(name='grp'))
            p.state, p.backoff, p.pid = st, backoff, pid
            n0 = len(seen)
            p.change_state(new, expected)
            got = list(zip(seen, seen.meta))[n0:]
            inp = {'what': 'change', 'state': st, 'new': new, 'backoff': backoff, 'pid': pid, 'expected': expected}
            notes = []
            for e, (payload, pid_now, backoff_now) in got:
                to = [s for s, c in Subprocess.event_map.items() if c is type(e)][0]
                notes.append('%d:%d:%d:%d:%d' % (e.from_state, to, backoff_now, pid_now, int(bool(e.expected))))
                h = head_of(payload)
                want = {'processname': 'c', 'groupname': 'grp', 'from_state': ST[st]}
                if 'tries' in h: want['tries'] = str(backoff + (1 if new == PS.BACKOFF else 0))
                if 'pid' in h: want['pid'] = str(pid)
                if 'expected' in h: want['expected'] = str(int(expected))
                if h != want:
                    ctx.violation('state-payload-not-the-values-at-the-change', 'payload %r, values at the change %r' % (payload, want), inp)
                # later (at delivery) the process has moved on: the payload must not
                p.pid, p.backoff = pid + 1000, p.backoff + 5
                if e.payload() != payload:
                    ctx.violation('payload-changed-after-notification', '%r at notification, %r afterwards' % (payload, e.payload()), inp)
                p.pid, p.backoff = pid, p.backoff - 5
            if (st != new) != (len(got) == 1):
                ctx.violation('state-change-not-announced-once', 'change %s -> %s raised %d notifications' % (ST[st], ST[new], len(got)), inp)
            ops.append('change state=%d backoff=%d pid=%d new=%d expected=%d hasclass=%d' % (st, backoff, pid, new, int(expected), 1 if new in Subprocess.event_map else 0))
            lines.append('notes=%s | state=%d backoff=%d' % (','.join(notes) or '-', p.state, p.backoff))
            ctx.count('change-cases')
            ctx.case_done(('change', st, new, backoff, pid, expected), nontrivial=st != new)
    finally:
        events.clear()
    ctx.correspond('change', [('case change backoffcode=%d' % PS.BACKOFF, ops)], [lines])


# =============================================================================================== L2: the real main loop

def make_kernel(progs, script, scratch, ready_seed=None, ready_p=0.8, fcgi=()):
    """harness/simkernel.SimKernel, subclassed only to observe more and to serve the 'sockdir' script action"""
    from simkernel import SimKernel

    class C11Kernel(SimKernel):
        SAMPLED = ('event', 'rpc-begin', 'rpc-answer', 'rpc-error', 'boundary')

        def rec(self, kind, **kw):
            if kind in self.SAMPLED and getattr(self, 'supervisord', None) is not None:
                kw['groups'] = list(self.supervisord.process_groups)
                kw['mood_now'] = self.options.mood
            return SimKernel.rec(self, kind, **kw)

        def _on_event(self, e):
            SimKernel._on_event(self, e)
            r = self.log[-1]
            r['payload'] = e.payload()
            self.evobjs.append((r, e))

        def on_poll(self, rset, wset):
            if self.passno < len(self.script):
                for a in self.script[self.passno][1]:
                    if a[0] == 'sockdir':
                        if a[1]:
                            os.makedirs(self.sockdir, exist_ok=True)
                        else:
                            shutil.rmtree(self.sockdir, ignore_errors=True)
            return SimKernel.on_poll(self, rset, wset)

    k = C11Kernel.__new__(C11Kernel)
    k.evobjs = []
    k.sockdir = os.path.join(scratch, 'l2-fcgi-sock')
    shutil.rmtree(k.sockdir, ignore_errors=True)
    C11Kernel.__init__(k, progs, script, scratch=scratch, ready_rng=random.Random(ready_seed) if ready_seed else None)
    k.ready_p = ready_p
    if fcgi:
        from supervisor.options import FastCGIGroupConfig
        from supervisor.datatypes import UnixStreamSocketConfig
        for g in fcgi:
            old = k.late_configs.get(g)
            if old is not None:
                k.late_configs[g] = FastCGIGroupConfig(k.options, g, old.priority, old.process_configs,
                                                       UnixStreamSocketConfig(os.path.join(k.sockdir, g + '.sock')))
    return k


def l2_gen(rng):
    """(programs, script, opts)"""
    n = rng.randrange(2, 5)
    progs = []
    for i in range(n):
        progs.append(dict(name='p%d' % i, group='g%d' % (i % 2), gprio=rng.choice([5, 999]), prio=999, autostart=rng.random() < 0.8,
                          autorestart=rng.choice(['true', 'unexpected', 'unexpected', 'false']), startsecs=rng.choice([0, 0, 1]),
                          startretries=rng.choice([1, 3]), exitcodes=rng.choice([[0], [0, 2]]), stopsignal=signal.SIGTERM, stopwaitsecs=2,
                          dies_on='any', die_delay=rng.choice([0, 0, 1]), capture=rng.choice([0, 0, 40]), events=rng.random() < 0.8,
                          redirect_stderr=rng.random() < 0.2, leaves_pipes_open=rng.random() < 0.1))
    fcgi = []
    if rng.random() < 0.6:
        progs.append(dict(name='p%d' % n, group='g2', gprio=999, prio=999, autostart=rng.random() < 0.7, autorestart='unexpected',
                          startsecs=0, startretries=3, exitcodes=[0], stopsignal=signal.SIGTERM, stopwaitsecs=1, dies_on='any', die_delay=0,
                          capture=rng.choice([0, 40]), events=True, late=True))
        if rng.random() < 0.6:
            fcgi = ['g2']
    names = [p['name'] for p in progs]
    groups = sorted({p['group'] for p in progs})
    gof = {p['name']: p['group'] for p in progs}
    cap = {p['name']: p['capture'] for p in progs}
    script, seq, rid = [], 0, 0
    npass = rng.randrange(12, 40)
    shutdown = rng.randrange(5, npass) if rng.random() < 0.3 else None
    for i in range(npass):
        acts = []
        dt = rng.choice([256, 512, 1024, 1024, 2048, 5 * 1024])
        r = rng.random()
        if r < 0.05:
            dt = rng.choice([60, 3600, 2 * 3600 + 7]) * 1024 + rng.randrange(0, 1024)
        elif r < 0.08:
            dt = -rng.choice([1024, 7 * 1024, 3700 * 1024])
        for _ in range(rng.choice([0, 1, 1, 2, 3])):
            nm = rng.choice(names)
            ch = rng.choice(['stdout', 'stdout', 'stderr'])
            seq += 1
            tag = b'<%s.%s.%d>' % (nm.encode(), ch[3:].encode(), seq)
            r = rng.random()
            if cap[nm] and ch == 'stdout' and r < 0.2:
                # a whole capture section (sometimes longer than capture_maxbytes), with plain output around it
                data = rng.choice([b'', tag]) + od.DOC_BEGIN + (tag * rng.choice([1, 1, 6]))[:rng.choice([5, 30, 70])] + od.DOC_END + rng.choice([b'', b'after'])
            elif cap[nm] and ch == 'stdout' and r < 0.5:
                t = rng.choice([od.DOC_BEGIN, od.DOC_END])
                c = rng.randrange(1, len(t))
                data = rng.choice([t, t, tag + t, t[:c], t[c:], tag + t[:c]])
            else:
                nbytes = rng.choice([1, 3, 9, 20, 60, 300])
                data = (tag * (nbytes // 8 + 1))[:max(nbytes, 1)] if r < 0.7 else tag
            acts.append(('write', nm, ch, data))
        r = rng.random()
        if r < 0.25:
            acts.append(('exit', rng.choice(names), rng.choice([0, 0, 1, 2, -9])))
        elif r < 0.30:
            acts.append(('fault', rng.choice(['fork', 'pipe']), rng.choice([errno.EAGAIN, errno.EMFILE]), 1))
        elif r < 0.45:
            rid += 1
            nm = rng.choice(names)
            acts.append(('rpc', rid, rng.choice(['supervisor.stopProcess', 'supervisor.startProcess', 'supervisor.startProcess']),
                         ('%s:%s' % (gof[nm], nm), rng.random() < 0.3)))
        elif r < 0.50:
            rid += 1
            acts.append(('rpc', rid, 'supervisor.sendRemoteCommEvent', (rng.choice(['t', 'type:x', 'a b']), rng.choice(['', 'data', 'two\nlines', 'len:5\n\n']))))
        r = rng.random()
        if r < 0.10:
            rid += 1
            acts.append(('addgroup', rid, rng.choice(groups + ['g2', 'nosuch'])))
        elif r < 0.20:
            rid += 1
            acts.append(('removegroup', rid, rng.choice(groups + ['g2', 'nosuch'])))
        elif r < 0.26:
            rid += 1
            acts.append(('rpc', rid, 'supervisor.stopProcessGroup', (rng.choice(groups), False)))
        elif r < 0.32 and fcgi:
            acts.append(('sockdir', rng.randrange(2)))
        if shutdown is not None and i == shutdown:
            acts.append(('sig', rng.choice([signal.SIGTERM, signal.SIGHUP])))
        script.append((dt, acts))
    script += [(1024, [])] * (8 if shutdown is not None else 2)
    return progs, script, dict(ready_seed=rng.randrange(1, 1 << 30), ready_p=rng.choice([0.8, 0.5, 0.5]), fcgi=fcgi)


def _late(name, **kw):
    d = dict(name=name, group='g2', autostart=True, autorestart='false', startsecs=0, capture=0, events=True, late=True)
    d.update(kw)
    return d


L2_CORPUS = [
    # C11-3 under the real loop: a FastCGI group whose socket directory is missing is added (fails), the directory appears,
    # the operator retries (succeeds), stops the group, removes it, adds it again
    ([dict(name='p0', group='g0', autorestart='false', startsecs=0, capture=0, events=True), _late('p1')],
     [(1024, [('addgroup', 1, 'g2')]), (1024, []), (1024, [('sockdir', 1), ('addgroup', 2, 'g2')]), (1024, []), (1024, [('addgroup', 3, 'g2')]),
      (1024, [('rpc', 4, 'supervisor.stopProcessGroup', ('g2', False))]), (1024, []), (1024, [('removegroup', 5, 'g2')]), (1024, []),
      (1024, [('removegroup', 6, 'g2')]), (1024, [('sockdir', 0), ('addgroup', 7, 'g2')]), (1024, []), (1024, [])],
     dict(ready_seed=None, ready_p=0.8, fcgi=['g2'])),
    # C11-4 under the real loop: capture on; the last bytes are written in the pass in which the child exits and poll() does not
    # report the pipe: the read made while reaping returns them, short enough to be held back
    ([dict(name='p0', group='g0', autorestart='false', startsecs=0, capture=40, events=True)],
     [(1024, [('lateio', 1, 0.0), ('write', 'p0', 'stdout', b'<p0.out.1>bye'), ('exit', 'p0', 0)]), (1024, []), (1024, [])],
     dict(ready_seed=None, ready_p=0.8, fcgi=[])),
    ([dict(name='p0', group='g0', autorestart='true', startsecs=0, capture=40, events=True)],
     [(1024, [('write', 'p0', 'stdout', b'x' * 30 + od.DOC_BEGIN + b'<p0.out.1>captured')]), (1024, []),
      (1024, [('lateio', 1, 0.0), ('write', 'p0', 'stdout', od.DOC_END), ('exit', 'p0', 1)]), (1024, [('lateio', 1, 1.0)]),
      (1024, [('write', 'p0', 'stdout', b'<p0.out.2>second life')]), (1024, []), (1024, [])],
     dict(ready_seed=None, ready_p=0.8, fcgi=[])),
    # clock steps under the real loop, a shutdown, a remote communication event
    ([dict(name='p0', group='g0', autorestart='unexpected', startsecs=1, capture=0, events=True)],
     [(1024, []), (5 * 1024, []), (3600 * 1024, [('rpc', 1, 'supervisor.sendRemoteCommEvent', ('t', 'two\nlines'))]), (1024, []), (-3700 * 1024, []), (1024, []),
      (61 * 1024, [('sig', signal.SIGTERM)]), (1024, []), (1024, []), (1024, []), (1024, []), (1024, [])],
     dict(ready_seed=None, ready_p=0.8, fcgi=[])),
]


def l2_run(ctx, progs, script, opts):
    import l2
    logdir = os.path.join(ctx.scratch, 'c11-l2logs')
    shutil.rmtree(logdir, ignore_errors=True)
    os.makedirs(logdir)
    ps = [dict(p, logdir=logdir) for p in progs]
    k = make_kernel(ps, script, ctx.scratch, ready_seed=opts.get('ready_seed'), ready_p=opts.get('ready_p', 0.8), fcgi=opts.get('fcgi', ()))
    try:
        k.run()
    finally:
        shutil.rmtree(k.sockdir, ignore_errors=True)
    inp = dict(l2.scenario_input(progs, script, **opts), what='l2')
    mon_l2(ctx, k, inp)
    return k


def tslice(period, ticks):
    return (ticks // (1024 * period)) * period


def mon_l2(ctx, k, inp):
    ctx.count('L2-scenarios')
    ctx.count('L2-outcome:' + str(k.outcome).split(':')[0])
    died = (not k.outcome) or k.outcome.startswith('exception') or k.outcome == 'blocked'
    if died:
        ctx.count('L2-main-loop-died(C06)')
    progs = k.programs
    log = k.log
    seen_kinds = set()

    def bad(kind, what):
        if kind not in seen_kinds:            # one report per kind and scenario
            seen_kinds.add(kind)
            ctx.violation(kind, what, inp)

    evs = [r for r in log if r['kind'] == 'event']
    for r in evs:
        ctx.count('L2-event:' + re.sub(r'_(STDOUT|STDERR|STOPPED|STARTING|RUNNING|BACKOFF|STOPPING|EXITED|FATAL|UNKNOWN)$', '', r['name'] or 'None'))

    # ---------------------------------------------------------------- (a) PROCESS_GROUP_* vs supervisord.process_groups
    view = set()
    calls = {}
    for r in log:
        kd = r['kind']
        if kd == 'event' and r['name'] in ('PROCESS_GROUP_ADDED', 'PROCESS_GROUP_REMOVED'):
            g = r['group']
            if r['payload'] != 'groupname:%s\n' % g:
                bad('l2-group-payload-wrong', '%s payload %r for group %r' % (r['name'], r['payload'], g))
            if r.get('rpc') in calls:
                calls[r['rpc']]['notes'].append((r['name'], g))
            if r['name'] == 'PROCESS_GROUP_ADDED':
                if g in view:
                    bad('l2-group-added-announced-twice', 'PROCESS_GROUP_ADDED for %r which is announced as active already' % g)
                if g not in r['groups']:
                    bad('l2-group-added-announced-but-absent', 'at the PROCESS_GROUP_ADDED notification %r is not in supervisord.process_groups %r' % (g, r['groups']))
                view.add(g)
            else:
                if g not in view:
                    bad('l2-group-removed-announced-but-not-active', 'PROCESS_GROUP_REMOVED for %r which was not announced as added' % g)
                if g in r['groups']:
                    bad('l2-group-removed-announced-but-present', 'at the PROCESS_GROUP_REMOVED notification %r is still in supervisord.process_groups' % g)
                view.discard(g)
        if kd == 'rpc-begin' and r['method'].split('.')[1] in ('addProcessGroup', 'removeProcessGroup'):
            calls[r['id']] = dict(method=r['method'].split('.')[1], name=r['args'][0], before=set(r['groups']), notes=[])
        lied_here = kd == 'event' and r['name'] in ('PROCESS_GROUP_ADDED', 'PROCESS_GROUP_REMOVED') and \
            (r['group'] in r['groups']) != (r['name'] == 'PROCESS_GROUP_ADDED')      # already reported above; judged again at the next record
        if 'groups' in r and view != set(r['groups']) and not lied_here:
            bad('l2-group-announced-but-not-in-table' if view - set(r['groups']) else 'l2-group-in-table-but-not-announced',
                'at a %s record (t=%d): notifications say the active groups are %r, supervisord.process_groups has %r' % (kd, r['t'], sorted(view), sorted(r['groups'])))
            view = set(r['groups'])
        if kd in ('rpc-answer', 'rpc-error') and r.get('id') in calls:
            c = calls.pop(r['id'])
            ok = kd == 'rpc-answer' and r.get('value') is True
            want = [('PROCESS_GROUP_ADDED' if c['method'] == 'addProcessGroup' else 'PROCESS_GROUP_REMOVED', c['name'])] if ok else []
            if c['notes'] != want:
                bad('l2-group-call-vs-notifications', '%s(%r) %s, notifications raised by the call: %r' % (
                    c['method'], c['name'], 'answered true' if ok else 'failed (%r)' % (r.get('fault', r.get('exc')),), c['notes']))
            ctx.count('L2-group-call:%s:%s' % (c['method'], 'ok' if ok else ('fault' if kd == 'rpc-answer' else 'error')))

    # ---------------------------------------------------------------- ground truth about children, from the kernel's log
    gens = {}             # name -> [generation]; generation = dict(pid, read={ch: bytes}, waited_at, exit_announced_at, sts)
    bypid = {}
    pipe_of = {}          # pipe id -> (generation, channel)
    for i, r in enumerate(log):
        kd = r['kind']
        if kd == 'fork' and r['name'] in progs:
            g = dict(pid=r['pid'], name=r['name'], read={'stdout': bytearray(), 'stderr': bytearray()}, waited_at=None, exit_at=None, sts=None, forked_at=i)
            gens.setdefault(r['name'], []).append(g)
            bypid[r['pid']] = g
            c = k.children.get(r['pid'])
            if c is not None and c.stdout is not None:
                pipe_of[c.stdout.id] = (g, 'stdout')
                if c.stderr is not None and c.stderr is not c.stdout:
                    pipe_of[c.stderr.id] = (g, 'stderr')
        elif kd == 'read' and r['pipe'] in pipe_of:
            g, ch = pipe_of[r['pipe']]
            g['read'][ch] += r['data']
        elif kd == 'wait' and r.get('pid') in bypid:
            bypid[r['pid']]['waited_at'] = i
            bypid[r['pid']]['sts'] = r['sts']
    gof = {p['name']: p.get('group', p['name']) for p in progs.values()}

    def plain_sections(g, ch, upto=None):
        data = bytes(g['read'][ch])
        if ch == 'stdout' and progs[g['name']].get('capture'):
            plain, sections, _ = od.ref_split(data)
            return plain, sections
        return data, []

    # ---------------------------------------------------------------- (c) PROCESS_STATE_* vs the kernel's child table
    last = {}             # 'group:name' -> code of the state last announced
    last_tries = {}
    alive = {}            # name -> pid of the child the kernel holds for it (forked, not yet returned by wait)
    reaping = None        # generation whose wait record is the latest "activity" record: finish() is running for it
    for i, r in enumerate(log):
        kd = r['kind']
        if kd == 'fork' and r['name'] in progs:
            alive[r['name']] = r['pid']; reaping = None
        elif kd == 'wait':
            reaping = bypid.get(r.get('pid'))
            if reaping is not None and alive.get(reaping['name']) == reaping['pid']:
                del alive[reaping['name']]
        elif kd in ('kill', 'rpc-begin', 'poll', 'boundary'):
            if kd != 'boundary':
                reaping = None
        if kd == 'event' and r['name'] == 'PROCESS_GROUP_ADDED':
            for key in [x for x in last if x.split(':')[0] == r['group']]:
                del last[key]; last_tries.pop(key, None)
        if kd == 'event' and r['name'].startswith('PROCESS_STATE_'):
            to = r['name'][len('PROCESS_STATE_'):]
            nm, grp = r['process'], r['group']
            key = '%s:%s' % (grp, nm)
            h = head_of(r['payload'])
            if h.get('processname') != nm or h.get('groupname') != grp or gof.get(nm) != grp:
                bad('l2-state-event-wrong-process', '%s payload %r for process %s of group %s' % (r['name'], r['payload'], nm, gof.get(nm)))
            frm = last.get(key, 0)
            if h.get('from_state') != ST[frm]:
                bad('l2-state-chain-broken', '%s for %s says from_state:%s, the state last announced for it was %s' % (r['name'], key, h.get('from_state'), ST[frm]))
            last[key] = CODE[to]
            if 'pid' in h:
                inflight = reaping if (reaping is not None and reaping['name'] == nm) else None
                want = inflight['pid'] if inflight is not None else alive.get(nm, 0)
                if h['pid'] != str(want):
                    bad('l2-state-event-wrong-pid', '%s for %s carries pid:%s; the kernel\'s child of that process at that moment has pid %d' % (r['name'], key, h['pid'], want))
            if to == 'EXITED' and reaping is not None and reaping['name'] == nm and reaping['sts'] is not None:
                sts = reaping['sts']
                es = (sts >> 8) & 0xff if sts & 0x7f == 0 else -1
                want = 1 if es in progs[nm].get('exitcodes', [0]) else 0
                if h.get('expected') != str(want):
                    bad('l2-exited-expected-flag-wrong', 'PROCESS_STATE_EXITED for %s (wait status %d, exitcodes %r) says expected:%s' % (key, sts, progs[nm].get('exitcodes', [0]), h.get('expected')))
            if 'tries' in h:
                if to == 'BACKOFF' and key in last_tries and h['tries'] != str(last_tries[key] + 1):
                    bad('l2-backoff-tries-not-the-value-at-the-change', 'PROCESS_STATE_BACKOFF for %s says tries:%s after STARTING with tries:%d' % (key, h['tries'], last_tries[key]))
                last_tries[key] = int(h['tries'])
            if reaping is not None and reaping['name'] == nm and reaping['exit_at'] is None and to in ('EXITED', 'STOPPED', 'BACKOFF'):
                reaping['exit_at'] = i
        if kd == 'boundary' and not (died and r is log[-1]):
            for full, (st, pid) in r['procs'].items():
                if last.get(full, 0) != st:
                    bad('l2-state-changed-without-notification', '%s is reported %s at the end of pass %d; the state last announced is %s' % (
                        full, ST.get(st, st), r['passno'], ST[last.get(full, 0)]))
                    last[full] = st

    # ---------------------------------------------------------------- (b) PROCESS_LOG / PROCESS_COMMUNICATION vs what each child wrote
    for nm, p in progs.items():
        for ch in ('stdout', 'stderr'):
            mine = [(i, r) for i, r in enumerate(log) if r['kind'] == 'event' and r['name'].startswith('PROCESS_LOG') and r['process'] == nm and r['channel'] == ch]
            glist = gens.get(nm, [])
            if not p.get('events'):
                if mine:
                    bad('l2-output-event-while-disabled', 'PROCESS_LOG_%s for %s although events are disabled' % (ch.upper(), nm))
                continue
            gi, pos = 0, 0
            announced = {}
            for i, r in mine:
                d = r['data']
                while gi < len(glist) and plain_sections(glist[gi], ch)[0][pos:pos + len(d)] != d:
                    gi += 1; pos = 0
                if gi == len(glist):
                    bad('l2-output-event-data-not-what-was-read', 'PROCESS_LOG_%s for %s announces %r, which is not the next output read from any of its children' % (ch.upper(), nm, d[:60]))
                    break
                g = glist[gi]
                pos += len(d)
                announced[g['pid']] = pos
                check_output_event(bad, r, i, g, nm, gof[nm], ch, 'plog')
            if not died:
                for g in glist:
                    if g['exit_at'] is not None or (g['waited_at'] is not None):
                        want = plain_sections(g, ch)[0]
                        if announced.get(g['pid'], 0) < len(want):
                            bad('l2-output-read-but-not-announced-at-reap', '%s pid %d was reaped; of the %d bytes read from its %s outside capture sections, %d were announced; missing %r' % (
                                nm, g['pid'], len(want), ch, announced.get(g['pid'], 0), want[announced.get(g['pid'], 0):][:60]))
        comm = [(i, r) for i, r in enumerate(log) if r['kind'] == 'event' and r['name'].startswith('PROCESS_COMMUNICATION') and r['process'] == nm]
        capmax = p.get('capture') or 0
        allsecs = [(g, s) for g in gens.get(nm, []) for s in plain_sections(g, 'stdout')[1]]
        nreaped = sum(1 for g, s in allsecs if g['waited_at'] is not None)
        if len(comm) > len(allsecs) or (not died and len(comm) < nreaped):
            bad('l2-comm-events-not-one-per-section', '%s: %d PROCESS_COMMUNICATION notifications, %d closed capture sections read (%d from reaped children)' % (nm, len(comm), len(allsecs), nreaped))
        for (i, r), (g, s) in zip(comm, allsecs):
            if not s.endswith(r['data']) or len(r['data']) > capmax or (len(s) <= capmax and r['data'] != s):
                bad('l2-comm-event-data-wrong', '%s: event data %r for the enclosed bytes %r (capture_maxbytes=%d)' % (nm, r['data'][:40], s[:40], capmax))
                break
            check_output_event(bad, r, i, g, nm, gof[nm], 'stdout', 'comm')

    # ---------------------------------------------------------------- (d) SUPERVISOR_STATE_CHANGE_* vs the mood
    running = [i for i, r in enumerate(log) if r['kind'] == 'event' and r['name'] == 'SUPERVISOR_STATE_CHANGE_RUNNING']
    first_poll = next((i for i, r in enumerate(log) if r['kind'] == 'poll'), len(log))
    if len(running) != 1 or running[0] > first_poll:
        bad('l2-running-not-announced-once-at-start', '%d SUPERVISOR_STATE_CHANGE_RUNNING notifications (positions %r, first poll at %d)' % (len(running), running, first_poll))
    stopping = [(i, r) for i, r in enumerate(log) if r['kind'] == 'event' and r['name'] == 'SUPERVISOR_STATE_CHANGE_STOPPING']
    for i, r in stopping:
        if r['payload'] != '':
            bad('l2-supervisor-state-payload-not-empty', repr(r['payload']))
        if r['mood_now'] >= 1:
            bad('l2-stopping-announced-while-running', 'SUPERVISOR_STATE_CHANGE_STOPPING while the daemon state is RUNNING (mood %d)' % r['mood_now'])
    if len(stopping) > 1:
        bad('l2-stopping-announced-twice', '%d SUPERVISOR_STATE_CHANGE_STOPPING notifications' % len(stopping))
    first_low = next((i for i, r in enumerate(log) if r['kind'] == 'boundary' and r['mood'] < 1 and not (died and r is log[-1])), None)
    if first_low is not None and not (stopping and stopping[0][0] < first_low):
        bad('l2-stopping-not-announced', 'the daemon state is below RUNNING at the end of pass %d and no SUPERVISOR_STATE_CHANGE_STOPPING was notified before' % log[first_low]['passno'])

    # ---------------------------------------------------------------- (e) TICK_* vs the clock of successive passes
    segs, cur = [], None
    for r in log:
        if r['kind'] == 'poll':
            cur = [r['t'], []]
            segs.append(cur)
        elif cur is not None and r['kind'] == 'event' and (r['name'] or '').startswith('TICK_'):
            cur[1].append(r)
    if died and segs:
        segs.pop()
    prev = None
    for t, ticks in segs:
        want = [] if prev is None else [('TICK_%d' % per, tslice(per, t)) for per in (5, 60, 3600) if tslice(per, t) != tslice(per, prev)]
        have = [(r['name'], r['when']) for r in ticks]
        if have != want:
            bad('l2-tick-not-on-slice-change', 'pass at clock %d/1024 (previous pass %r/1024): notified %r, slices that changed %r' % (t, prev, have, want))
        for r in ticks:
            if r['payload'] != 'when:%d' % r['when']:
                bad('l2-tick-payload-wrong', repr(r['payload']))
        ctx.count('L2-tick-passes')
        prev = t

    # ---------------------------------------------------------------- (f) REMOTE_COMMUNICATION vs the sendRemoteCommEvent calls
    sent = {r['id']: r['args'] for r in log if r['kind'] == 'rpc-begin' and r['method'].endswith('sendRemoteCommEvent')}
    answered = {r['id'] for r in log if r['kind'] == 'rpc-answer' and r.get('id') in sent and r.get('value') is True}
    rc = [r for r in evs if r['name'] == 'REMOTE_COMMUNICATION']
    for cid, (t_, d_) in sent.items():
        got = [r['payload'] for r in rc if r.get('rpc') == cid]
        if cid in answered and got != ['type:%s\n%s' % (t_, d_)]:
            bad('l2-remote-comm-not-one-to-one', 'sendRemoteCommEvent(%r, %r) raised %r' % (t_, d_, got))
    if any(r.get('rpc') not in sent for r in rc):
        bad('l2-remote-comm-without-call', 'a REMOTE_COMMUNICATION notification outside any sendRemoteCommEvent call')

    # ---------------------------------------------------------------- rendered again later, every payload is unchanged
    for r, e in k.evobjs:
        try:
            again = e.payload()
        except Exception as ex:
            again = 'raised %r' % (ex,)
        if again != r['payload']:
            bad('l2-payload-changed-after-notification', '%s: %r at notification time, %r when rendered after the run' % (r['name'], r['payload'][:80], again[:80]))
            break


def check_output_event(bad, r, i, g, nm, grp, ch, kind):
    """one PROCESS_LOG / PROCESS_COMMUNICATION notification against the child generation g that wrote its bytes"""
    h = head_of(r['payload'])
    body = r['payload'].split('\n', 1)[1] if '\n' in r['payload'] else None
    if h.get('pid') != str(g['pid']) or r['pid'] != g['pid']:
        bad('l2-output-event-wrong-pid', '%s for %s announces %r as written by pid:%s; it was written by the child with pid %d' % (r['name'], nm, r['data'][:40], h.get('pid'), g['pid']))
    if h.get('processname') != nm or h.get('groupname') != grp or (kind == 'plog' and h.get('channel') != ch):
        bad('l2-output-event-wrong-process', '%s payload header %r for output of %s (group %s) on %s' % (r['name'], r['payload'].split('\n', 1)[0], nm, grp, ch))
    if body is None or body.encode('utf-8', 'surrogateescape') != r['data']:
        bad('l2-output-payload-body-differs', '%s payload body %r for data %r' % (r['name'], (body or '')[:40], r['data'][:40]))
    if g['exit_at'] is not None and i > g['exit_at']:
        bad('l2-output-announced-after-exit-notification', '%s for %r written by %s pid %d is notified after the PROCESS_STATE notification of that child\'s exit' % (r['name'], r['data'][:40], nm, g['pid']))


def l2_all(ctx):
    rng = ctx.rng
    for progs, script, opts in L2_CORPUS:
        l2_run(ctx, progs, script, opts)
        ctx.case_done(('L2', repr(script)), True)
    for _ in range(ctx.n(300, 5000)):
        progs, script, opts = l2_gen(rng)
        k = l2_run(ctx, progs, script, opts)
        ctx.case_done(('L2', repr(script), repr(opts)), True)
        ctx.count('L2-forks', sum(1 for r in k.log if r['kind'] == 'fork'))
        ctx.count('L2-child-writes', sum(1 for r in k.log if r['kind'] == 'childwrite'))
    ctx.sample({'l2-programs': [p['name'] + '@' + p['group'] for p in progs], 'l2-script-head': [[dt, [list(map(str, a)) for a in acts]] for dt, acts in script[:4]]})


def replay(ctx, inp):
    import l2
    if inp['what'] == 'group-history':
        o, l = group_history(ctx, inp['history'])
        ctx.correspond('groups', [('case groups', o)], [l])
    elif inp['what'] == 'finish':
        unhex = lambda h: b'' if h == '-' else bytes.fromhex(h)
        c, o, l = finish_case(ctx, od.Cfg(**inp['cfg']), [unhex(h) for h in inp['chunks']], unhex(inp['pending']), inp['how'])
        ctx.correspond('finish', [(c, o)], [l])
    elif inp['what'] == 'change':
        change_cases(ctx)
    elif inp['what'] == 'l2':
        progs, script = l2.scenario_from_input(inp)
        l2_run(ctx, progs, script, inp['opts'])
    else:
        return False
    return True
