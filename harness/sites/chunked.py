"""
deferring_chunked_producer.more (supervisor/http.py) -- the chunk framing and the text->bytes
conversion of fix F8 -- and HTTPHandler.chunked_size (supervisor/http_client.py).
"""
import ast, os
from extract import Site, REPO, find_func

LEAN_MODULE = 'Chunked'
IMPORTS = []
OPENS = []


def TABLES():
    out = []
    # does the chunk branch convert the wrapped producer's data to bytes *before* measuring it?
    tree = ast.parse(open(os.path.join(REPO, 'supervisor/http.py')).read())
    f = find_func(tree, 'deferring_chunked_producer.more')
    converts = False
    for n in ast.walk(f):
        if isinstance(n, ast.If) and ast.unparse(n.test) == 'data':
            seen_len = False
            for st in n.body:
                src = ast.unparse(st)
                if 'len(data)' in src:
                    seen_len = True
                if src.replace(' ', '') == 'data=as_bytes(data)' and not seen_len:
                    converts = True
    out.append('/-- deferring_chunked_producer.more: `data = as_bytes(data)` precedes `len(data)` in the chunk branch (fix F8) -/')
    out.append('def encConvertsText : Bool := %s' % ('true' if converts else 'false'))
    import importlib
    import supervisor.http_client as hc
    importlib.reload(hc)
    out.append('/-- http_client.CRLF, the line terminator of HTTPHandler -/')
    out.append('def clientCRLF : List UInt8 := [%s]' % ', '.join(str(b) for b in hc.CRLF))
    return out


SITES = [
    # g2 `elif data`, a4 the chunk, a7 the last-chunk, a8 after the end
    Site('supervisor/http.py', 'deferring_chunked_producer.more', 'encMore', '(hexs data : List UInt8)',
         {'data': ('data', 'bytes'), 'as_bytes(s)': ('hexs', 'bytes')},
         want={'encMore_g2', 'encMore_a4', 'encMore_a7', 'encMore_a8'}),
    # g0 `not line`, g1 `chunk_size == 0`
    Site('supervisor/http_client.py', 'HTTPHandler.chunked_size', 'decSize', '(buffer : List UInt8) (chunk_size : Int)',
         {'self.buffer': ('buffer', 'bytes'), 'int(line.split()[0], 16)': ('chunk_size', 'int')},
         want={'decSize_g0', 'decSize_g1'}),
]
