"""
C06 -- the main loop survives anything its children, listeners or the kernel do.
L2 with fault injection at the os level (every realistic errno of fork/pipe/kill/waitpid/read/write, singly at every call index of a
base scenario, and random combinations), plus hostile child output and listener protocol streams.
"""
import errno
from props import l2common
import l2

ID = 'C06'
LEAN_PROPS = 'SupervisorModel.Props.C06'
DRIVER = 'drv_c02'
GENERATED = ['Proc', 'Sup']
TRUSTED = l2common.TRUSTED
ASSUMPTIONS = ["realistic errno table per call: fork {EAGAIN, ENOMEM}, pipe {EMFILE, ENFILE}, kill {EPERM, ESRCH}, waitpid {EINTR, ECHILD}, "
               "read {EINTR, EBADF, EAGAIN}, write {EPIPE, EAGAIN}; errnos outside it (e.g. EIO on a pipe read) are not claimed"]
RULE = ("fault enumeration: for a base scenario, every (call kind, call index, errno) single fault is injected and the scenario re-run; plus random "
        "scenarios with random faults, hostile output (capture tags, ANSI, invalid UTF-8) and listener streams (garbage, negative/huge RESULT lengths); "
        "non-trivial = at least one fault hit or hostile byte consumed; distinct = distinct trace")

ERRNOS = {'fork': [errno.EAGAIN, errno.ENOMEM], 'pipe': [errno.EMFILE, errno.ENFILE], 'kill': [errno.EPERM, errno.ESRCH],
          'waitpid': [errno.EINTR, errno.ECHILD], 'read': [errno.EINTR, errno.EBADF, errno.EAGAIN], 'write': [errno.EPIPE, errno.EAGAIN]}

HOSTILE = [b'RESULT -1\nx', b'RESULT 99999999999999999999\n', b'READY\nREADY\n', b'\xff\xfe\x00garbage', b'RESULT 2\nOKREADY\n',
           b'<!--XSUPERVISOR:BEGIN-->abc', b'\x1b[31mred\x1b[0m', b'RESULT 0\n', b'RESULT x\n', b'GARBAGE2\nOK']


def hostile_scenario(rng):
    progs = [dict(name='w0', group='g', startsecs=0, autorestart='true', capture=rng.choice([0, 10]), events=True),
             dict(name='l0', group='pool', gprio=1, startsecs=0, autorestart='true', listener=dict(events=['PROCESS_STATE', 'TICK_5'], buffer_size=2)),
             dict(name='w1', group='g2', startsecs=1, autorestart='unexpected', leaves_pipes_open=True)]
    script = []
    for i in range(rng.choice([12, 25])):
        acts = []
        if i == 0 and rng.random() < 0.6:
            acts.append(('lateio', rng.randrange(1, 1 << 30)))
        r = rng.random()
        if r < 0.5:
            acts.append(('write', rng.choice(['w0', 'l0', 'w1']), rng.choice(['stdout', 'stderr']), rng.choice(HOSTILE)))
        if rng.random() < 0.2:
            acts.append(('exit', rng.choice(['w0', 'l0', 'w1']), rng.choice([0, 1, -9])))
        if rng.random() < 0.2:
            acts.append(('write', 'l0', 'stdout', rng.choice([b'READY\n', b'RESULT 2\nOK', b'RESULT 4\nFAIL', b'REA', b'DY\n'])))
        if rng.random() < 0.25:
            # a listener that follows the protocol up to a point: answers (legal boundary cases included) glued to what it
            # writes next, and -- a third of the time -- exits in the same pass, so that the bytes are read by the
            # unguarded drain() of finish() instead of the guarded dispatcher loop
            acts.append(('write', 'l0', 'stdout', rng.choice([b'READY\n', b'READY\n', b'RESULT 0\nREADY\n', b'RESULT 0\n' + rng.choice(HOSTILE),
                                                             b'RESULT 2\nOKREADY\n', b'RESULT 2\nOK' + rng.choice(HOSTILE), b'RESULT 00\nREADY\n',
                                                             b'RESULT 1\nxREADY\nRESULT 0\nREADY\n'])))
            if rng.random() < 0.33:
                acts.append(('exit', 'l0', rng.choice([0, 1])))
        if rng.random() < 0.15:
            # a large write to a child that does not read its stdin: the pipe fills up
            acts.append(('rpc', 5000 + i, 'supervisor.sendProcessStdin', ('g:w0' if rng.random() < 0.5 else 'g2:w1', 'x' * rng.choice([1000, 70000, 140000]))))
        script.append((rng.choice([512, 1024, 2048, 5 * 1024]), acts))
    return progs, script


ANSWERS = [b'RESULT 2\nOK', b'RESULT 2\nOKREADY\n', b'RESULT 0\nREADY\n', b'RESULT 0\n', b'RESULT 00\nREADY\n', b'RESULT 4\nFAILREADY\n',
           b'RESULT 1\nxREADY\nRESULT 0\nREADY\n', b'RESULT -1\nREADY\n', b'RESULT 2\nOKRESULT 2\nOK', b'RESULT 3\nOK', b'READY\n', b'RESULT \n',
           b'RESULT 2\n\xff\xfeREADY\n', b'RESULT 99999999999999999999\nREADY\n']


def listener_scenario(rng):
    """a listener that follows the protocol (READY, gets an event, answers) with boundary-case answers glued to what it writes
    next, often exiting in the same pass; half of its output is only seen after poll() has returned (lateio), so that it is
    read by the guarded dispatcher loop in some passes and by the unguarded drain() of finish() in others"""
    progs = [dict(name='w0', group='g', startsecs=0, autorestart='true'),
             dict(name='l0', group='pool', gprio=1, startsecs=0, autorestart='true', listener=dict(events=['PROCESS_STATE', 'TICK_5'], buffer_size=3))]
    script = [(1024, [('lateio', rng.randrange(1, 1 << 30), rng.choice([0.5, 0.5, 0.8, 1.0]))]), (1024, [])]
    for _ in range(rng.choice([4, 8])):
        script.append((1024, [('write', 'l0', 'stdout', b'READY\n'), ('exit', 'w0', rng.choice([0, 1]))]))
        for _ in range(rng.choice([1, 2])):
            script.append((rng.choice([512, 1024]), []))
        acts = [('write', 'l0', 'stdout', rng.choice(ANSWERS))]
        if rng.random() < 0.5:
            acts.append(('exit', 'l0', rng.choice([0, 1])))
        script.append((1024, acts))
        script.append((1024, []))
    return progs, script + [(1024, [])] * 3


def single_faults(ctx, base):
    """every (call, index, errno) of the base scenario"""
    progs, script = base
    k, _ = l2.run_scenario(progs, script)
    counts = {}
    for r in k.log:
        kind = {'fork': 'fork', 'pipe': 'pipe', 'kill': 'kill', 'wait': 'waitpid', 'read': 'read', 'write': 'write'}.get(r['kind'])
        if kind:
            counts[kind] = counts.get(kind, 0) + 1
    # a fault "at index i" = skip i calls, then fail one: expressed with the script's fault action at pass 0 and a skip counter
    out = []
    for call, n in sorted(counts.items()):
        idxs = range(n) if ctx.tier == 'thorough' else sorted(set([0, 1, n // 2, n - 1]) & set(range(n)))
        for i in idxs:
            for en in ERRNOS[call]:
                out.append((progs, script, {call: {i: en}}))
    return out


def run(ctx):
    rng = ctx.rng
    mons = [l2.mon_c06, l2.mon_c02]
    # 1. random scenarios with random faults (model correspondence included)
    l2common.run_all(ctx, l2common.scenarios(ctx, 600, 12000, faults_p=1.0), mons)
    l2common.run_all(ctx, [l2.unknown_scenario(rng) for _ in range(ctx.n(150, 3000))], mons)
    # 2. hostile streams through real dispatchers and a real listener pool (no model correspondence: output is not in Model/Sup)
    l2common.run_all(ctx, [hostile_scenario(rng) for _ in range(ctx.n(300, 6000))], mons, correspond=False)
    l2common.run_all(ctx, [listener_scenario(rng) for _ in range(ctx.n(150, 3000))], mons, correspond=False)
    # 3. exhaustive single faults over base scenarios
    for b in range(ctx.n(2, 12)):
        progs = l2.gen_programs(rng, 3)
        script = l2.gen_script(rng, progs, 14, shutdown=rng.choice([None, 8]), rpcs=True, group_forms=False) + [(1024, [])] * 6
        for progs2, script2, fault_at in single_faults(ctx, (progs, script)):
            k = l2.SimKernel(progs2, script2)
            k.fault_at = fault_at
            k.run()
            inp = dict(l2.scenario_input(progs2, script2), fault_at={c: {str(i): e for i, e in d.items()} for c, d in fault_at.items()})
            for m in mons:
                m(ctx, k, inp)
            ctx.count('single-fault:' + list(fault_at)[0])
            ctx.case_done(('sf', repr(fault_at), tuple(repr(x) for x in k.log if x['kind'] in ('event', 'fork', 'kill', 'wait'))), True)


def replay(ctx, data):
    inp = data['input']
    progs, script = l2.scenario_from_input(inp)
    k = l2.SimKernel(progs, script)
    if inp.get('fault_at'):
        k.fault_at = {c: {int(i): e for i, e in d.items()} for c, d in inp['fault_at'].items()}
    k.run()
    for m in (l2.mon_c06, l2.mon_c02):
        m(ctx, k, inp)


TECHNIQUE = "Lean 4: under the per-process bookkeeping invariant no operation the main loop performs raises (transition_ok, finish_ok incl. UNKNOWN, group stop, RPCs), RPC exceptions are contained; fault enumeration over the os-level seam under the unmodified runforever()"
LEVEL_TEXT = ("no_assertion_in_pass_ops: for every process state satisfying the invariant (which every history preserves), every clock reading, "
              "mood and environment answer, transition/finish/stop_all/start/stop/signal complete without the AssertionError of _assertInState; "
              "daemon_never_asserts: no sequence of main-loop passes, under any environment and any RPCs, ends with an AssertionError escaping the loop "
              "(induction over passes with the daemon invariant SInv); combined with exhaustive single-fault injection at every call index of "
              "base scenarios, hostile output/listener streams, protocol-following listeners with late I/O and signalling-failure stories")
LEVEL_NOTE = "the theorem covers the Subprocess/daemon logic; dispatcher parsing robustness is C07/C08/C10's models; errnos outside the realistic table are not claimed"
DESIGN_REF = "DESIGN.md section 6, C06"
