import SupervisorModel.Lemmas.Infix
/-
  The statement-by-statement model of `record_output` (`recordDirect`, effects interleaved with
  the scan exactly as the method is written) equals the two-layer model (`recordOutput` =
  perform the calls found by `scanGo`), so the theorems proved about the latter are theorems
  about the former, which is what the driver executes.
-/
set_option linter.unusedSimpArgs false
namespace Sv.OutDisp
open Sv.Gen.OutDisp

theorem scan_fuel (c : Cfg) (eof : Bool) : ∀ (n : Nat) (m : Bool) (buf : Bytes), buf.length < n →
    (scanGo c eof n m buf).fuelOut = false := by
  intro n
  induction n with
  | zero => intro m buf h; omega
  | succ n ih =>
    intro m buf h
    unfold scanGo
    by_cases hg0 : record_output_g0 c.capMax m eof buf c.btok c.etok [] [] 0 = true
    · simp only [hg0, if_true]
    · simp only [hg0, Bool.false_eq_true, if_false]
      generalize (if record_output_g1 c.capMax m eof buf c.btok c.etok [] [] 0 = true
        then record_output_a2 c.capMax m eof buf c.btok c.etok [] [] 0
        else record_output_a3 c.capMax m eof buf c.btok c.etok [] [] 0) = tok
      by_cases hg2 : record_output_g2 c.capMax m eof buf c.btok c.etok [] [] 0 = true
      · simp only [hg2, if_true]
      · simp only [hg2, Bool.false_eq_true, if_false]
        cases hs : splitFirst tok (record_output_a4 c.capMax m eof buf c.btok c.etok [] [] 0) with
        | none => simp only []; split <;> rfl
        | some ba =>
          obtain ⟨before, after⟩ := ba
          have hl := splitFirst_some_length hs
          simp only [record_output_a4] at hl
          simp only []
          split
          · exact ih _ _ (by simp only [record_output_a11]; omega)
          · rfl

theorem setBuf_setBuf (a b : Bytes) (s : S) : setBuf a (setBuf b s) = setBuf a s := by
  obtain ⟨p, outs, err⟩ := s
  cases err <;> simp [setBuf, setP, guard]

theorem logData_setBuf (c : Cfg) (d b : Bytes) (s : S) : logData c d (setBuf b s) = setBuf b (logData c d s) := by
  obtain ⟨⟨mode, buf, cap, closed⟩, outs, err⟩ := s
  obtain ⟨capMax, hasLog, strip, isStdout, outEv, errEv, btok, etok⟩ := c
  cases err with
  | some e => simp [logData, mainCopy_id, setBuf, setP, guard]
  | none =>
    cases hd : d.isEmpty <;> cases strip <;> cases mode <;> cases hasLog <;> cases isStdout <;> cases outEv <;> cases errEv <;>
      cases hcm : (capMax != 0) <;>
      simp [logData, mainCopy_id, setBuf, setP, guard, emit, log_g0, log_g1, log_g2, log_g5, log_g6, log_g7, log_g8, toggle_g0, hd, hcm]

theorem toggle_setBuf (c : Cfg) (b : Bytes) (s : S) : toggle c (setBuf b s) = setBuf b (toggle c s) := by
  obtain ⟨⟨mode, buf, cap, closed⟩, outs, err⟩ := s
  cases err with
  | some e => simp [toggle, setBuf, setP, guard]
  | none =>
    simp only [toggle, setBuf, setP, guard, emit, Option.isSome_none, Bool.false_eq_true, if_false]
    repeat' split
    all_goals simp_all

theorem performAll_setBuf (c : Cfg) (b : Bytes) (acts : List Act) : ∀ s : S,
    performAll c acts (setBuf b s) = setBuf b (performAll c acts s) := by
  induction acts with
  | nil => intro s; rfl
  | cons a r ih =>
    intro s
    cases a with
    | data d => simp only [performAll, List.foldl_cons, perform] at ih ⊢; rw [logData_setBuf, ih]
    | toggle => simp only [performAll, List.foldl_cons, perform] at ih ⊢; rw [toggle_setBuf, ih]

theorem logData_keeps (c : Cfg) (d : Bytes) (s : S) :
    (logData c d s).err = s.err ∧ (logData c d s).p.mode = s.p.mode ∧ (logData c d s).p.buf = s.p.buf := by
  obtain ⟨⟨mode, buf, cap, closed⟩, outs, err⟩ := s
  obtain ⟨capMax, hasLog, strip, isStdout, outEv, errEv, btok, etok⟩ := c
  cases err with
  | some e => simp [logData, mainCopy_id, guard]
  | none =>
    cases hd : d.isEmpty <;> cases strip <;> cases mode <;> cases hasLog <;> cases isStdout <;> cases outEv <;> cases errEv <;>
      cases hcm : (capMax != 0) <;>
      simp [logData, mainCopy_id, setP, guard, emit, log_g0, log_g1, log_g2, log_g5, log_g6, log_g7, log_g8, toggle_g0, hd, hcm]

theorem toggle_keeps (c : Cfg) (s : S) (he : s.err = none) :
    (toggle c s).err = none ∧ (toggle c s).p.mode = toggle_a0 c.capMax s.p.mode ∧ (toggle c s).p.buf = s.p.buf := by
  obtain ⟨⟨mode, buf, cap, closed⟩, outs, err⟩ := s
  simp only at he; subst he
  simp only [toggle, setP, guard, emit, Option.isSome_none, Bool.false_eq_true, if_false]
  repeat' split
  all_goals simp_all

theorem setBuf_keeps (b : Bytes) (s : S) (he : s.err = none) :
    (setBuf b s).err = none ∧ (setBuf b s).p.mode = s.p.mode ∧ (setBuf b s).p.buf = b := by
  obtain ⟨p, outs, err⟩ := s
  simp only at he; subst he
  simp [setBuf, setP, guard]

theorem recordDirect_eq (c : Cfg) (eof : Bool) : ∀ (n : Nat) (s : S), s.err = none → s.p.buf.length < n →
    recordDirect c eof n s =
      performAll c (scanGo c eof n s.p.mode s.p.buf).acts (setBuf (scanGo c eof n s.p.mode s.p.buf).buf s) := by
  intro n
  induction n with
  | zero => intro s _ h; omega
  | succ n ih =>
    intro s he hlen
    unfold recordDirect scanGo
    simp only [he, Option.isSome_none, Bool.false_eq_true, if_false]
    by_cases hg0 : record_output_g0 c.capMax s.p.mode eof s.p.buf c.btok c.etok [] [] 0 = true
    · simp only [hg0, if_true, performAll, List.foldl_cons, List.foldl_nil, perform]
    · simp only [hg0, Bool.false_eq_true, if_false]
      generalize (if record_output_g1 c.capMax s.p.mode eof s.p.buf c.btok c.etok [] [] 0 = true
        then record_output_a2 c.capMax s.p.mode eof s.p.buf c.btok c.etok [] [] 0
        else record_output_a3 c.capMax s.p.mode eof s.p.buf c.btok c.etok [] [] 0) = tok
      by_cases hg2 : record_output_g2 c.capMax s.p.mode eof s.p.buf c.btok c.etok [] [] 0 = true
      · -- waiting: nothing happens
        simp only [hg2, if_true]
        obtain ⟨p, outs, err⟩ := s
        simp only at he; subst he
        simp [performAll, setBuf, setP, guard]
      · simp only [hg2, Bool.false_eq_true, if_false]
        cases hs : splitFirst tok (record_output_a4 c.capMax s.p.mode eof s.p.buf c.btok c.etok [] [] 0) with
        | none =>
          simp only []
          split
          · simp only [performAll, List.foldl_cons, List.foldl_nil, perform, setBuf_setBuf]
          · simp only [performAll, List.foldl_cons, List.foldl_nil, perform]
        | some ba =>
          obtain ⟨before, after⟩ := ba
          have hl := splitFirst_some_length hs
          simp only [record_output_a4] at hl
          simp only []
          -- the state after `_log(before)`, `toggle_capturemode()`, `self.output_buffer = after`
          have h1 := setBuf_keeps (record_output_a5 c.capMax s.p.mode eof s.p.buf c.btok c.etok [] [] 0) s he
          have h2 := logData_keeps c before (setBuf (record_output_a5 c.capMax s.p.mode eof s.p.buf c.btok c.etok [] [] 0) s)
          have h3 := toggle_keeps c (logData c before (setBuf (record_output_a5 c.capMax s.p.mode eof s.p.buf c.btok c.etok [] [] 0) s))
            (by rw [h2.1]; exact h1.1)
          generalize hrest : record_output_a11 c.capMax (toggle_a0 c.capMax s.p.mode) eof
              (record_output_a5 c.capMax s.p.mode eof s.p.buf c.btok c.etok [] [] 0) c.btok c.etok
              (record_output_a4 c.capMax s.p.mode eof s.p.buf c.btok c.etok [] [] 0) after 0 = rest at *
          split
          · have h5 := setBuf_keeps rest _ h3.1
            have hrl : rest.length < n := by
              rw [← hrest]; simp only [record_output_a11]; omega
            rw [ih _ h5.1 (by rw [h5.2.2]; exact hrl)]
            rw [h5.2.1, h5.2.2, h3.2.1, h2.2.1, h1.2.1]
            simp only [performAll, List.foldl_cons, perform]
            have hp := performAll_setBuf c
            simp only [performAll] at hp
            rw [setBuf_setBuf, logData_setBuf, toggle_setBuf, logData_setBuf, toggle_setBuf, setBuf_setBuf]
          · simp only [performAll, List.foldl_cons, List.foldl_nil, perform]
            rw [logData_setBuf, toggle_setBuf, setBuf_setBuf, logData_setBuf, toggle_setBuf]

theorem recordDirect_eq_recordOutput (c : Cfg) (eof : Bool) (s : S) :
    recordDirect c eof (s.p.buf.length + 1) s = recordOutput c eof s := by
  cases he : s.err with
  | some e => simp [recordDirect, recordOutput, guard, he]
  | none =>
    rw [recordDirect_eq c eof _ s he (by omega)]
    simp only [recordOutput, guard, he, Option.isSome_none, Bool.false_eq_true, if_false,
      scan_fuel c eof _ s.p.mode s.p.buf (Nat.lt_succ_self _)]
    rfl

/-- the driver's `handle_read_event` is the one the theorems are about -/
theorem readEventDirect_eq (c : Cfg) (x : Bytes) (s : S) : readEventDirect c x s = readEvent c x s := by
  simp only [readEventDirect, readEvent, recordDirect_eq_recordOutput]

end Sv.OutDisp
