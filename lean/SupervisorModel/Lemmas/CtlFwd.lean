import SupervisorModel.Lemmas.CtlSpec
/-
  Forward direction of C20's exit-status claim: the specification of "every requested action succeeded" and, per
  action of Model/Ctl, the proof that the action is `Fwd` for it (Lemmas/Ctl.lean).  The predicates are restated in
  Props/C20.lean (`*_def` theorems, by `rfl`).
-/
set_option linter.unusedSimpArgs false
set_option linter.unusedVariables false
namespace Sv.Ctl.Spec
open Sv Sv.Ctl Sv.Gen.Ctl

def startMethods : List String := ["startProcess", "startProcessGroup", "startAllProcesses"]
def stopMethods : List String := ["stopProcess", "stopProcessGroup", "stopAllProcesses"]

/-- the answer that counts as success although it is a fault code, for a method *used by this action* -/
def ownTolerated (a : Action) (meth : String) : Option Int :=
  match a with
  | .start => if startMethods.contains meth then some Faults_ALREADY_STARTED else none
  | .stop => if stopMethods.contains meth then some Faults_NOT_RUNNING else none
  | .restart => if startMethods.contains meth then some Faults_ALREADY_STARTED
                else if stopMethods.contains meth then some Faults_NOT_RUNNING else none
  | .update => if meth == "stopProcessGroup" then some Faults_NOT_RUNNING else none
  | .add => if meth == "addProcessGroup" then some Faults_ALREADY_ADDED else none
  | .shutdown => if meth == "shutdown" then some Faults_SHUTDOWN_STATE else none
  | _ => none

/-- the namespec rules: `group:*` / `group:` match every process of the group, `group:name` and `name` one -/
def nameMatches (n : String) (i : Info) : Bool :=
  i.group == (splitNamespec n).1 && ((splitNamespec n).2 == none || (splitNamespec n).2 == some i.name)

/-- the processes `status <names>` shows -/
def statusShown (all : List Info) (names : List String) : List Info :=
  if names.isEmpty || names.contains "all" then all else names.flatMap fun n => all.filter (nameMatches n)

def statusNamesKnown (all : List Info) (names : List String) : Bool :=
  names.isEmpty || names.contains "all" || names.all fun n => !(all.filter (nameMatches n)).isEmpty

/-- `succeeded a arg c`: the request `c` made by action `a` succeeded in the sense of the statement: a value (the
    right API version; every result entry SUCCESS or the action's tolerated code; for `status` every name known and
    no shown process stopped; for `pid <name>` a running process; for `update <groups>` every group known) or the
    action's tolerated fault for a per-process request -/
def succeeded (a : Action) (arg : String) (c : Call) : Bool :=
  match c.ans with
  | .proto _ => false
  | .sock _ => false
  | .fault code _ => !listMethods.contains c.meth && some code == ownTolerated a c.meth
  | .ok (.results rs) => rs.all fun r => r.status == Faults_SUCCESS || some r.status == ownTolerated a c.meth
  | .ok (.str api) => c.meth != "getVersion" || api == API_VERSION
  | .ok (.int _) => c.meth != "GET"
  | .ok (.info i) => a != .pid || i.pid != 0
  | .ok (.infos all) =>
    (a != .status || (statusNamesKnown all (pySplit arg) &&
        (statusShown all (pySplit arg)).all fun i => !STOPPED_STATES.contains i.state)) &&
    (a != .update || (validOf arg).all fun g => (all.map (·.group)).contains g)
  | .ok _ => true

/-! ### generic steps -/
theorem fwd_expectUnit {succ : Call → Bool} {k : S → S} (hk : Fwd succ k) (v : Val) : Fwd succ (expectUnit k v) := by
  cases v <;> first | exact hk | exact fwd_badScript succ

macro "grow_straight" : tactic => `(tactic| (
  apply grow_of_calls_eq; intro s; (try dsimp only); (repeat' split) <;> simp))

/-- an rpc whose value continuation is unconditionally forward-safe and whose faults and socket errors never count
    as success -/
theorem fwd_rpc_nofault {succ : Call → Bool} {m : String} {a : List String}
    {kOk : Val → S → S} {kFault : Int → String → S → S} {kSock : Int → S → S}
    (hk : ∀ v, succ ⟨m, a, .ok v⟩ = true → Fwd succ (kOk v)) (gk : ∀ v, Grow (kOk v))
    (g2 : ∀ c t, Grow (kFault c t)) (g3 : ∀ e, Grow (kSock e))
    (hp : ∀ c, succ ⟨m, a, .proto c⟩ = false)
    (hf : ∀ c t, succ ⟨m, a, .fault c t⟩ = false) (hs : ∀ e, succ ⟨m, a, .sock e⟩ = false) :
    Fwd succ (rpc m a kOk kFault kSock) :=
  fwd_rpc gk g2 g3 hp (fun v h => (hk v h).2) (fun c t h => by rw [hf c t] at h; cases h)
    (fun e h => by rw [hs e] at h; cases h)

theorem grow_raiseFault (c : Int) (t : String) : Grow (raiseFault c t) := grow_raise _
theorem grow_raiseSock (e : Int) : Grow (raiseSock e) := grow_raise _
theorem grow_badScript : Grow badScript := grow_raise _

theorem grow_expectUnit {k : S → S} (hk : Grow k) (v : Val) : Grow (expectUnit k v) := by
  cases v <;> first | exact hk | exact grow_badScript

theorem grow_expectResults {k : List Res → S → S} (hk : ∀ rs, Grow (k rs)) (v : Val) : Grow (expectResults k v) := by
  cases v <;> first | exact hk _ | exact grow_badScript

/-! ### result lists and single-name requests -/
theorem resultLine_isSome (tbl : List (Int × Word)) (tmpl : String × String × String) (succ g : String) (n : Option String)
    (st : Int) (d : String) : (resultLine tbl tmpl succ g n st d).isSome = (lookupWord tbl st).isSome := by
  simp [resultLine]

/-- `LineOk line ign`: SUCCESS and the tolerated code have a wording -/
def LineOk (line : LineFn) (ign : Option Int) : Prop :=
  ∀ g n d, (line g n Faults_SUCCESS d).isSome ∧ ∀ c, some c = ign → (line g n c d).isSome

theorem lineOk_start : LineOk startLine (some Faults_ALREADY_STARTED) := by
  intro g n d
  refine ⟨by unfold startLine; rw [resultLine_isSome]; decide, fun c hc => ?_⟩
  have : c = Faults_ALREADY_STARTED := by simpa using hc
  subst this; unfold startLine; rw [resultLine_isSome]; decide
theorem lineOk_stop : LineOk stopLine (some Faults_NOT_RUNNING) := by
  intro g n d
  refine ⟨by unfold stopLine; rw [resultLine_isSome]; decide, fun c hc => ?_⟩
  have : c = Faults_NOT_RUNNING := by simpa using hc
  subst this; unfold stopLine; rw [resultLine_isSome]; decide
theorem lineOk_signal : LineOk signalLine none := by
  intro g n d
  exact ⟨by unfold signalLine; rw [resultLine_isSome]; decide, fun c hc => by cases hc⟩
theorem lineOk_clear : LineOk clearLine none := by
  intro g n d
  exact ⟨by unfold clearLine; rw [resultLine_isSome]; decide, fun c hc => by cases hc⟩

theorem ign_ok {st : Int} {ign : Option Int} (h : st = Faults_SUCCESS ∨ some st = ign) :
    onIgn setexit_g0 st ign = true := by
  simp only [onIgn, setexit_g0, List.elem_eq_contains, List.contains_cons, List.contains_nil, Bool.or_false]
  rcases h with h | h
  · subst h; simp
  · rw [← h]; simp

theorem fwd_resultsStep {a : Action} {arg m : String} {args : List String} {line : LineFn} {ign : Option Int}
    (hign : ownTolerated a m = ign) (hl : LineOk line ign) (v : Val)
    (hv : succeeded a arg ⟨m, args, .ok v⟩ = true) :
    Fwd (succeeded a arg) (expectResults (printResults line ign) v) := by
  cases v <;> first | exact fwd_badScript _ | skip
  rename_i rs
  simp only [succeeded, List.all_eq_true, Bool.or_eq_true, beq_iff_eq, hign] at hv
  refine fwd_printResults _ (fun r hr => ?_)
  have h := hv r hr
  refine ⟨?_, ign_ok h⟩
  rcases h with h | h
  · rw [h]; exact (hl _ _ _).1
  · exact (hl _ _ _).2 _ h

/-- `supervisor.xAllProcesses()` / `xProcessGroup(g)`: a result list, faults never count as success -/
theorem fwd_listCall {a : Action} {arg m : String} {args : List String} {line : LineFn} {ign : Option Int}
    {kFault : Int → String → S → S}
    (hm : listMethods.contains m = true) (hign : ownTolerated a m = ign) (hl : LineOk line ign)
    (g2 : ∀ c t, Grow (kFault c t)) :
    Fwd (succeeded a arg) (rpc m args (expectResults (printResults line ign)) kFault raiseSock) := by
  apply fwd_rpc_nofault
  · exact fun v hv => fwd_resultsStep hign hl v hv
  · exact fun v => grow_expectResults (fun rs => grow_printResults _ _ rs) v
  · exact g2
  · exact fun e => grow_raiseSock e
  · exact fun c => rfl
  · intro c t; simp only [succeeded, hm]; rfl
  · exact fun e => rfl

/-- `supervisor.xProcess(name)`: `True`, or a fault that is printed as a result line -/
theorem fwd_singleCall {a : Action} {arg m : String} {args : List String} {line : LineFn} {ign : Option Int}
    {g : String} {p : Option String} {msg : String}
    (hign : ownTolerated a m = ign) (hl : LineOk line ign) :
    Fwd (succeeded a arg) (rpc m args (expectUnit (out msg)) (fun code text => printOne line ign g p code text) raiseSock) := by
  apply fwd_rpc
  · exact fun v => grow_expectUnit (grow_out _) v
  · exact fun c t => grow_printOne _ _ _ _ _ _
  · exact fun e => grow_raiseSock e
  · exact fun c => rfl
  · exact fun v _ => (fwd_expectUnit (fwd_out _ _) v).2
  · intro c t h
    simp only [succeeded, Bool.and_eq_true, beq_iff_eq, hign] at h
    exact (fwd_printOne _ ((hl _ _ _).2 c h.2) (ign_ok (Or.inr h.2))).2
  · intro e h; cases h

/-! ### upcheck -/
theorem ownTolerated_getVersion (a : Action) : ownTolerated a "getVersion" = none := by cases a <;> rfl

theorem fwd_upcheck {a : Action} {arg : String} {onUp onDown : S → S}
    (hup : Fwd (succeeded a arg) onUp) (hdown : Grow onDown) : Fwd (succeeded a arg) (upcheck onUp onDown) := by
  unfold upcheck
  apply fwd_rpc_nofault
  · intro v hv
    cases v <;> first | exact fwd_badScript _ | skip
    rename_i api
    have hapi : api = API_VERSION := by simpa [succeeded] using hv
    subst hapi
    have : onApi upcheck_g0 API_VERSION = false := by simp [ctl_gen]
    simp only [this, Bool.false_eq_true, if_false]
    exact hup
  · intro v
    cases v <;> first | exact grow_badScript | skip
    dsimp only
    split
    · exact grow_comp (grow_comp (grow_out _) (grow_setExit _)) hdown
    · exact hup.1
  · intro c t
    split
    · exact grow_comp (grow_comp (grow_out _) (grow_setExit _)) hdown
    · exact grow_comp (grow_setExit _) (grow_raiseFault _ _)
  · intro e s c hc
    dsimp only
    split
    · exact hdown _ c (grow_setExit _ _ c (grow_out _ s c hc))
    · split
      · exact hdown _ c (grow_setExit _ _ c (grow_out _ s c hc))
      · exact grow_raiseSock _ _ c (grow_setExit _ s c hc)
  · exact fun c => rfl
  · intro c t; simp [succeeded, ownTolerated_getVersion]
  · exact fun e => rfl

/-! ### start / stop / signal / clear / restart -/
theorem fwd_startOne {a : Action} (arg : String) (ha : a = .start ∨ a = .restart) (n : String) :
    Fwd (succeeded a arg) (startOne n) := by
  unfold startOne; dsimp only
  split
  · refine fwd_listCall (by decide) ?_ lineOk_start (fun c t => by grow_straight)
    rcases ha with rfl | rfl <;> rfl
  · refine fwd_singleCall ?_ lineOk_start
    rcases ha with rfl | rfl <;> rfl

theorem fwd_startNames {a : Action} (arg : String) (ha : a = .start ∨ a = .restart) (names : List String) :
    Fwd (succeeded a arg) (startNames names) := by
  unfold startNames
  split
  · refine fwd_listCall (by decide) ?_ lineOk_start (fun c t => grow_raiseFault c t)
    rcases ha with rfl | rfl <;> rfl
  · exact fwd_foldl startOne names (fun n _ => fwd_startOne arg ha n)

theorem fwd_stopOne {a : Action} (arg : String) (ha : a = .stop ∨ a = .restart) (n : String) :
    Fwd (succeeded a arg) (stopOne n) := by
  unfold stopOne; dsimp only
  split
  · refine fwd_listCall (by decide) ?_ lineOk_stop (fun c t => by grow_straight)
    rcases ha with rfl | rfl <;> rfl
  · refine fwd_singleCall ?_ lineOk_stop
    rcases ha with rfl | rfl <;> rfl

theorem fwd_stopNames {a : Action} (arg : String) (ha : a = .stop ∨ a = .restart) (names : List String) :
    Fwd (succeeded a arg) (stopNames names) := by
  unfold stopNames
  split
  · refine fwd_listCall (by decide) ?_ lineOk_stop (fun c t => grow_raiseFault c t)
    rcases ha with rfl | rfl <;> rfl
  · exact fwd_foldl stopOne names (fun n _ => fwd_stopOne arg ha n)

theorem fwd_signalOne (arg sig n : String) : Fwd (succeeded .signal arg) (signalOne sig n) := by
  unfold signalOne; dsimp only
  split
  · exact fwd_listCall (by decide) rfl lineOk_signal (fun c t => by grow_straight)
  · exact fwd_singleCall rfl lineOk_signal

theorem fwd_signalNames (arg sig : String) (names : List String) :
    Fwd (succeeded .signal arg) (signalNames sig names) := by
  unfold signalNames
  split
  · exact fwd_listCall (by decide) rfl lineOk_signal (fun c t => grow_raiseFault c t)
  · exact fwd_foldl (signalOne sig) names (fun n _ => fwd_signalOne arg sig n)

theorem fwd_clearOne (arg n : String) : Fwd (succeeded .clear arg) (clearOne n) := by
  unfold clearOne; dsimp only
  exact fwd_singleCall rfl lineOk_clear

theorem fwd_clearNames (arg : String) (names : List String) : Fwd (succeeded .clear arg) (clearNames names) := by
  unfold clearNames
  split
  · exact fwd_listCall (by decide) rfl lineOk_clear (fun c t => grow_raiseFault c t)
  · exact fwd_foldl clearOne names (fun n _ => fwd_clearOne arg n)

theorem fwd_doStart {a : Action} (arg : String) (ha : a = .start ∨ a = .restart) (hargs : pySplit arg ≠ []) :
    Fwd (succeeded a arg) (doStart arg) := by
  unfold doStart
  refine fwd_upcheck ?_ grow_id
  have : onNames do_start_g1 (pySplit arg) = false := by simpa [ctl_gen] using hargs
  simp only [this, Bool.false_eq_true, if_false]
  exact fwd_startNames arg ha _

theorem fwd_doStop {a : Action} (arg : String) (ha : a = .stop ∨ a = .restart) (hargs : pySplit arg ≠ []) :
    Fwd (succeeded a arg) (doStop arg) := by
  unfold doStop
  refine fwd_upcheck ?_ grow_id
  have : onNames do_stop_g1 (pySplit arg) = false := by simpa [ctl_gen] using hargs
  simp only [this, Bool.false_eq_true, if_false]
  exact fwd_stopNames arg ha _

theorem fwd_doRestart (arg : String) (hargs : pySplit arg ≠ []) : Fwd (succeeded .restart arg) (doRestart arg) := by
  unfold doRestart
  refine fwd_upcheck ?_ grow_id
  have : onNames do_restart_g1 (pySplit arg) = false := by simpa [ctl_gen] using hargs
  simp only [this, Bool.false_eq_true, if_false]
  exact fwd_comp (fwd_doStop arg (Or.inr rfl) hargs) (fwd_doStart arg (Or.inr rfl) hargs)

theorem fwd_doSignal (arg : String) (hargs : 2 ≤ (pySplit arg).length) : Fwd (succeeded .signal arg) (doSignal arg) := by
  unfold doSignal
  refine fwd_upcheck ?_ grow_id
  have : onArgs do_signal_g1 (pySplit arg) = false := by simp [ctl_gen]; omega
  simp only [this, Bool.false_eq_true, if_false]
  rcases h : pySplit arg with _ | ⟨sig, names⟩
  · rw [h] at hargs; simp at hargs
  · exact fwd_signalNames arg sig names

theorem fwd_doClear (arg : String) (hargs : pySplit arg ≠ []) : Fwd (succeeded .clear arg) (doClear arg) := by
  unfold doClear
  refine fwd_upcheck ?_ grow_id
  have : onNames do_clear_g1 (pySplit arg) = false := by simpa [ctl_gen] using hargs
  simp only [this, Bool.false_eq_true, if_false]
  exact fwd_clearNames arg _

/-! ### add / remove / shutdown / reload / version / reread / avail -/
/-- a request whose value continuation is forward-safe whatever the value and whose faults are never a success -/
theorem fwd_plainCall {a : Action} {arg m : String} {args : List String} {kOk : Val → S → S}
    {kFault : Int → String → S → S} {kSock : Int → S → S}
    (hk : ∀ v, succeeded a arg ⟨m, args, .ok v⟩ = true → Fwd (succeeded a arg) (kOk v)) (gk : ∀ v, Grow (kOk v))
    (g2 : ∀ c t, Grow (kFault c t)) (g3 : ∀ e, Grow (kSock e))
    (hm : ownTolerated a m = none) :
    Fwd (succeeded a arg) (rpc m args kOk kFault kSock) :=
  fwd_rpc_nofault hk gk g2 g3 (fun _ => rfl) (fun c t => by simp [succeeded, hm]) (fun _ => rfl)

theorem fwd_addOne (arg name : String) : Fwd (succeeded .add arg) (addOne name) := by
  unfold addOne
  apply fwd_rpc
  · exact fun v => grow_expectUnit (grow_out _) v
  · intro c t; grow_straight
  · exact fun e => grow_raiseSock e
  · exact fun c => rfl
  · exact fun v _ => (fwd_expectUnit (fwd_out _ _) v).2
  · intro c t h
    have hc : c = Faults_ALREADY_ADDED := by simpa [succeeded, ownTolerated, listMethods] using h
    subst hc
    have h0 : onCode do_add_g1 Faults_ALREADY_ADDED = false := by decide
    have h1 : onCode do_add_g2 Faults_ALREADY_ADDED = true := by decide
    simp only [h0, h1]
    exact (fwd_out _ _).2
  · intro e h; cases h

theorem fwd_doAdd (arg : String) (hargs : pySplit arg ≠ []) : Fwd (succeeded .add arg) (doAdd arg) := by
  unfold doAdd
  have : onNames do_add_g0 (pySplit arg) = false := by simpa [ctl_gen] using hargs
  simp only [this, Bool.false_eq_true, if_false]
  exact fwd_foldl addOne _ (fun n _ => fwd_addOne arg n)

theorem fwd_removeOne (arg name : String) : Fwd (succeeded .remove arg) (removeOne name) := by
  unfold removeOne
  refine fwd_plainCall (a := .remove) (fun v _ => fwd_expectUnit (fwd_out _ _) v) (fun v => grow_expectUnit (grow_out _) v)
    (fun c t => by grow_straight) (fun e => grow_raiseSock e) (by rfl)

theorem fwd_doRemove (arg : String) (hargs : pySplit arg ≠ []) : Fwd (succeeded .remove arg) (doRemove arg) := by
  unfold doRemove
  have : onNames do_remove_g0 (pySplit arg) = false := by simpa [ctl_gen] using hargs
  simp only [this, Bool.false_eq_true, if_false]
  exact fwd_foldl removeOne _ (fun n _ => fwd_removeOne arg n)

theorem fwd_doShutdown (arg : String) (hargs : arg = "") : Fwd (succeeded .shutdown arg) (doShutdown arg) := by
  subst hargs
  unfold doShutdown
  have : onArg do_shutdown_g0 "" = false := by decide
  simp only [this, Bool.false_eq_true, if_false]
  apply fwd_rpc
  · exact fun v => grow_expectUnit (grow_out _) v
  · intro c t; grow_straight
  · intro e; grow_straight
  · exact fun c => rfl
  · exact fun v _ => (fwd_expectUnit (fwd_out _ _) v).2
  · intro c t h
    have hc : c = Faults_SHUTDOWN_STATE := by simpa [succeeded, ownTolerated, listMethods] using h
    subst hc
    have h0 : onCode do_shutdown_g3 Faults_SHUTDOWN_STATE = true := by decide
    simp only [h0]
    exact (fwd_out _ _).2
  · intro e h; cases h

theorem fwd_doReload (arg : String) (hargs : arg = "") : Fwd (succeeded .reload arg) (doReload arg) := by
  subst hargs
  unfold doReload
  have : onArg do_reload_g0 "" = false := by decide
  simp only [this, Bool.false_eq_true, if_false]
  exact fwd_plainCall (a := .reload) (fun v _ => fwd_expectUnit (fwd_out _ _) v) (fun v => grow_expectUnit (grow_out _) v)
    (fun c t => by grow_straight) (fun e => grow_raiseSock e) (by rfl)

theorem fwd_strOut {a : Action} {arg : String} (v : Val) :
    Fwd (succeeded a arg) ((fun v s => match v with | Val.str x => out x s | _ => badScript s) v) := by
  cases v <;> first | exact fwd_badScript _ | exact fwd_out _ _

theorem fwd_doVersion (arg : String) (hargs : arg = "") : Fwd (succeeded .version arg) (doVersion arg) := by
  subst hargs
  unfold doVersion
  have : onArg do_version_g0 "" = false := by decide
  simp only [this, Bool.false_eq_true, if_false]
  refine fwd_upcheck ?_ grow_id
  exact fwd_plainCall (fun v _ => fwd_strOut v) (fun v => (fwd_strOut (a := .version) (arg := "") v).1)
    (fun c t => grow_raiseFault c t) (fun e => grow_raiseSock e) (by rfl)

theorem fwd_formatChanges (succ : Call → Bool) (x y z : List String) : Fwd succ (formatChanges x y z) := by
  unfold formatChanges; dsimp only
  split
  · exact fwd_out _ _
  · exact fwd_outs _ _

theorem fwd_doReread (arg : String) (hargs : arg = "") : Fwd (succeeded .reread arg) (doReread arg) := by
  subst hargs
  unfold doReread
  have : onArg do_reread_g0 "" = false := by decide
  simp only [this, Bool.false_eq_true, if_false]
  have hk : ∀ v, Fwd (succeeded .reread "") ((fun v s => match v with | Val.reload a c r => formatChanges a c r s | _ => badScript s) v) := by
    intro v; cases v <;> first | exact fwd_badScript _ | exact fwd_formatChanges _ _ _ _
  exact fwd_plainCall (fun v _ => hk v) (fun v => (hk v).1) (fun c t => by grow_straight) (fun e => grow_raiseSock e) (by rfl)

theorem fwd_doAvail (arg : String) (hargs : arg = "") : Fwd (succeeded .avail arg) (doAvail arg) := by
  subst hargs
  unfold doAvail
  have : onArg do_avail_g0 "" = false := by decide
  simp only [this, Bool.false_eq_true, if_false]
  have hk : ∀ v, Fwd (succeeded .avail "") ((fun v s => match v with | Val.configs l => outs (l.map formatConfigInfo) s | _ => badScript s) v) := by
    intro v; cases v <;> first | exact fwd_badScript _ | exact fwd_outs _ _
  exact fwd_plainCall (fun v _ => hk v) (fun v => (hk v).1) (fun c t => by grow_straight) (fun e => grow_raiseSock e) (by rfl)

theorem fwd_ite {succ : Call → Bool} {c : Prop} [Decidable c] {f g : S → S} (hf : Fwd succ f) (hg : Fwd succ g) :
    Fwd succ (fun s => if c then f s else g s) := by
  by_cases h : c
  · simp only [h, if_true]; exact hf
  · simp only [h, if_false]; exact hg

/-! ### pid -/
theorem fwd_pidOne (arg name : String) : Fwd (succeeded .pid arg) (pidOne name) := by
  unfold pidOne
  refine fwd_plainCall (a := .pid) (fun v hv => ?_) (fun v => ?_) (fun c t => by grow_straight) (fun e => grow_raiseSock e) (by rfl)
  · cases v <;> first | exact fwd_badScript _ | skip
    rename_i i
    have hp : onPid do_pid_g4 i.pid = false := by
      simp [succeeded] at hv; simp [ctl_gen, hv]
    simp only [hp, Bool.false_eq_true, if_false]
    exact fwd_out _ _
  · cases v <;> first | exact grow_badScript | skip
    grow_straight

theorem fwd_doPid (arg : String) : Fwd (succeeded .pid arg) (doPid arg) := by
  unfold doPid
  refine fwd_upcheck ?_ grow_id
  dsimp only
  refine fwd_ite ?_ (fwd_ite ?_ ?_)
  · have hk : ∀ v, Fwd (succeeded .pid arg) ((fun v s => match v with | Val.int n => out (toString n) s | _ => badScript s) v) := by
      intro v; cases v <;> first | exact fwd_badScript _ | exact fwd_out _ _
    exact fwd_plainCall (a := .pid) (fun v _ => hk v) (fun v => (hk v).1) (fun c t => grow_raiseFault c t)
      (fun e => grow_raiseSock e) (by rfl)
  · have hk : ∀ v, Fwd (succeeded .pid arg) ((fun v s => match v with
        | Val.infos l => outs (l.map fun (i : Info) => toString i.pid) s | _ => badScript s) v) := by
      intro v; cases v <;> first | exact fwd_badScript _ | exact fwd_outs _ _
    exact fwd_plainCall (a := .pid) (fun v _ => hk v) (fun v => (hk v).1) (fun c t => grow_raiseFault c t)
      (fun e => grow_raiseSock e) (by rfl)
  · exact fwd_foldl pidOne _ (fun n _ => fwd_pidOne arg n)

/-! ### status -/
theorem statusMatches_eq (n : String) (i : Info) : statusMatches (splitNamespec n) i = nameMatches n i := by
  unfold statusMatches nameMatches
  cases h : (splitNamespec n).2
  · simp [ctl_gen, h]
  · simp [ctl_gen, h]
    congr 1
    rw [Bool.eq_iff_iff]; simp only [beq_iff_eq]; exact eq_comm

theorem fine_markStopped (infos : List Info) (s : S) (h : ∀ i ∈ infos, STOPPED_STATES.contains i.state = false) :
    markStopped infos s = s := by
  unfold markStopped
  induction infos generalizing s with
  | nil => rfl
  | cons i rest ih =>
    simp only [List.foldl_cons]
    have : onState do_status_g6 i.state = false := by
      have := h i List.mem_cons_self
      simpa [ctl_gen] using this
    simp only [this, Bool.false_eq_true, if_false]
    exact ih s (fun x hx => h x (List.mem_cons_of_mem _ hx))

theorem statusSelect_known (all : List Info) (names : List String) (acc : S × List Info)
    (h : ∀ n ∈ names, (all.filter (nameMatches n)).isEmpty = false) :
    names.foldl (fun acc n => statusName all n acc) acc =
      (acc.1, acc.2 ++ names.flatMap fun n => all.filter (nameMatches n)) := by
  induction names generalizing acc with
  | nil => simp
  | cons n names ih =>
    simp only [List.foldl_cons, List.flatMap_cons]
    have hn := h n List.mem_cons_self
    have hf : all.filter (statusMatches (splitNamespec n)) = all.filter (nameMatches n) := by
      congr 1; funext i; exact statusMatches_eq n i
    have : statusName all n acc = (acc.1, acc.2 ++ all.filter (nameMatches n)) := by
      unfold statusName; simp only [hf, hn, Bool.false_eq_true, if_false]
    rw [this, ih _ (fun x hx => h x (List.mem_cons_of_mem _ hx))]
    simp [List.append_assoc]

theorem fwd_doStatus (arg : String) : Fwd (succeeded .status arg) (doStatus arg) := by
  unfold doStatus
  refine fwd_upcheck ?_ (grow_setExit _)
  refine fwd_plainCall (a := .status) (fun v hv => ?_) (fun v => ?_) (fun c t => grow_raiseFault c t)
    (fun e => grow_raiseSock e) (by rfl)
  · cases v <;> first | exact fwd_badScript _ | skip
    rename_i all
    simp only [succeeded, bne_self_eq_false, Bool.false_or, Bool.and_eq_true, List.all_eq_true, Bool.not_eq_true',
      show (Action.status != Action.update) = true from rfl, Bool.true_or, Bool.and_true] at hv
    obtain ⟨hknown, hshown⟩ := hv
    dsimp only
    by_cases hall : onNames do_status_g1 (pySplit arg) = true
    · simp only [hall, if_true]
      have hsh : statusShown all (pySplit arg) = all := by
        unfold statusShown
        have : ((pySplit arg).isEmpty || (pySplit arg).contains "all") = true := by simpa [ctl_gen] using hall
        simp only [this, if_true]
      rw [hsh] at hshown
      refine ⟨grow_comp (grow_of_calls_eq (fun s => by unfold showStatuses; simp)) (grow_of_calls_eq (fun s => by rw [fine_markStopped _ _ hshown])), fun s hs _ => ?_⟩
      dsimp only
      rw [fine_markStopped _ _ hshown]
      unfold showStatuses
      exact (fine_outs _ s).2 hs
    · simp only [hall, Bool.false_eq_true, if_false]
      have hnall : ((pySplit arg).isEmpty || (pySplit arg).contains "all") = false := by
        cases h : ((pySplit arg).isEmpty || (pySplit arg).contains "all")
        · rfl
        · exact absurd (by simpa [ctl_gen] using h) hall
      have hk : ∀ n ∈ pySplit arg, (all.filter (nameMatches n)).isEmpty = false := by
        intro n hn
        unfold statusNamesKnown at hknown
        simp only [Bool.or_eq_false_iff] at hnall
        simp only [hnall.1, hnall.2, Bool.false_or, List.all_eq_true, Bool.not_eq_true'] at hknown
        exact hknown n hn
      have hsh : statusShown all (pySplit arg) = (pySplit arg).flatMap fun n => all.filter (nameMatches n) := by
        unfold statusShown; simp only [hnall, Bool.false_eq_true, if_false]
      rw [hsh] at hshown
      have hsel : ∀ s, statusSelect all (pySplit arg) s = (s, (pySplit arg).flatMap fun n => all.filter (nameMatches n)) := by
        intro s; unfold statusSelect; rw [statusSelect_known all _ (s, []) hk]; simp
      refine ⟨grow_of_calls_eq (fun s => by rw [hsel, fine_markStopped _ _ hshown]; unfold showStatuses; simp), fun s hs _ => ?_⟩
      dsimp only
      rw [hsel, fine_markStopped _ _ hshown]
      unfold showStatuses
      exact (fine_outs _ s).2 hs
  · cases v <;> first | exact grow_badScript | skip
    rename_i all
    intro s c hc
    dsimp only
    have gm : ∀ infos, Grow (markStopped infos) := by
      intro infos
      unfold markStopped
      exact grow_foldl (fun i s => if onState do_status_g6 i.state then setExit (K do_status_a14) s else s)
        (fun i => by grow_straight) infos
    have gs : ∀ infos, Grow (showStatuses infos) := fun infos => by unfold showStatuses; exact grow_outs _
    split
    · exact gm _ _ c (gs _ _ c hc)
    · have gsel : ∀ (names : List String) (acc : S × List Info), c ∈ acc.1.p.calls →
          c ∈ (names.foldl (fun acc n => statusName all n acc) acc).1.p.calls := by
        intro names
        induction names with
        | nil => intro acc h; exact h
        | cons n names ih =>
          intro acc h
          simp only [List.foldl_cons]
          apply ih
          unfold statusName; dsimp only
          split
          · simpa using h
          · exact h
      exact gm _ _ c (gs _ _ c (gsel _ (s, []) hc))

/-! ### update -/
theorem fwd_unitCall {a : Action} {arg m : String} {args : List String} {k : S → S} (hk : Fwd (succeeded a arg) k)
    (hm : ownTolerated a m = none) :
    Fwd (succeeded a arg) (rpc m args (expectUnit k) raiseFault raiseSock) :=
  fwd_plainCall (fun v _ => fwd_expectUnit hk v) (fun v => grow_expectUnit hk.1 v) (fun c t => grow_raiseFault c t)
    (fun e => grow_raiseSock e) hm

theorem stopFailed_false {arg g : String} {rs : List Res}
    (h : succeeded .update arg ⟨"stopProcessGroup", [g], .ok (.results rs)⟩ = true) : stopFailed rs = false := by
  simp only [succeeded, ownTolerated, List.all_eq_true, Bool.or_eq_true, beq_iff_eq] at h
  unfold stopFailed
  rw [List.any_eq_false]
  intro r hr
  rcases h r hr with h1 | h1
  · simp [h1, ctl_gen]
  · have : r.status = Faults_NOT_RUNNING := by simpa using h1
    simp [this, ctl_gen]

theorem fwd_stopGroupCall {arg g : String} {k : List Res → S → S} (gk : ∀ rs, Grow (k rs))
    (hk : ∀ rs, stopFailed rs = false → Fwd (succeeded .update arg) (k rs)) :
    Fwd (succeeded .update arg) (rpc "stopProcessGroup" [g] (expectResults k) raiseFault raiseSock) := by
  apply fwd_rpc_nofault
  · intro v hv
    cases v <;> first | exact fwd_badScript _ | skip
    exact hk _ (stopFailed_false hv)
  · exact fun v => grow_expectResults gk v
  · exact fun c t => grow_raiseFault c t
  · exact fun e => grow_raiseSock e
  · exact fun c => rfl
  · intro c t; simp [succeeded, listMethods]
  · exact fun e => rfl

theorem fwd_updRemoved (arg : String) (valid : List String) (g : String) :
    Fwd (succeeded .update arg) (updRemoved valid g) := by
  unfold updRemoved
  split
  · exact fwd_id _
  · refine fwd_stopGroupCall (fun rs => ?_) (fun rs hf => ?_)
    · dsimp only
      intro s c hc
      split
      · simpa using hc
      · exact (fwd_unitCall (a := .update) (arg := arg) (fwd_out _ _) (by rfl)).1 _ c (by simpa using hc)
    · simp only [hf, Bool.false_eq_true, if_false]
      exact fwd_comp (fwd_out _ _) (fwd_unitCall (fwd_out _ _) (by rfl))

theorem fwd_updChanged (arg : String) (valid : List String) (g : String) :
    Fwd (succeeded .update arg) (updChanged valid g) := by
  unfold updChanged
  split
  · exact fwd_id _
  · refine fwd_stopGroupCall (fun rs => ?_) (fun rs hf => ?_)
    · dsimp only
      intro s c hc
      split
      · simpa using hc
      · exact (fwd_unitCall (a := .update) (arg := arg) (fwd_unitCall (fwd_out _ _) (by rfl)) (by rfl)).1 _ c (by simpa using hc)
    · simp only [hf, Bool.false_eq_true, if_false]
      exact fwd_comp (fwd_out _ _) (fwd_unitCall (fwd_unitCall (fwd_out _ _) (by rfl)) (by rfl))

theorem fwd_updAdded (arg : String) (valid : List String) (g : String) :
    Fwd (succeeded .update arg) (updAdded valid g) := by
  unfold updAdded
  split
  · exact fwd_id _
  · exact fwd_unitCall (fwd_out _ _) (by rfl)

theorem fwd_updApply (arg : String) (valid x y z : List String) :
    Fwd (succeeded .update arg) (updApply valid x y z) := by
  unfold updApply
  exact fwd_comp (fwd_comp (fwd_foldl (updRemoved valid) z (fun g _ => fwd_updRemoved arg valid g))
    (fwd_foldl (updChanged valid) y (fun g _ => fwd_updChanged arg valid g)))
    (fwd_foldl (updAdded valid) x (fun g _ => fwd_updAdded arg valid g))

theorem fwd_updNoSuch_known (succ : Call → Bool) (groups : List String) (g : String) (h : groups.contains g = true) :
    Fwd succ (updNoSuch groups g) := by
  unfold updNoSuch
  simp only [h, if_true]
  exact fwd_id _

theorem grow_updNoSuch (groups : List String) (g : String) : Grow (updNoSuch groups g) := by
  unfold updNoSuch; grow_straight

theorem fwd_updChecked (arg : String) (x y z : List String) :
    Fwd (succeeded .update arg) (updChecked (validOf arg) x y z) := by
  unfold updChecked
  split
  · exact fwd_updApply _ _ _ _ _
  · refine fwd_plainCall (a := .update) (fun v hv => ?_) (fun v => ?_) (fun c t => grow_raiseFault c t)
      (fun e => grow_raiseSock e) (by rfl)
    · cases v <;> first | exact fwd_badScript _ | skip
      rename_i l
      have hv' : ∀ g ∈ validOf arg, (l.map (·.group)).contains g = true := by
        simpa [succeeded] using hv
      refine fwd_comp (fwd_foldl _ _ (fun g hg => fwd_updNoSuch_known _ _ g ?_)) (fwd_updApply _ _ _ _ _)
      have := hv' g hg
      simp only [List.contains_eq_mem, List.mem_append, decide_eq_true_eq] at this ⊢
      exact Or.inl this
    · cases v <;> first | exact grow_badScript | skip
      exact grow_comp (grow_foldl _ (fun g => grow_updNoSuch _ g) _) (fwd_updApply arg _ _ _ _).1

theorem fwd_doUpdate (arg : String) : Fwd (succeeded .update arg) (doUpdate arg) := by
  unfold doUpdate
  refine fwd_plainCall (a := .update) (fun v hv => ?_) (fun v => ?_) (fun c t => by grow_straight)
    (fun e => grow_raiseSock e) (by rfl)
  · cases v <;> first | exact fwd_badScript _ | exact fwd_updChecked _ _ _ _
  · cases v <;> first | exact grow_badScript | exact (fwd_updChecked arg _ _ _).1

/-! ### tail / maintail -/
theorem fwd_tailF {a : Action} (arg : String) (ha : a = .tail ∨ a = .maintail) (path : String) :
    Fwd (succeeded a arg) (tailF path) := by
  unfold tailF
  refine fwd_comp (fwd_out _ _) (fwd_plainCall (fun v hv => ?_) (fun v => ?_) (fun c t => grow_badScript)
    (fun e => grow_badScript) (by rcases ha with rfl | rfl <;> rfl))
  · cases v <;> first | exact fwd_badScript _ | skip
    · exact fwd_id _
    · simp [succeeded] at hv
  · cases v <;> first | exact grow_badScript | skip
    · exact grow_id
    · apply grow_of_calls_eq; intro s
      simp only [calls_setExit]
      unfold setP guard; split <;> rfl

theorem fwd_tailRead {a : Action} (arg : String) (ha : a = .tail ∨ a = .maintail) (name channel : String) (n : Int) :
    Fwd (succeeded a arg) (tailRead name channel n) := by
  unfold tailRead
  split
  all_goals
    exact fwd_plainCall (fun v _ => fwd_strOut v) (fun v => (fwd_strOut (a := a) (arg := arg) v).1)
      (fun c t => by grow_straight) (fun e => grow_raiseSock e) (by rcases ha with rfl | rfl <;> rfl)

theorem fwd_mainRead (arg : String) (n : Int) : Fwd (succeeded .maintail arg) (mainRead n) := by
  unfold mainRead
  exact fwd_plainCall (fun v _ => fwd_strOut v) (fun v => (fwd_strOut (a := .maintail) (arg := arg) v).1)
    (fun c t => by grow_straight) (fun e => grow_raiseSock e) (by rfl)

theorem fwd_tailGo (arg : String) (m : Option String) (name channel : String) (hm : modOk m = true) :
    Fwd (succeeded .tail arg) (tailGo m name channel) := by
  unfold tailGo
  split
  · exact fwd_tailRead arg (Or.inl rfl) _ _ _
  · rename_i x
    dsimp only
    split
    · exact fwd_tailF arg (Or.inl rfl) _
    · rename_i hf
      split
      · exact fwd_tailRead arg (Or.inl rfl) _ _ _
      · rename_i hn
        exfalso
        simp only [modOk, modifierOk, Bool.or_eq_true, beq_iff_eq] at hm
        rcases hm with h | h
        · exact hf (by simpa using h)
        · rw [hn] at h; cases h

theorem fwd_tailArgs (arg : String) (m : Option String) (args : List String) (hm : modOk m = true)
    (hr : tailRestOk args = true) : Fwd (succeeded .tail arg) (tailArgs m args) := by
  have chan : ∀ (x y : String), channelOk y = true → Fwd (succeeded .tail arg)
      (if ¬lowerAscii y = "stderr" ∧ ¬lowerAscii y = "stdout" then fun s =>
          setExit 1 (out ("Error: bad channel '" ++ lowerAscii y ++ "'") s)
        else tailGo m x (lowerAscii y)) := by
    intro x y hc
    have : ¬ (¬lowerAscii y = "stderr" ∧ ¬lowerAscii y = "stdout") := by
      simp only [channelOk, Bool.or_eq_true, beq_iff_eq] at hc
      rcases hc with h | h
      · exact fun hh => hh.2 h
      · exact fun hh => hh.1 h
    rw [if_neg this]
    exact fwd_tailGo arg m x _ hm
  rcases args with _ | ⟨x, _ | ⟨y, _ | ⟨z, _ | ⟨w, r⟩⟩⟩⟩
  · simp [tailRestOk] at hr
  · unfold tailArgs; simp [ctl_gen]
    exact fwd_tailGo arg m x "stdout" hm
  · unfold tailArgs; simp [ctl_gen]
    exact chan x y (by simpa [tailRestOk] using hr)
  · unfold tailArgs; simp [ctl_gen]
    exact chan x z (by simpa [tailRestOk] using hr)
  · simp [tailRestOk] at hr

theorem fwd_doTail (arg : String) (hargs : tailArgsOk (pySplit arg) = true) :
    Fwd (succeeded .tail arg) (doTail arg) := by
  unfold doTail
  refine fwd_upcheck ?_ grow_id
  dsimp only
  generalize pySplit arg = args at hargs
  rcases args with _ | ⟨a0, rest⟩
  · simp [tailArgsOk] at hargs
  · simp only [tailArgsOk, Bool.and_eq_true, decide_eq_true_eq] at hargs
    obtain ⟨hlen, hrest⟩ := hargs
    have h1 : onArgs do_tail_g1 (a0 :: rest) = false := by simp [ctl_gen]; omega
    have h2 : onArgs do_tail_g2 (a0 :: rest) = false := by simp [ctl_gen]; simp at hlen; omega
    simp only [h1, h2, Bool.false_eq_true, if_false]
    by_cases hd : (a0.toList.head? == some '-') = true
    · simp only [hd, if_true] at hrest ⊢
      simp only [Bool.and_eq_true] at hrest
      exact fwd_tailArgs arg (some a0) rest (by simpa [modOk] using hrest.1) hrest.2
    · simp only [hd, Bool.false_eq_true, if_false] at hrest ⊢
      exact fwd_tailArgs arg none (a0 :: rest) rfl hrest

theorem fwd_doMaintail (arg : String) (hargs : maintailArgsOk (pySplit arg) = true) :
    Fwd (succeeded .maintail arg) (doMaintail arg) := by
  unfold doMaintail
  refine fwd_upcheck ?_ grow_id
  dsimp only
  generalize pySplit arg = args at hargs
  rcases args with _ | ⟨x, _ | ⟨y, r⟩⟩
  · simp [ctl_gen]
    exact fwd_mainRead arg _
  · simp only [maintailArgsOk, Bool.and_eq_true] at hargs
    obtain ⟨hd, hm⟩ := hargs
    simp [ctl_gen]
    have hd' : x.toList.head? = some '-' := by simpa using hd
    simp only [hd', if_true]
    simp only [modifierOk, Bool.or_eq_true, beq_iff_eq] at hm
    by_cases hf : String.ofList x.toList.tail = "f"
    · simp only [hf, if_true]
      exact fwd_tailF arg (Or.inr rfl) _
    · simp only [hf, if_false]
      have hm' : (pyInt (String.ofList x.toList.tail)).isSome = true := by
        rcases hm with h | h
        · exact absurd (by simpa using h) hf
        · simpa using h
      obtain ⟨n, hn⟩ := Option.isSome_iff_exists.1 hm'
      simp only [hn]
      exact fwd_mainRead arg n
  · simp [maintailArgsOk] at hargs

/-- every modelled action: from a fine state, with a well-formed argument list, it ends fine provided every call
    it made succeeded -/
theorem fwd_run (a : Action) (arg : String) (hargs : argsOk a arg) : Fwd (succeeded a arg) (a.run arg) := by
  cases a
  · exact fwd_doStart arg (Or.inl rfl) hargs
  · exact fwd_doStop arg (Or.inl rfl) hargs
  · exact fwd_doRestart arg hargs
  · exact fwd_doSignal arg hargs
  · exact fwd_doStatus arg
  · exact fwd_doPid arg
  · exact fwd_doClear arg hargs
  · exact fwd_doAdd arg hargs
  · exact fwd_doRemove arg hargs
  · exact fwd_doUpdate arg
  · exact fwd_doReread arg hargs
  · exact fwd_doAvail arg hargs
  · exact fwd_doTail arg hargs
  · exact fwd_doMaintail arg hargs
  · exact fwd_doShutdown arg hargs
  · exact fwd_doReload arg hargs
  · exact fwd_doVersion arg hargs

/-! ### calls recorded by one request -/
/-- `f` records no call -/
def Keeps (f : S → S) : Prop := ∀ s, (f s).p.calls = s.p.calls
theorem keeps_comp {f g : S → S} (hf : Keeps f) (hg : Keeps g) : Keeps (fun s => g (f s)) := fun s => by rw [hg, hf]
theorem keeps_out (l : String) : Keeps (out l) := calls_out l
theorem keeps_setExit (n : Int) : Keeps (setExit n) := calls_setExit n
theorem keeps_raise (e : Exc) : Keeps (raise e) := calls_raise e
theorem keeps_printOne (line : LineFn) (ign : Option Int) (g : String) (n : Option String) (st : Int) (d : String) :
    Keeps (printOne line ign g n st d) := by
  unfold printOne
  split
  · exact keeps_raise _
  · exact keeps_comp (keeps_out _) (calls_setExitFromFault st ign)
theorem keeps_printResults (line : LineFn) (ign : Option Int) (rs : List Res) : Keeps (printResults line ign rs) := by
  induction rs with
  | nil => exact fun _ => rfl
  | cons r rs ih =>
    show Keeps (fun s => printResults line ign rs (printOne line ign r.group (some r.name) r.status r.desc s))
    exact keeps_comp (keeps_printOne _ _ _ _ _ _) ih
theorem keeps_expectUnit {k : S → S} (hk : Keeps k) (v : Val) : Keeps (expectUnit k v) := by
  cases v <;> first | exact hk | exact keeps_raise _
theorem keeps_expectResults {k : List Res → S → S} (hk : ∀ rs, Keeps (k rs)) (v : Val) : Keeps (expectResults k v) := by
  cases v <;> first | exact hk _ | exact keeps_raise _

/-- a request whose continuations record nothing records exactly itself, with the next answer of the script -/
theorem rpc_calls {m : String} {args : List String} {kOk : Val → S → S} {kFault : Int → String → S → S}
    {kSock : Int → S → S} (h1 : ∀ v, Keeps (kOk v)) (h2 : ∀ c t, Keeps (kFault c t)) (h3 : ∀ e, Keeps (kSock e))
    (s : S) (a : Ans) (rest : List Ans) (herr : s.err = none) (hs : s.p.script = a :: rest) :
    (rpc m args kOk kFault kSock s).p.calls = s.p.calls ++ [⟨m, args, a⟩] := by
  unfold rpc guard
  simp only [herr, Option.isSome_none, Bool.false_eq_true, if_false, hs]
  cases a with
  | ok v => dsimp only; rw [h1 v]
  | fault c t => dsimp only; rw [h2 c t]
  | proto c => dsimp only; rw [calls_raise]
  | sock e => dsimp only; rw [h3 e]

macro "keeps_straight" : tactic => `(tactic| (
  intro s; (try dsimp only); (repeat' split) <;> simp))

end Sv.Ctl.Spec
