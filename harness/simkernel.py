"""
L2 harness: a simulated kernel under the *unmodified* Supervisor.run() / runforever().

The seam is one level below ServerOptions: `supervisor.options.os` and `supervisor.options.fcntl`
are replaced by objects that implement fork / waitpid / kill / pipe / close / read / write (and
stat/access for commands under /sim/) on a simulated process and descriptor table, so the real
ServerOptions.waitpid / kill / readfd / write / make_pipes / close_fd / fork run unmodified, with
their own errno handling.  `options.poller` is a scripted poller: its poll() is the scheduling
point (it advances the virtual clock, lets scripted children exit / write / die on signals,
queues signals and RPC calls, samples every process's reported state against the kernel's own
table, and ends the run).  RPC calls are executed by a fake dispatcher placed in the socket map,
i.e. inside the real loop at the place where the real XML-RPC channel runs them.

Nothing in /repo is modified; module attributes are restored by close().
"""
import errno, operator as _operator, os as _os, signal, sys, types

TICK = 1024


class StopSim(BaseException):
    pass


class FakeTime(object):
    def __init__(self, ticks):
        self.t = ticks
    def time(self):
        return self.t / float(TICK)
    def __getattr__(self, name):
        import time as _t
        return getattr(_t, name)


class Pipe(object):
    def __init__(self, k):
        self.id = k
        self.buf = bytearray()
        self.rfds = set()      # parent-side descriptor numbers open for reading
        self.wfds = set()
        self.child_writer = None   # pid of the child holding the write end
        self.child_reader = None
        self.capacity = 65536
        self.blocked = []          # [name, pid, chan, bytearray]: what a child blocked in write(2) has not yet got into the pipe


class Child(object):
    def __init__(self, pid, name):
        self.pid, self.name = pid, name
        self.state = 'alive'       # alive | zombie | reaped
        self.status = None
        self.stdin = self.stdout = self.stderr = None
        self.dies_on = None        # set of signals that kill it; None = every signal


def _int(x):
    """argument conversion of the real system-call wrappers: None, str, bytes, float ... are a TypeError (as in
    os.close(None)), never an OSError -- so an `except OSError` around the call does not swallow them"""
    if isinstance(x, float):
        raise TypeError("'float' object cannot be interpreted as an integer")
    try:
        return _operator.index(x)
    except TypeError:
        raise TypeError("'%s' object cannot be interpreted as an integer" % type(x).__name__)


def _fd(x):
    v = _int(x)
    if not -(1 << 31) <= v < (1 << 31):
        raise OverflowError('fd is %s than %s' % (('greater', 'maximum') if v > 0 else ('less', 'minimum')))
    return v


def _fileno(x):
    """fcntl.fcntl accepts an int or an object with fileno()"""
    if isinstance(x, int):
        return _fd(x)
    fn = getattr(x, 'fileno', None)
    if fn is None:
        raise TypeError('argument must be an int, or have a fileno() method')
    return _fd(fn())


class FakeOS(object):
    """os module stand-in for supervisor.options; arguments the real calls reject are rejected in the same way"""
    def __init__(self, kernel):
        self.k = kernel
    def __getattr__(self, name):
        return getattr(_os, name)
    def fork(self): return self.k.fork()
    def waitpid(self, pid, flags): return self.k.waitpid(_int(pid), _int(flags))
    def kill(self, pid, sig): return self.k.kill(_int(pid), _int(sig))
    def pipe(self): return self.k.pipe()
    def close(self, fd): return self.k.close(_fd(fd))
    def read(self, fd, n):
        fd, n = _fd(fd), _int(n)
        if n < 0:
            raise OSError(errno.EINVAL, 'Invalid argument')
        return self.k.read(fd, n)
    def write(self, fd, data):
        fd = _fd(fd)
        if isinstance(data, str):
            raise TypeError("a bytes-like object is required, not 'str'")
        return self.k.write(fd, bytes(memoryview(data)))
    def stat(self, fn, *a, **kw):
        if isinstance(fn, str) and fn.startswith('/sim/'):
            return self.k.stat(fn)
        return _os.stat(fn, *a, **kw)
    def access(self, fn, mode, *a, **kw):
        if isinstance(fn, str) and fn.startswith('/sim/'):
            return True
        return _os.access(fn, mode, *a, **kw)


class Blocked(BaseException):
    """a system call on a blocking descriptor that can never complete: the single-threaded main loop hangs"""


class FakeFcntl(object):
    F_GETFL, F_SETFL = 3, 4
    def __init__(self, kernel=None):
        self.k = kernel
    def fcntl(self, fd, op, arg=0):
        fd, op = _fileno(fd), _int(op)
        if self.k is not None:
            self.k.fault('fcntl')
            if fd not in self.k.fds:
                raise OSError(errno.EBADF, 'Bad file descriptor')
            if op == self.F_GETFL:
                return self.k.fdflags.get(fd, 0)
            if op == self.F_SETFL:
                self.k.fdflags[fd] = _int(arg)
        return 0
    def __getattr__(self, name):
        import fcntl as _f
        return getattr(_f, name)


class SimPoller(object):
    def __init__(self, k):
        self.k = k
        self.r, self.w = set(), set()
    def register_readable(self, fd): self.r.add(fd)
    def register_writable(self, fd): self.w.add(fd)
    def unregister_readable(self, fd): self.r.discard(fd)
    def unregister_writable(self, fd): self.w.discard(fd)
    def poll(self, timeout): return self.k.on_poll(self.r, self.w)
    def before_daemonize(self): pass
    def after_daemonize(self): pass
    def close(self): pass


class RpcDispatcher(object):
    """stands where the XML-RPC channel stands in the socket map: runs queued calls on read events and
    polls deferred answers on write events, both inside runforever()'s per-dispatcher error guard"""
    RPC_FD = 3
    def __init__(self, k):
        self.k = k
        self.queue = []
        self.pending = []      # (id, callable)
        self.polled = set()
    def readable(self): return bool(self.queue)
    def writable(self): return bool(self.pending)
    def handle_read_event(self):
        from supervisor import xmlrpc
        q, self.queue = self.queue, []
        for cid, method, args in q:
            self.k.in_rpc = cid
            snap = self.k.snapshot()
            self.k.rec('rpc-begin', id=cid, method=method, args=list(args), procs=snap['procs'], mood=snap['mood'], missing=sorted(self.k.missing))
            try:
                ns, name = method.split('.')
                fn = getattr(self.k.rpc if ns == 'supervisor' else self.k.sysrpc, name)
                res = fn(*args)
                if callable(res):
                    self.pending.append((cid, res))
                    self.k.rec('rpc-deferred', id=cid, method=method)
                else:
                    self.k.rec('rpc-answer', id=cid, method=method, value=canon(res))
            except xmlrpc.RPCError as e:
                self.k.rec('rpc-answer', id=cid, method=method, fault=e.code)
            except Exception:
                self.handle_error()        # what runforever's guard does with any other exception
            finally:
                self.k.in_rpc = None
    def handle_write_event(self):
        from supervisor import xmlrpc
        from supervisor.http import NOT_DONE_YET
        still = []
        for cid, fn in self.pending:
            self.k.in_rpc = cid
            if cid not in self.polled:
                self.polled.add(cid)
                snap = self.k.snapshot()
                self.k.rec('rpc-first-poll', id=cid, procs=snap['procs'], mood=snap['mood'])
            try:
                res = fn()
                if res is NOT_DONE_YET:
                    still.append((cid, fn))
                else:
                    self.k.rec('rpc-answer', id=cid, deferred=True, value=canon(res))
            except xmlrpc.RPCError as e:
                self.k.rec('rpc-answer', id=cid, deferred=True, fault=e.code)
            finally:
                self.k.in_rpc = None
        self.pending = still
    def handle_error(self):
        import traceback
        self.k.rec('rpc-error', id=self.k.in_rpc, exc=traceback.format_exc().strip().split('\n')[-1])
        self.k.in_rpc = None


def canon(v):
    if isinstance(v, (bool, int, str)) or v is None:
        return v
    if isinstance(v, (list, tuple)):
        return [canon(x) for x in v]
    if isinstance(v, dict):
        return {k: canon(x) for k, x in sorted(v.items()) if k in ('name', 'group', 'status', 'description', 'state', 'statename', 'pid')}
    return repr(v)


class MemLogger(object):
    """activity log kept in memory: (level, message)"""
    def __init__(self):
        self.records = []
        self.handlers = []
    def _log(self, lvl, msg, *a, **kw):
        try:
            if kw: msg = msg % kw
            elif a: msg = msg % a
        except Exception:
            pass
        self.records.append((lvl, str(msg)))
    def __getattr__(self, name):
        if name in ('blather', 'trace', 'debug', 'info', 'warn', 'error', 'critical'):
            return lambda msg, *a, **kw: self._log(name, msg, *a, **kw)
        if name == 'log':
            return lambda level, msg, *a, **kw: self._log(str(level), msg, *a, **kw)
        if name == 'close':
            return lambda: None
        raise AttributeError(name)


class SimKernel(object):
    """
    programs: list of dicts  name, group, gprio, prio, autostart, autorestart('false'|'unexpected'|'true'), startsecs,
              startretries, exitcodes, stopsignal, stopwaitsecs, stopasgroup, killasgroup,
              dies_on ('any' | 'kill' (only SIGKILL)), logdir (optional: real stdout/stderr log files)
              listener (optional dict: events=[names], buffer_size) -> member of an event listener pool
    loglevel: options.loglevel of the daemon (supervisor.loggers.LevelsByName value; 0 = everything, the default)
    script:   list of steps; each step = (dt_ticks, [actions]); executed at successive poll() calls
              actions: ('exit', name, status) ('exitpid', pid, status) ('write', name, chan, bytes) ('sig', signum)
                       ('rpc', id, 'supervisor.method', args) ('foreign', pid, status) ('fault', call, errno, count)
                           call in fork pipe fcntl kill waitpid read write (fcntl = the F_GETFL/F_SETFL calls of make_pipes)
                       ('missing', name, bool)  command file of `name` (dis)appears
    """
    def __init__(self, programs, script, t0=1000000 * TICK, scratch=None, read_chunk=None, ready_rng=None, loglevel=0):
        import supervisor.options as so, supervisor.process as sp, supervisor.supervisord as sd
        import supervisor.rpcinterface as ri, supervisor.events as ev, supervisor.xmlrpc as xr
        self.mods = (so, sp, sd, ri)
        self.saved = [(so, 'os', so.os), (so, 'fcntl', so.fcntl), (sp, 'time', sp.time), (sd, 'time', sd.time),
                      (ri, 'time', ri.time), (ev, 'clear', ev.clear)]
        self.clock = FakeTime(t0)
        so.os = FakeOS(self)
        so.fcntl = FakeFcntl(self)
        self.fdflags = {}
        sp.time = sd.time = ri.time = self.clock
        self.ev = ev
        self.script = script
        self.passno = 0
        self.log = []
        self.passlog = []
        self.in_rpc = None
        self.next_pid = 100
        self.children = {}
        self.zombie_order = []
        self.fds = {}              # fd -> (Pipe, 'r'|'w')
        self.pipes_since_fork = []
        self.npipes = 0
        self.faults = {}           # call -> [errno, remaining]
        self.calls = {}
        self.pending_deaths = []
        self.fault_counts = {}
        self.foreign = {}
        self.missing = set()
        self.last_cmd = None
        self.read_chunk = read_chunk
        self.ready_rng = ready_rng
        self.stop_reports = []      # pids of children stopped by SIGSTOP and not yet reported to a WUNTRACED wait
        self.ready_p = 0.8
        self.programs = {p['name']: p for p in programs}
        # ---- the real options object, configured by hand (no config file, no daemonisation)
        o = so.ServerOptions()
        self.options = o
        o.poller = SimPoller(self)
        o.logger = MemLogger()
        o.identifier = 'sim'; o.nodaemon = True; o.first = True; o.test = False
        o.loglevel = loglevel; o.strip_ansi = False; o.minfds = 16; o.server_configs = []; o.httpservers = ()
        o.pidfile = _os.path.join(scratch or '/tmp', 'sim.pid')
        o.logfile = None
        o.setsignals = lambda: None
        o.openhttpservers = lambda s: None
        o.write_pidfile = lambda: None
        o.cleanup = lambda: None
        self.rpcdisp = RpcDispatcher(self)
        o.get_socket_map = lambda: {RpcDispatcher.RPC_FD: self.rpcdisp}
        o.process_group_configs = self._configs(programs)
        self.supervisord = sd.Supervisor(o)
        self.rpc = ri.SupervisorNamespaceRPCInterface(self.supervisord)
        self.sysrpc = xr.SystemNamespaceRPCInterface([('supervisor', self.rpc)])
        orig_clear = ev.clear
        def clear_and_subscribe():
            orig_clear()
            ev.subscribe(ev.Event, self._on_event)
        ev.clear = clear_and_subscribe
        self.outcome = None

    # ------------------------------------------------------------------ configuration
    def _configs(self, programs):
        from supervisor.options import ProcessConfig, ProcessGroupConfig, EventListenerConfig, EventListenerPoolConfig
        from supervisor.datatypes import RestartUnconditionally, RestartWhenExitUnexpected
        from supervisor import events, dispatchers
        groups = {}
        for p in programs:
            ar = {'false': False, 'unexpected': RestartWhenExitUnexpected, 'true': RestartUnconditionally}[p.get('autorestart', 'unexpected')]
            logdir = p.get('logdir')
            d = dict(name=p['name'], command='/sim/' + p['name'], directory=None, umask=None, priority=p.get('prio', 999),
                     autostart=p.get('autostart', True), autorestart=ar, startsecs=p.get('startsecs', 1),
                     startretries=p.get('startretries', 3), uid=None,
                     stdout_logfile=(_os.path.join(logdir, p['name'] + '.out') if logdir else None),
                     stdout_capture_maxbytes=p.get('capture', 0), stdout_events_enabled=p.get('events', False), stdout_syslog=False,
                     stdout_logfile_backups=0, stdout_logfile_maxbytes=0,
                     stderr_logfile=(_os.path.join(logdir, p['name'] + '.err') if logdir else None),
                     stderr_capture_maxbytes=0, stderr_logfile_backups=0, stderr_logfile_maxbytes=0,
                     stderr_events_enabled=p.get('events', False), stderr_syslog=False,
                     stopsignal=p.get('stopsignal', signal.SIGTERM), stopwaitsecs=p.get('stopwaitsecs', 10),
                     stopasgroup=p.get('stopasgroup', False), killasgroup=p.get('killasgroup', False),
                     exitcodes=list(p.get('exitcodes', [0])), redirect_stderr=p.get('redirect_stderr', False),
                     environment={}, serverurl=None)
            lst = p.get('listener')
            pc = (EventListenerConfig if lst else ProcessConfig)(self.options, **d)
            g = groups.setdefault(p.get('group', p['name']), {'prio': p.get('gprio', 999), 'pcs': [], 'listener': lst})
            g['pcs'].append(pc)
        out = []
        self.late_configs = {}
        late_groups = {p.get('group', p['name']) for p in programs if p.get('late')}
        for name, g in groups.items():
            if g['listener']:
                evs = [getattr(events.EventTypes, n) for n in g['listener']['events']]
                out.append(EventListenerPoolConfig(self.options, name, g['prio'], g['pcs'], g['listener'].get('buffer_size', 10),
                                                   evs, dispatchers.default_handler))
            else:
                out.append(ProcessGroupConfig(self.options, name, g['prio'], g['pcs']))
        out.sort()
        self.late_configs = {c.name: c for c in out if c.name in late_groups}
        return [c for c in out if c.name not in late_groups]

    def restore(self):
        for mod, attr, val in self.saved:
            setattr(mod, attr, val)
        self.ev.clear()

    # ------------------------------------------------------------------ recording
    def rec(self, kind, **kw):
        r = dict(kind=kind, t=self.clock.t, **kw)
        self.log.append(r)
        self.passlog.append(r)
        return r

    def _on_event(self, e):
        name = self.ev.getEventNameByType(e.__class__)
        d = {}
        if isinstance(e, self.ev.ProcessStateEvent):
            d = dict(process=e.process.config.name, group=(e.process.group.config.name if e.process.group else ''),
                     frm=e.from_state, extra=dict(e.extra_values), pid=e.process.pid, tries=e.process.backoff,
                     expected=int(bool(e.expected)))
        elif isinstance(e, (self.ev.ProcessGroupAddedEvent, self.ev.ProcessGroupRemovedEvent)):
            d = dict(group=e.group)
        elif isinstance(e, self.ev.TickEvent):
            d = dict(when=e.when)
        elif isinstance(e, self.ev.EventRejectedEvent):
            d = dict(process=e.process.config.name)
        elif isinstance(e, self.ev.ProcessLogEvent):
            d = dict(process=e.process.config.name, pid=e.pid, data=bytes(e.data) if isinstance(e.data, (bytes, bytearray)) else e.data.encode(), channel=e.channel)
        elif isinstance(e, self.ev.ProcessCommunicationEvent):
            d = dict(process=e.process.config.name, pid=e.pid, data=bytes(e.data) if isinstance(e.data, (bytes, bytearray)) else e.data.encode(), channel=e.channel)
        self.rec('event', name=name, rpc=self.in_rpc, **d)

    def fault(self, call):
        self.calls[call] = self.calls.get(call, 0) + 1       # every invocation of a fallible call, by kind
        fa = getattr(self, 'fault_at', None)
        if fa and call in fa:
            n = self.fault_counts.get(call, 0)
            self.fault_counts[call] = n + 1
            if n in fa[call]:
                self.rec('fault', call=call, errno=fa[call][n])
                raise OSError(fa[call][n], 'injected ' + call)
        f = self.faults.get(call)
        if f and f[1] > 0:
            f[1] -= 1
            self.rec('fault', call=call, errno=f[0])
            raise OSError(f[0], 'injected ' + call)

    # ------------------------------------------------------------------ system calls
    def stat(self, fn):
        name = fn[len('/sim/'):]
        self.last_cmd = name
        if name in self.missing:
            self.rec('stat-missing', name=name)
            raise OSError(errno.ENOENT, 'no such file')
        return _os.stat('/bin/sh')

    def _alloc(self):
        fd = 5
        while fd in self.fds:
            fd += 1
        return fd

    def pipe(self):
        self.fault('pipe')
        self.npipes += 1
        p = Pipe(self.npipes)
        r = self._alloc(); self.fds[r] = (p, 'r'); p.rfds.add(r)
        w = self._alloc(); self.fds[w] = (p, 'w'); p.wfds.add(w)
        self.pipes_since_fork.append(p)
        self.rec('pipe', r=r, w=w)
        return r, w

    def close(self, fd):
        ent = self.fds.pop(fd, None)
        if ent is None:
            raise OSError(errno.EBADF, 'bad fd')
        p, mode = ent
        (p.rfds if mode == 'r' else p.wfds).discard(fd)
        self.fdflags.pop(fd, None)
        self.rec('close', fd=fd)

    def fork(self):
        self.fault('fork')
        pid = self.next_pid
        self.next_pid += 1
        name = self.last_cmd
        c = Child(pid, name)
        prog = self.programs.get(name, {})
        c.dies_on = None if prog.get('dies_on', 'any') == 'any' else {signal.SIGKILL}
        # pipes left over from an earlier spawn whose fork() or pipe() failed have been closed again: not this child's
        ps = [p for p in self.pipes_since_fork if p.rfds or p.wfds]
        self.pipes_since_fork = []
        if len(ps) >= 2:
            c.stdin, c.stdout = ps[0], ps[1]
            c.stderr = ps[2] if len(ps) > 2 else ps[1]
            c.stdin.child_reader = pid
            c.stdout.child_writer = pid
            c.stderr.child_writer = pid
        self.children[pid] = c
        self.rec('fork', pid=pid, name=name, rpc=self.in_rpc)
        return pid

    def waitpid(self, pid, flags):
        self.fault('waitpid')
        if flags & getattr(_os, 'WUNTRACED', 2) and self.stop_reports:
            # only with WUNTRACED: a stopped (not exited) child is reported, once, with a "stopped" wait status
            z = self.stop_reports.pop(0)
            c = self.children.get(z)
            if c is not None and c.state == 'alive':
                sts = (int(signal.SIGSTOP) << 8) | 0x7f
                self.rec('wait', pid=z, sts=sts, foreign=False, stopped=True)
                return z, sts
        if self.zombie_order:
            z = self.zombie_order.pop(0)
            c = self.children.get(z) if z not in self.foreign else None
            if c is not None:
                c.state = 'reaped'
                sts = c.status
                self._child_gone(c)
            else:
                sts = self.foreign.pop(z)
            self.rec('wait', pid=z, sts=sts, foreign=c is None)
            return z, sts
        if not any(c.state == 'alive' for c in self.children.values()):
            self.rec('wait', pid=None, errno=errno.ECHILD)
            raise OSError(errno.ECHILD, 'no children')
        self.rec('wait', pid=0)
        return 0, 0

    def _child_gone(self, c):
        for p in (c.stdout, c.stderr):
            if p is not None and p.child_writer == c.pid:
                p.child_writer = None
            if p is not None and p.blocked:
                p.blocked = [b for b in p.blocked if b[1] != c.pid]      # died inside write(2): the rest was never written
        if c.stdin is not None:
            c.stdin.child_reader = None

    def make_zombie(self, pid, status):
        c = self.children.get(pid)
        if c is None or c.state != 'alive':
            return False
        c.state, c.status = 'zombie', status
        self.zombie_order.append(pid)
        # the child's ends of the pipes close when it dies -- unless a descendant it left behind still holds them
        if not self.programs.get(c.name, {}).get('leaves_pipes_open'):
            self._child_gone(c)
        return True

    def kill(self, pid, sig):
        sig = int(sig)
        c = self.children.get(abs(pid))
        r = self.rec('kill', pid=pid, sig=sig, rpc=self.in_rpc, name=(c.name if c else None))
        try:
            self.fault('kill')
        except OSError as e:
            r['result'] = 'esrch' if e.errno == errno.ESRCH else 'fail'
            raise
        if c is None or c.state == 'reaped':
            r['result'] = 'esrch'
            raise OSError(errno.ESRCH, 'no such process')
        r['result'] = 'ok'
        if c.state == 'alive' and sig in (signal.SIGSTOP, signal.SIGTSTP):
            # job-control stop: the child stays alive; waitpid reports it only to a caller that asks with WUNTRACED
            if not getattr(c, 'stopped', False):
                c.stopped = True
                self.stop_reports.append(c.pid)
            return
        if c.state == 'alive' and sig == signal.SIGCONT:
            c.stopped = False
            return
        if c.state == 'alive' and sig != 0 and (c.dies_on is None or sig in c.dies_on) and sig not in (signal.SIGUSR1, signal.SIGUSR2, signal.SIGCHLD, signal.SIGWINCH if hasattr(signal, 'SIGWINCH') else -1):
            if self.programs.get(c.name, {}).get('die_delay', 0) == 0:
                self.make_zombie(c.pid, sig)
            else:
                self.pending_deaths.append((c.pid, sig))

    def _child_write(self, p, name, pid, chan, data):
        """a child's write(2) on its end of a pipe: what fits goes into the pipe now (and only that has been written);
        the child stays blocked with the rest until the parent reads (a pipe holds `capacity` bytes)"""
        if p.blocked:
            p.blocked.append([name, pid, chan, bytearray(data)])
            return
        room = max(0, p.capacity - len(p.buf))
        if data[:room]:
            p.buf += data[:room]
            self.rec('childwrite', name=name, pid=pid, chan=chan, data=data[:room], pipe=p.id)
        if data[room:]:
            p.blocked.append([name, pid, chan, bytearray(data[room:])])

    def _unblock(self, p):
        while p.blocked and len(p.buf) < p.capacity:
            name, pid, chan, rest = p.blocked[0]
            room = p.capacity - len(p.buf)
            part = bytes(rest[:room]); del rest[:room]
            p.buf += part
            self.rec('childwrite', name=name, pid=pid, chan=chan, data=part, pipe=p.id)
            if not rest:
                p.blocked.pop(0)

    def read(self, fd, n):
        self.fault('read')
        ent = self.fds.get(fd)
        if ent is None:
            raise OSError(errno.EBADF, 'bad fd')
        p, mode = ent
        if mode != 'r':
            raise OSError(errno.EBADF, 'not open for reading')
        if p.buf:
            # at most n bytes, the rest stays in the pipe
            m = min(n, len(p.buf), self.read_chunk(p) if self.read_chunk else n)
            data = bytes(p.buf[:m]); del p.buf[:m]
            self.rec('read', fd=fd, data=data, pipe=p.id)
            self._unblock(p)
            return data
        if p.child_writer is None and not p.wfds:
            self.rec('read', fd=fd, data=b'', pipe=p.id)
            return b''
        if not self.fdflags.get(fd, 0) & _os.O_NONBLOCK:
            self.rec('blocked', call='read', fd=fd)
            raise Blocked('read on blocking fd %d with no data' % fd)
        raise OSError(errno.EAGAIN, 'would block')

    def write(self, fd, data):
        self.fault('write')
        ent = self.fds.get(fd)
        if ent is None:
            raise OSError(errno.EBADF, 'bad fd')
        p, mode = ent
        if mode != 'w':
            raise OSError(errno.EBADF, 'not open for writing')
        if p.child_reader is None and not p.rfds:
            raise OSError(errno.EPIPE, 'broken pipe')
        room = p.capacity - len(p.buf)
        if not self.fdflags.get(fd, 0) & _os.O_NONBLOCK and room < len(data) and p.child_reader is not None:
            self.rec('blocked', call='write', fd=fd)
            raise Blocked('write of %d bytes on blocking fd %d with %d bytes of room' % (len(data), fd, room))
        if room <= 0:
            raise OSError(errno.EAGAIN, 'would block')
        data = bytes(data)[:room]
        p.buf += data
        self.rec('write', fd=fd, data=data, pipe=p.id)
        return len(data)

    # ------------------------------------------------------------------ the scheduling point
    def snapshot(self):
        procs = {}
        for g in self.supervisord.process_groups.values():
            for n, p in g.processes.items():
                procs['%s:%s' % (g.config.name, n)] = (p.get_state(), p.pid)
        kern = {}
        for c in self.children.values():
            if c.state != 'reaped':
                kern.setdefault(c.name, []).append((c.pid, c.state))
        # what the API reports (getAllProcessInfo through the real rpcinterface); None while the daemon refuses calls
        reported = None
        try:
            from supervisor.rpcinterface import SupervisorNamespaceRPCInterface
            from supervisor.xmlrpc import RPCError
            try:
                infos = SupervisorNamespaceRPCInterface(self.supervisord).getAllProcessInfo()
                reported = {'%s:%s' % (i['group'], i['name']): (i['state'], i['pid']) for i in infos}
            except RPCError:
                reported = None
        except Exception as ex:      # an exception here is an observation, not an infrastructure error
            reported = {'__error__': (repr(ex), 0)}
        return {'procs': procs, 'kernel': kern, 'mood': self.options.mood, 'reported': reported,
                'pidhistory': sorted(self.options.pidhistory.keys())}

    def on_poll(self, rset, wset):
        # ---- end of the previous pass: record it
        snap = self.snapshot()
        self.rec('boundary', passno=self.passno, **snap)
        self.passlog = []
        self.passno += 1
        if self.passno > len(self.script):
            raise StopSim()
        dt, acts = self.script[self.passno - 1]
        self.clock.t += dt
        for pid, sig in self.pending_deaths:
            self.make_zombie(pid, sig)
        self.pending_deaths = []
        for a in acts:
            k = a[0]
            if k == 'exit':
                for c in self.children.values():
                    if c.name == a[1] and c.state == 'alive':
                        self.make_zombie(c.pid, a[2] << 8 if a[2] >= 0 else -a[2])
                        break
            elif k == 'exitpid':
                self.make_zombie(a[1], a[2] << 8 if a[2] >= 0 else -a[2])
            elif k == 'write':
                for c in self.children.values():
                    if c.name == a[1] and c.state == 'alive':
                        p = c.stdout if a[2] == 'stdout' else c.stderr
                        if p is not None:
                            self._child_write(p, c.name, c.pid, a[2], bytes(a[3]))
                        break
            elif k == 'sig':
                self.options.signal_receiver.receive(a[1], None)
            elif k == 'rpc':
                self.rpcdisp.queue.append((a[1], a[2], a[3]))
            elif k == 'addgroup':
                # the configuration now lists the group (as after reloadConfig); the API call activates it
                cfg = self.late_configs.get(a[2])
                if cfg is not None and cfg not in self.options.process_group_configs:
                    self.options.process_group_configs.append(cfg)
                self.rpcdisp.queue.append((a[1], 'supervisor.addProcessGroup', (a[2],)))
            elif k == 'removegroup':
                self.rpcdisp.queue.append((a[1], 'supervisor.removeProcessGroup', (a[2],)))
            elif k == 'foreign':
                # a pid supervisord does not (any longer) know: never one of its live or unreaped children
                c = self.children.get(a[1])
                if (c is None and a[1] < self.next_pid or c is not None and c.state == 'reaped' or a[1] >= 9000) and a[1] not in self.foreign:
                    self.children.pop(a[1], None)
                    self.foreign = dict(self.foreign); self.foreign[a[1]] = a[2] << 8
                    self.zombie_order.append(a[1])
            elif k == 'fault':
                self.faults[a[1]] = [a[2], a[3] if len(a) > 3 else 1]
            elif k == 'missing':
                (self.missing.add if a[2] else self.missing.discard)(a[1])
            elif k == 'lateio':
                # from now on a readable pipe is reported by poll() only 4 times out of 5: output that arrives just after
                # poll() returned is read later -- by the next pass, or by finish()'s drain() if the child is reaped first
                import random as _random
                self.ready_rng = _random.Random(a[1])
                self.ready_p = a[2] if len(a) > 2 else 0.8
        self.rec('poll', passno=self.passno, dt=dt)
        r, w = [], []
        for fd in sorted(rset):
            if fd == RpcDispatcher.RPC_FD:
                r.append(fd); continue
            ent = self.fds.get(fd)
            if ent is None:
                continue
            p = ent[0]
            ready = bool(p.buf) or (p.child_writer is None and not p.wfds)
            if ready and (self.ready_rng is None or self.ready_rng.random() < self.ready_p):
                r.append(fd)
        for fd in sorted(wset):
            if fd == RpcDispatcher.RPC_FD:
                w.append(fd); continue
            ent = self.fds.get(fd)
            if ent is not None and len(ent[0].buf) < ent[0].capacity:
                w.append(fd)
        return r, w

    # ------------------------------------------------------------------ run
    def run(self):
        from supervisor.medusa import asyncore_25 as asyncore
        try:
            self.supervisord.run()
            self.outcome = 'returned'
        except Blocked as e:
            self.outcome = 'blocked'
            self.exc = str(e)
            self.rec('boundary', passno=self.passno, **self.snapshot())
        except StopSim:
            self.outcome = 'stopsim'
        except asyncore.ExitNow:
            self.outcome = 'exitnow'
            self.rec('boundary', passno=self.passno, **self.snapshot())
        except BaseException as e:
            import traceback
            self.outcome = 'exception:' + type(e).__name__
            self.exc = traceback.format_exc()
            self.rec('boundary', passno=self.passno, **self.snapshot())
        finally:
            self.restore()
        return self.outcome
