import SupervisorModel.Basic.Bytes
import SupervisorModel.Model.ConfigTypes
import SupervisorModel.Generated.Config
/-
  Model of configuration processing (supervisor/options.py: ServerOptions.read_config [environment part],
  process_groups_from_parser, _processes_from_section, expand; supervisor/datatypes.py converters).

  Input: the PARSED ini (ordered sections with ordered option → string pairs, as the real
  UnhosedConfigParser delivers them after include processing; tokenisation is trusted), the ENV_ expansions,
  `here`, the host node name, the existing directories, the passwd table and the resolvable result handlers.
  Output: `Except String (Result)`.  Error strings starting with "exception:" stand for an exception class
  other than ValueError (only reachable through a type-inconsistent generated table); strings starting with
  "model:" mean "outside the modelled subset".

  Every option name, converter and default is looked up in the GENERATED table `Sv.Gen.Config.optTable`;
  word tables (truthy/falsy, logfile words, byte suffixes, signal names, event registry, forbidden name
  characters) and the numeric guards are generated too.  The control flow is written by hand.
-/
namespace Sv.Config
open Sv.Gen.Config

abbrev KV := List (String × String)

/-! ## Python `str` helpers (over `List Char`) -/

/-- `str.isspace` per character (the set used by `str.strip()` and `int()`) -/
def pyIsSpace (c : Char) : Bool :=
  let n := c.toNat
  (9 ≤ n && n ≤ 13) || (28 ≤ n && n ≤ 32) || n == 0x85 || n == 0xa0 || n == 0x1680 ||
  (0x2000 ≤ n && n ≤ 0x200a) || n == 0x2028 || n == 0x2029 || n == 0x202f || n == 0x205f || n == 0x3000

def stripL (l : List Char) : List Char := l.dropWhile pyIsSpace
def stripR (l : List Char) : List Char := (l.reverse.dropWhile pyIsSpace).reverse
def strip (l : List Char) : List Char := stripR (stripL l)
def pyStrip (s : String) : String := String.ofList (strip s.toList)

/-- `str.lower()` restricted to what can reach an ASCII word: ASCII letters and KELVIN SIGN -/
def lowerChar (c : Char) : Char :=
  if 'A' ≤ c ∧ c ≤ 'Z' then Char.ofNat (c.toNat + 32) else if c.toNat == 0x212A then 'k' else c
def pyLower (s : String) : String := String.ofList (s.toList.map lowerChar)

/-- `str.upper()` restricted likewise (dotless i, long s, sharp s and the st/fi/fl/ff ligatures) -/
def upperChar (c : Char) : List Char :=
  let n := c.toNat
  if 'a' ≤ c ∧ c ≤ 'z' then [Char.ofNat (n - 32)]
  else if n == 0x131 then ['I'] else if n == 0x17F then ['S'] else if n == 0xDF then ['S', 'S']
  else if n == 0xFB00 then ['F', 'F'] else if n == 0xFB01 then ['F', 'I'] else if n == 0xFB02 then ['F', 'L']
  else if n == 0xFB03 then ['F', 'F', 'I'] else if n == 0xFB04 then ['F', 'F', 'L']
  else if n == 0xFB05 || n == 0xFB06 then ['S', 'T'] else [c]
def pyUpper (s : String) : String := String.ofList (s.toList.flatMap upperChar)

def isPrefixChars : List Char → List Char → Bool
  | [], _ => true
  | _ :: _, [] => false
  | a :: as, b :: bs => a == b && isPrefixChars as bs

/-- `needle in hay` for strings -/
def containsChars (needle : List Char) : List Char → Bool
  | [] => needle.isEmpty
  | c :: r => isPrefixChars needle (c :: r) || containsChars needle r

def strContains (needle hay : String) : Bool := containsChars needle.toList hay.toList
def strStartsWith (p s : String) : Bool := isPrefixChars p.toList s.toList

/-- `s.split(sep)` for a single-character separator -/
def splitChar (sep : Char) : List Char → List Char → List (List Char)
  | cur, [] => [cur.reverse]
  | cur, c :: r => if c == sep then cur.reverse :: splitChar sep [] r else splitChar sep (c :: cur) r

/-- `section.split(':', 1)[1]` for a section name known to contain the prefix `p` (which ends in ':') -/
def afterPrefix (p s : String) : String := String.ofList (s.toList.drop p.length)

/-! ## Python `int()` on strings -/

def digitVal (base : Nat) (c : Char) : Option Nat :=
  if '0' ≤ c ∧ c ≤ '9' ∧ c.toNat - 48 < base then some (c.toNat - 48) else none

/-- digits with single underscores between digits -/
def digitRun (base : Nat) : Nat → Bool → List Char → Option Nat
  | acc, prevDigit, [] => if prevDigit then some acc else none
  | acc, prevDigit, c :: r =>
    if c == '_' then (if prevDigit then digitRun base acc false r else none)
    else match digitVal base c with
      | some d => digitRun base (acc * base + d) true r
      | none => none

def signed (neg : Bool) (n : Nat) : Int := if neg then -(n : Int) else (n : Int)

/-- `int(s)` for a string: surrounding whitespace, optional sign, ASCII digits with `_` separators.
    (non-ASCII decimal digits, which CPython also accepts, are outside the modelled subset) -/
def pyInt (s : String) : Option Int :=
  match strip s.toList with
  | '-' :: r => (digitRun 10 0 false r).map (signed true)
  | '+' :: r => (digitRun 10 0 false r).map (signed false)
  | r => (digitRun 10 0 false r).map (signed false)

def octBody : List Char → Option Nat
  | '0' :: 'o' :: '_' :: r => digitRun 8 0 false r
  | '0' :: 'O' :: '_' :: r => digitRun 8 0 false r
  | '0' :: 'o' :: r => digitRun 8 0 false r
  | '0' :: 'O' :: r => digitRun 8 0 false r
  | r => digitRun 8 0 false r

/-- `int(s, 8)` -/
def pyOct (s : String) : Option Int :=
  match strip s.toList with
  | '-' :: r => (octBody r).map (signed true)
  | '+' :: r => (octBody r).map (signed false)
  | r => (octBody r).map (signed false)

/-! ## dictionaries with Python's update semantics (insertion order kept) -/

def dset {α : Type} (d : List (String × α)) (k : String) (v : α) : List (String × α) :=
  match d with
  | [] => [(k, v)]
  | (k', v') :: r => if k' == k then (k, v) :: r else (k', v') :: dset r k v

def dupdate {α : Type} (d e : List (String × α)) : List (String × α) :=
  e.foldl (fun acc kv => dset acc kv.1 kv.2) d

/-! ## `expand`: `s % expansions` on the subset %%, %(k)s, %(k)d, %(k)Nd, %(k)0Nd, %(k)Ns -/

inductive Val
  | s (v : String)
  | i (v : Int)
deriving DecidableEq, Repr

abbrev Exps := List (String × Val)

def padLeft (c : Char) (w : Nat) (l : List Char) : List Char := List.replicate (w - l.length) c ++ l

def natOfDigits (ds : List Char) : Nat := ds.foldl (fun a c => a * 10 + (c.toNat - 48)) 0

def fmtDec (zero : Bool) (w : Nat) (n : Int) : List Char :=
  if zero then
    (if n < 0 then '-' :: padLeft '0' (w - 1) (toString (-n)).toList else padLeft '0' w (toString n).toList)
  else padLeft ' ' w (toString n).toList

/-- one conversion `%(key)<digits><conv>` applied to the looked-up value -/
def fmtSpec (v : Val) (ds : List Char) (conv : Char) : Except String (List Char) :=
  let zero := ds.head? == some '0'
  let w := natOfDigits ds
  if conv == 's' then
    match v with
    | .s x => .ok (padLeft ' ' w x.toList)
    | .i n => .ok (padLeft ' ' w (toString n).toList)
  else if conv == 'd' then
    match v with
    | .i n => .ok (fmtDec zero w n)
    | .s _ => .error "expand:%d of a string"
  else .error "expand:unsupported conversion"

inductive FmtSt
  | lit
  | pct
  | key (depth : Nat) (k : List Char)
  | spec (k : List Char) (ds : List Char)

/-- CPython's format scanner as a state machine (keys may contain balanced parentheses) -/
def expandGo (E : Exps) : FmtSt → List Char → List Char → Except String (List Char)
  | .lit, acc, [] => .ok acc.reverse
  | .lit, acc, c :: r => if c == '%' then expandGo E .pct acc r else expandGo E .lit (c :: acc) r
  | .pct, _, [] => .error "expand:incomplete format"
  | .pct, acc, c :: r =>
    if c == '%' then expandGo E .lit ('%' :: acc) r
    else if c == '(' then expandGo E (.key 1 []) acc r
    else .error "expand:unkeyed or unsupported format"
  | .key _ _, _, [] => .error "expand:incomplete format key"
  | .key d k, acc, c :: r =>
    if c == ')' then (if d ≤ 1 then expandGo E (.spec k.reverse []) acc r else expandGo E (.key (d - 1) (c :: k)) acc r)
    else if c == '(' then expandGo E (.key (d + 1) (c :: k)) acc r
    else expandGo E (.key d (c :: k)) acc r
  | .spec _ _, _, [] => .error "expand:incomplete format"
  | .spec k ds, acc, c :: r =>
    if c.isDigit then expandGo E (.spec k (c :: ds)) acc r
    else match E.lookup (String.ofList k) with
      | none => .error "expand:name cannot be expanded"
      | some v =>
        match fmtSpec v ds.reverse c with
        | .error e => .error e
        | .ok out => expandGo E .lit (out.reverse ++ acc) r

/-- options.py `expand(s, expansions, name)`: every failure is a ValueError -/
def expand (E : Exps) (s : String) : Except String String :=
  match expandGo E .lit [] s.toList with
  | .ok l => .ok (String.ofList l)
  | .error e => .error e

/-! ## converters (supervisor/datatypes.py) -/

/-- a value handed to a converter: a configured/expanded string or a default object -/
inductive Raw
  | none
  | str (s : String)
  | int (n : Int)
  | bool (b : Bool)
  | auto
deriving DecidableEq, Repr

inductive AutoRestart | never | unexpected | always
deriving DecidableEq, Repr

/-- a converted value -/
inductive CVal
  | none
  | str (s : String)
  | int (n : Int)
  | bool (b : Bool)
  | ints (l : List Int)
  | strs (l : List String)
  | auto
  | restart (r : AutoRestart)
deriving DecidableEq, Repr

/-- `str(x)` of a default object -/
def rawStr : Raw → String
  | .none => "None"
  | .str s => s
  | .int n => toString n
  | .bool b => if b then "True" else "False"
  | .auto => "supervisor.datatypes.Automatic"

def processOrGroupName (name : String) : Except String String :=
  let s := strip name.toList
  if forbiddenNameChars.any (fun c => s.contains c) then .error "name:forbidden character" else .ok (String.ofList s)

def integer : Raw → Except String Int
  | .int n => .ok n
  | .bool b => .ok (if b then 1 else 0)
  | .str s => match pyInt s with | some n => .ok n | none => .error "integer:not a number"
  | .none => .error "exception:TypeError"
  | .auto => .error "exception:TypeError"

def boolean (r : Raw) : Except String Bool :=
  let ss := pyLower (rawStr r)
  if truthy.contains ss then .ok true
  else if falsy.contains ss then .ok false
  else .error "boolean:not a valid boolean value"

def listOfStrings : Raw → Except String (List String)
  | .none => .ok []
  | .str s => if s.isEmpty then .ok [] else .ok ((splitChar ',' [] s.toList).map fun x => String.ofList (strip x))
  | .int n => if n == 0 then .ok [] else .error "list_of_strings:not a string"
  | .bool b => if b then .error "list_of_strings:not a string" else .ok []
  | .auto => .error "list_of_strings:not a string"

def listOfInts (s : String) : Except String (List Int) :=
  if s.isEmpty then .ok []
  else (splitChar ',' [] s.toList).mapM fun x =>
    match pyInt (String.ofList x) with | some n => .ok n | none => .error "list_of_ints:not an integer"

def listOfExitcodes : Raw → Except String (List Int)
  | .str s =>
    match listOfInts s with
    | .error _ => .error "exitcodes:not a valid list of exit codes"
    | .ok vals => if vals.any exitcodes_g0 then .error "exitcodes:out of range" else .ok vals
  | .none => .ok []
  | _ => .error "exitcodes:not a valid list of exit codes"

def takeRight (n : Nat) (l : List Char) : List Char := l.drop (l.length - n)
def dropRight (n : Nat) (l : List Char) : List Char := l.take (l.length - n)

/-- SuffixMultiplier.__call__ -/
def byteSizeGo (v : List Char) : List (String × Int) → Except String Int
  | [] => match pyInt (String.ofList v) with
    | some n => .ok (n * byteDefaultMultiplier)
    | none => .error "byte_size:not a number"
  | (suf, m) :: rest =>
    if takeRight suf.length v == suf.toList then
      match pyInt (String.ofList (dropRight suf.length v)) with
      | some n => .ok (n * m)
      | none => .error "byte_size:not a number"
    else byteSizeGo v rest

def byteSize : Raw → Except String Int
  | .str s => byteSizeGo (pyLower s).toList byteSuffixes
  | _ => .error "exception:AttributeError"

def autoRestart : Raw → Except String AutoRestart
  | .str s =>
    let v := pyLower s
    if truthy.contains v then .ok .always
    else if falsy.contains v then .ok .never
    else if autorestartUnexpectedWords.contains v then .ok .unexpected
    else .error "autorestart:invalid value"
  | _ => .error "exception:AttributeError"

def signalNumber : Raw → Except String Int
  | .int n => if sigNums.contains n then .ok n else .error "signal:not a valid signal number"
  | .str s =>
    match pyInt s with
    | some n => if sigNums.contains n then .ok n else .error "signal:not a valid signal number"
    | none =>
      let u := pyUpper (pyStrip s)
      let name := if strStartsWith "SIG" u then u else "SIG" ++ u
      match sigNames.lookup name with
      | none => .error "signal:not a valid signal name"
      | some n => if sigNums.contains n then .ok n else .error "signal:not a valid signal number"
  | _ => .error "exception:AttributeError"

def octalType : Raw → Except String Int
  | .str s => match pyOct s with | some n => .ok n | none => .error "octal:cannot be converted"
  | _ => .error "octal:cannot be converted"

/-- the converter wrapped around a `get(...)` call, by its name in options.py -/
def convert (conv : String) (r : Raw) : Except String CVal :=
  if conv == "" then
    match r with
    | .none => .ok .none | .str s => .ok (.str s) | .int n => .ok (.int n) | .bool b => .ok (.bool b) | .auto => .ok .auto
  else if conv == "integer" then (integer r).map .int
  else if conv == "boolean" then (boolean r).map .bool
  else if conv == "auto_restart" then (autoRestart r).map .restart
  else if conv == "signal_number" then (signalNumber r).map .int
  else if conv == "list_of_exitcodes" then (listOfExitcodes r).map .ints
  else if conv == "byte_size" then (byteSize r).map .int
  else if conv == "octal_type" then (octalType r).map .int
  else if conv == "list_of_strings" then (listOfStrings r).map .strs
  else if conv == "process_or_group_name" then (processOrGroupName (rawStr r)).map .str
  else .error ("model:unknown converter " ++ conv)

/-! ## `dict_of_key_value_pairs`: shlex (non-POSIX mode, wordchars extended by "/.+-():") -/

def isWordChar (c : Char) : Bool := c.isAlphanum || c == '_' || "/.+-():".toList.contains c
def isShWhite (c : Char) : Bool := c == ' ' || c == '\t' || c == '\r' || c == '\n'
def isQuote (c : Char) : Bool := c == '"' || c == '\''

inductive LexSt
  | start
  | word (tok : List Char)
  | quote (q : Char) (tok : List Char)
  | skipStart
  | skipWord (tok : List Char)

/-- shlex.read_token, char by char; tokens accumulate reversed -/
def lexGo : LexSt → List (List Char) → List Char → Except String (List (List Char))
  | .start, toks, [] => .ok toks.reverse
  | .start, toks, c :: r =>
    if isShWhite c then lexGo .start toks r
    else if c == '#' then lexGo .skipStart toks r
    else if isWordChar c then lexGo (.word [c]) toks r
    else if isQuote c then lexGo (.quote c [c]) toks r
    else lexGo .start ([c] :: toks) r
  | .skipStart, toks, [] => .ok toks.reverse
  | .skipStart, toks, c :: r => if c == '\n' then lexGo .start toks r else lexGo .skipStart toks r
  | .word tok, toks, [] => .ok ((tok.reverse :: toks).reverse)
  | .word tok, toks, c :: r =>
    if isShWhite c then lexGo .start (tok.reverse :: toks) r
    else if c == '#' then lexGo (.skipWord tok) toks r
    else if isWordChar c || isQuote c then lexGo (.word (c :: tok)) toks r
    else lexGo .start ([c] :: tok.reverse :: toks) r
  | .skipWord tok, toks, [] => .ok ((tok.reverse :: toks).reverse)
  | .skipWord tok, toks, c :: r => if c == '\n' then lexGo (.word tok) toks r else lexGo (.skipWord tok) toks r
  | .quote _ _, _, [] => .error "environment:no closing quotation"
  | .quote q tok, toks, c :: r =>
    if c == q then lexGo .start ((c :: tok).reverse :: toks) r else lexGo (.quote q (c :: tok)) toks r

def stripQuotes (l : List Char) : List Char := ((l.dropWhile isQuote).reverse.dropWhile isQuote).reverse

def kvPairs : List (List Char) → KV → Except String KV
  | [], d => .ok d
  | [k, e, v], d =>
    if e == ['='] then .ok (dset d (String.ofList k) (String.ofList (stripQuotes v))) else .error "environment:unexpected end of key/value pairs"
  | k :: e :: v :: _ :: rest, d =>
    if e == ['='] then kvPairs rest (dset d (String.ofList k) (String.ofList (stripQuotes v)))
    else .error "environment:unexpected end of key/value pairs"
  | _, _ => .error "environment:unexpected end of key/value pairs"

def dictOfKeyValuePairs (s : String) : Except String KV :=
  match lexGo .start [] s.toList with
  | .error e => .error e
  | .ok toks => kvPairs toks []

/-! ## the parsed ini and its surroundings -/

structure Section where
  name : String
  opts : KV
deriving DecidableEq, Repr

structure Ini where
  sections : List Section
  environ : KV              -- ServerOptions.environ_expansions at the time of the call (keys "ENV_…")
  here : String
  hostNode : String
  dirs : List String        -- directories that exist
  users : List (String × Int)   -- passwd database: name → uid
  handlers : List String    -- resolvable result_handler specs
deriving Repr

def Ini.sectionNames (ini : Ini) : List String := ini.sections.map (·.name)
def Ini.find (ini : Ini) (name : String) : Option Section := ini.sections.find? (·.name == name)

def strVals (kv : KV) : Exps := kv.map fun p => (p.1, Val.s p.2)

/-! ## `parser.saneget` driven by the generated option table -/

def findRow (scope opt : String) : Option OptRow :=
  optTable.find? fun r => r.scope == scope && r.opt == opt

def rawDefault (locals : List (String × Raw)) : Dflt → Except String Raw
  | .none => .ok .none
  | .str s => .ok (.str s)
  | .int n => .ok (.int n)
  | .bool b => .ok (.bool b)
  | .auto => .ok .auto
  | .ref r => match locals.lookup r with | some x => .ok x | none => .error ("model:unknown local " ++ r)
  | .required => .error "exception:NoOptionError"

/-- `saneget(section, opt, default, do_expand, expansions)`; `penv` = parser.expansions, `E` = expansions -/
def saneget (penv : Exps) (sec : Section) (row : OptRow) (locals : List (String × Raw)) (E : Exps) : Except String Raw :=
  match (match sec.opts.lookup row.opt with
         | some v => Except.ok (Raw.str v)
         | none => rawDefault locals row.dflt) with
  | .error e => .error e
  | .ok (.str s) => if row.doExpand then (expand (dupdate penv E) s).map .str else .ok (.str s)
  | .ok r => .ok r

/-- Python truthiness of a looked-up value -/
def rawFalsy : Raw → Bool
  | .none => true
  | .str s => s.isEmpty
  | .int n => n == 0
  | .bool b => !b
  | .auto => false

/-- `get(...) or '<text>'` where the source has it (GENERATED `optEmptyFallback`; the unchanged source has no such lookup):
    a looked-up value that is empty (falsy) is replaced by <text> before the converter sees it -/
def orFallback (table : List (String × String × String)) (scope opt : String) (r : Raw) : Raw :=
  match table.find? fun t => t.1 == scope && t.2.1 == opt with
  | some t => if rawFalsy r then .str t.2.2 else r
  | none => r

/-- `conv(get(section, 'opt', default))` as the table says -/
def getField (penv : Exps) (scope : String) (sec : Section) (opt : String) (locals : List (String × Raw)) (E : Exps) :
    Except String CVal :=
  match findRow scope opt with
  | none => .error ("model:option not in the generated table: " ++ scope ++ "." ++ opt)
  | some row =>
    match saneget penv sec row locals E with
    | .error e => .error e
    | .ok r => convert row.conv (orFallback optEmptyFallback scope opt r)

def asInt : CVal → Except String Int
  | .int n => .ok n
  | _ => .error "model:type (int expected)"
def asBool : CVal → Except String Bool
  | .bool b => .ok b
  | _ => .error "model:type (bool expected)"
def asStr : CVal → Except String String
  | .str s => .ok s
  | _ => .error "model:type (str expected)"
def asOptStr : CVal → Except String (Option String)
  | .str s => .ok (some s)
  | .none => .ok none
  | _ => .error "model:type (str or None expected)"
def asInts : CVal → Except String (List Int)
  | .ints l => .ok l
  | _ => .error "model:type (list of int expected)"
def asStrs : CVal → Except String (List String)
  | .strs l => .ok l
  | _ => .error "model:type (list of str expected)"
def asRestart : CVal → Except String AutoRestart
  | .restart r => .ok r
  | _ => .error "model:type (autorestart expected)"

/-! ## file-system and passwd parameters -/

/-- posixpath.dirname -/
def dirname (p : List Char) : List Char :=
  let head := (p.reverse.dropWhile (· != '/')).reverse
  if !head.isEmpty && head.any (· != '/') then (head.reverse.dropWhile (· == '/')).reverse else head

/-- datatypes.existing_dirpath (`~` expansion is outside the modelled subset) -/
def existingDirpath (dirs : List String) (v : String) : Except String String :=
  if strStartsWith "~" v then .error "model:expanduser" else
  let d := dirname v.toList
  if d.isEmpty then .ok v
  else if dirs.contains (String.ofList d) then .ok v
  else .error "logfile:directory does not exist"

inductive LogFile
  | none
  | auto
  | syslog
  | path (p : String)
  | resolved             -- an AUTO log file after create_autochildlogs() gave it its (unique, generated) name;
                         -- never produced by parsing, only by activating a group (Model/Reread.lean)
deriving DecidableEq, Repr

/-- datatypes.logfile_name on a string or on the Automatic default -/
def logfileName (dirs : List String) : Raw → Except String LogFile
  | .auto => .ok .auto
  | .none => .ok .none
  | .str s =>
    let c := pyLower s
    if logfileNones.contains c then .ok .none
    else if logfileAutos.contains c then .ok .auto
    else if logfileSyslogs.contains c then .ok .syslog
    else (existingDirpath dirs s).map .path
  | _ => .error "exception:TypeError"

/-- datatypes.name_to_uid against the passwd table -/
def nameToUid (users : List (String × Int)) (name : String) : Except String Int :=
  match pyInt name with
  | some n => if users.any (fun u => u.2 == n) then .ok n else .error "user:invalid user id"
  | none => match users.lookup name with
    | some n => .ok n
    | none => .error "user:invalid user name"

/-! ## `_processes_from_section` -/

inductive PKind | process | listener | fcgi
deriving DecidableEq, Repr

structure PConfig where
  kind : PKind
  name : String
  command : String
  directory : Option String
  umask : Option Int
  priority : Int
  autostart : Bool
  autorestart : AutoRestart
  startsecs : Int
  startretries : Int
  uid : Option Int
  stdout_logfile : LogFile
  stdout_capture_maxbytes : Int
  stdout_events_enabled : Bool
  stdout_logfile_backups : Int
  stdout_logfile_maxbytes : Int
  stdout_syslog : Bool
  stderr_logfile : LogFile
  stderr_capture_maxbytes : Int
  stderr_events_enabled : Bool
  stderr_logfile_backups : Int
  stderr_logfile_maxbytes : Int
  stderr_syslog : Bool
  stopsignal : Int
  stopwaitsecs : Int
  stopasgroup : Bool
  killasgroup : Bool
  exitcodes : List Int
  redirect_stderr : Bool
  environment : KV
  serverurl : Option String
deriving DecidableEq, Repr

/-- everything `_processes_from_section` computes before its `for process_num in range(…)` loop -/
structure Pre where
  priority : Int
  autostart : Bool
  autorestart : AutoRestart
  startsecs : Int
  startretries : Int
  stopsignal : Int
  stopwaitsecs : Int
  stopasgroup : Bool
  killasgroup : Bool
  exitcodes : List Int
  redirect_stderr : Bool
  numprocs : Int
  numprocs_start : Int
  environment_str : String
  stdout_cmaxbytes : Int
  stdout_events : Bool
  stderr_cmaxbytes : Int
  stderr_events : Bool
  serverurl : Option String
  uid : Option Int
  umask : Option Int
  process_name : String
deriving DecidableEq, Repr

/-- the parser-level environment of one call: ENV_ expansions, directories, users -/
structure Ctx where
  penv : Exps               -- parser.expansions: what every parser.saneget expands with
  here : String
  hostNode : String
  dirs : List String
  users : List (String × Int)
  handlers : List String
  /-- self.environ_expansions (what `expansions.update(self.environ_expansions)` in the numprocs loop adds).  The unchanged
      source binds `parser.expansions` to this very dictionary (GENERATED `rcParserSharesEnviron`), so the two agree. -/
  senv : Exps := penv

/-- `common_expansions` at the start of `_processes_from_section` -/
def commonExps (cx : Ctx) (programName groupName : String) : Exps :=
  [("here", .s cx.here), ("program_name", .s programName), ("host_node_name", .s cx.hostNode), ("group_name", .s groupName)]

def serverurlOf (o : Option String) : Option String :=
  match o with
  | some s => if !s.isEmpty && pyUpper (pyStrip s) == "AUTO" then none else some s
  | none => none

def optBind {α β : Type} (o : Option α) (f : α → Except String β) : Except String (Option β) :=
  match o with
  | none => .ok none
  | some a => (f a).map some

def parsePre (cx : Ctx) (sec : Section) (E : Exps) : Except String Pre := do
  let g := fun (opt : String) (locals : List (String × Raw)) => getField cx.penv "program" sec opt locals E
  let priority ← g "priority" [] >>= asInt
  let autostart ← g "autostart" [] >>= asBool
  let autorestart ← g "autorestart" [] >>= asRestart
  let startsecs ← g "startsecs" [] >>= asInt
  let startretries ← g "startretries" [] >>= asInt
  let stopsignal ← g "stopsignal" [] >>= asInt
  let stopwaitsecs ← g "stopwaitsecs" [] >>= asInt
  let stopasgroup ← g "stopasgroup" [] >>= asBool
  let killasgroup ← g "killasgroup" [("stopasgroup", .bool stopasgroup)] >>= asBool
  let exitcodes ← g "exitcodes" [] >>= asInts
  let redirect_stderr ← g "redirect_stderr" [] >>= asBool
  let numprocs ← g "numprocs" [] >>= asInt
  let numprocs_start ← g "numprocs_start" [] >>= asInt
  let environment_str ← g "environment" [] >>= asStr
  let stdout_cmaxbytes ← g "stdout_capture_maxbytes" [] >>= asInt
  let stdout_events ← g "stdout_events_enabled" [] >>= asBool
  let stderr_cmaxbytes ← g "stderr_capture_maxbytes" [] >>= asInt
  let stderr_events ← g "stderr_events_enabled" [] >>= asBool
  let serverurl ← g "serverurl" [] >>= asOptStr
  let user ← g "user" [] >>= asOptStr
  let uid ← optBind user (nameToUid cx.users)
  let umaskS ← g "umask" [] >>= asOptStr
  let umask ← optBind umaskS (fun s => octalType (.str s))
  let process_name ← g "process_name" [] >>= asStr
  pure { priority, autostart, autorestart, startsecs, startretries, stopsignal, stopwaitsecs, stopasgroup,
         killasgroup, exitcodes, redirect_stderr, numprocs, numprocs_start, environment_str, stdout_cmaxbytes,
         stdout_events, stderr_cmaxbytes, stderr_events, serverurl := serverurlOf serverurl, uid, umask, process_name }

/-- the two cross-option constraints checked before the loop -/
def checkPre (pre : Pre) : Except String Unit :=
  if pfs_g4 pre.numprocs pre.numprocs_start pre.stopasgroup pre.killasgroup
      && !(strContains processNumMarker pre.process_name) then
    .error "constraint:%(process_num) must be present within process_name when numprocs > 1"
  else if pfs_g6 pre.numprocs pre.numprocs_start pre.stopasgroup pre.killasgroup then
    .error "constraint:cannot set stopasgroup=true and killasgroup=false"
  else .ok ()

structure LogSet where
  logfile : LogFile
  backups : Int
  maxbytes : Int
  syslog : Bool
deriving DecidableEq, Repr

/-! ### the dictionaries of the numprocs loop

  `_processes_from_section` works with two names: `common_expansions` (built once) and `expansions` (what the
  loop body expands with).  Which statements bind and update `expansions`, and whether they stand in front of
  the loop or inside it, is GENERATED (`pfsPreLoop`, `pfsLoopHead`, `pfsWriteBack`, `pfsLoopGets`); the model
  interprets those lists, so a statement moved out of the loop changes the model (and breaks
  `Props.C14.process_independent`), not only the correspondence. -/

structure XS where
  common : Exps            -- `common_expansions`
  cur : Exps               -- `expansions`
  aliased : Bool           -- `expansions is common_expansions`
deriving Repr

/-- an in-place update of `expansions` (seen through `common_expansions` too when both name one object) -/
def XS.mut (s : XS) (f : Exps → Exps) : XS :=
  { common := if s.aliased then f s.cur else s.common, cur := f s.cur, aliased := s.aliased }

def applyStep (cx : Ctx) (pre : Pre) (num : Int) (s : XS) : ExpStep → XS
  | .alias => { common := s.common, cur := s.common, aliased := true }
  | .copy => { common := s.common, cur := s.common, aliased := false }
  | .setProcessNum => s.mut fun e => dset e "process_num" (.i num)
  | .setNumprocs => s.mut fun e => dset e "numprocs" (.i pre.numprocs)
  | .resetEnviron => s.mut fun e => dupdate e cx.senv

/-- in front of the loop: `common_expansions` exists, `expansions` is bound by the generated statements (if any) -/
def preLoopXS (cx : Ctx) (pre : Pre) (C : Exps) : XS :=
  pfsPreLoop.foldl (applyStep cx pre 0) { common := C, cur := [], aliased := false }

/-- the statements at the head of the loop body for process number `num` -/
def loopHead (cx : Ctx) (pre : Pre) (s : XS) (num : Int) : XS :=
  pfsLoopHead.foldl (applyStep cx pre num) s

def envExps (E : Exps) (environment : KV) : Exps :=
  environment.foldl (fun e kv => dset e ("ENV_" ++ kv.1) (.s kv.2)) E

def orError {α : Type} (o : Option α) (msg : String) : Except String α :=
  match o with
  | some a => .ok a
  | none => .error msg

/-- `get(section, opt, default[, expansions=expansions])` inside the loop: the nested `get` first does
    `expansions.update(common_expansions)` on the dictionary it was handed (a new `{}` when none was) -/
def loopGet (cx : Ctx) (sec : Section) (opt : String) (s : XS) : Except String (CVal × XS) := do
  let row ← orError (findRow "program" opt) ("model:option not in the generated table: program." ++ opt)
  let passes ← orError (pfsLoopGets.lookup opt) ("model:the loop does not look this option up: " ++ opt)
  let s' := if passes then s.mut (fun e => dupdate e s.common) else s
  let E := if passes then s'.cur else dupdate [] s.common
  let r ← saneget cx.penv sec row [] E
  let v ← convert row.conv r
  pure (v, s')

def rawOfCVal : CVal → Except String Raw
  | .none => .ok .none
  | .str x => .ok (.str x)
  | .int n => .ok (.int n)
  | .bool b => .ok (.bool b)
  | .auto => .ok .auto
  | _ => .error "model:type (unconverted value expected)"

/-- `if isinstance(lf_val, basestring): lf_val = expand(lf_val, expansions, lf_key)` where the source has it -/
def reexpand (E : Exps) : Raw → Except String Raw
  | .str x => if pfsLogfileReexpanded then (expand E x).map Raw.str else .ok (.str x)
  | r => .ok r

def finishLogSet (lf : LogFile) (backups maxbytes : Int) (syslog : Bool) : LogSet :=
  match lf with
  | .syslog => { logfile := .none, backups, maxbytes, syslog := true }
  | _ => { logfile := lf, backups, maxbytes, syslog }

/-- one round of the `for k in ('stdout', 'stderr')` loop -/
def logSet (cx : Ctx) (sec : Section) (s : XS) (k : String) : Except String (LogSet × XS) := do
  let a ← loopGet cx sec (k ++ "_logfile") s
  let lf0 ← rawOfCVal a.1
  let lf1 ← reexpand a.2.cur lf0
  let lf ← logfileName cx.dirs lf1
  let b ← loopGet cx sec (k ++ "_logfile_backups") a.2
  let backups ← asInt b.1
  let m ← loopGet cx sec (k ++ "_logfile_maxbytes") b.2
  let maxbytes ← asInt m.1
  let y ← loopGet cx sec (k ++ "_syslog") m.2
  let syslog ← asBool y.1
  pure (finishLogSet lf backups maxbytes syslog, y.2)

/-- the loop body after its head: the process configuration and the dictionaries it leaves behind -/
def procBody (cx : Ctx) (kind : PKind) (sec : Section) (pre : Pre) (s1 : XS) : Except String (PConfig × XS) := do
  let envStr ← expand s1.cur pre.environment_str
  let environment ← dictOfKeyValuePairs envStr
  let s2 := if pfsWriteBack then s1.mut (fun e => envExps e environment) else s1
  let d ← loopGet cx sec "directory" s2
  let directory ← asOptStr d.1
  let out ← logSet cx sec d.2 "stdout"
  let err ← logSet cx sec out.2 "stderr"
  let c ← loopGet cx sec "command" err.2
  let commandO ← asOptStr c.1
  let command ← orError commandO "constraint:program section does not specify a command"
  let nameX ← expand c.2.cur pre.process_name
  let name ← processOrGroupName nameX
  pure ({ kind, name, command, directory, umask := pre.umask, priority := pre.priority, autostart := pre.autostart,
          autorestart := pre.autorestart, startsecs := pre.startsecs, startretries := pre.startretries, uid := pre.uid,
          stdout_logfile := out.1.logfile, stdout_capture_maxbytes := pre.stdout_cmaxbytes,
          stdout_events_enabled := pre.stdout_events, stdout_logfile_backups := out.1.backups,
          stdout_logfile_maxbytes := out.1.maxbytes, stdout_syslog := out.1.syslog,
          stderr_logfile := if pre.redirect_stderr then .none else err.1.logfile,
          stderr_capture_maxbytes := pre.stderr_cmaxbytes, stderr_events_enabled := pre.stderr_events,
          stderr_logfile_backups := err.1.backups, stderr_logfile_maxbytes := err.1.maxbytes, stderr_syslog := err.1.syslog,
          stopsignal := pre.stopsignal, stopwaitsecs := pre.stopwaitsecs, stopasgroup := pre.stopasgroup,
          killasgroup := pre.killasgroup, exitcodes := pre.exitcodes, redirect_stderr := pre.redirect_stderr,
          environment, serverurl := pre.serverurl }, c.2)

/-- one round of the `for process_num in range(…)` loop -/
def mkProc (cx : Ctx) (kind : PKind) (sec : Section) (pre : Pre) (s : XS) (num : Int) : Except String (PConfig × XS) :=
  procBody cx kind sec pre (loopHead cx pre s num)

/-- `range(lo, hi)` as a list, `n` elements from `lo` -/
def rangeFrom (lo : Int) : Nat → List Int
  | 0 => []
  | n + 1 => lo :: rangeFrom (lo + 1) n

def procNums (pre : Pre) : List Int :=
  rangeFrom (procNumLo pre.numprocs pre.numprocs_start)
    (procNumHi pre.numprocs pre.numprocs_start - procNumLo pre.numprocs pre.numprocs_start).toNat

def procLoop (cx : Ctx) (kind : PKind) (sec : Section) (pre : Pre) : XS → List Int → Except String (List PConfig)
  | _, [] => .ok []
  | s, num :: rest =>
    match mkProc cx kind sec pre s num with
    | .error e => .error e
    | .ok (p, s') =>
      match procLoop cx kind sec pre s' rest with
      | .error e => .error e
      | .ok ps => .ok (p :: ps)

/-! ### ordering (`Config.__lt__`, `list.sort()`) -/

def cfgLt (pa : Int) (na : String) (pb : Int) (nb : String) : Bool :=
  if pa == pb then decide (na < nb) else decide (pa < pb)

/-- stable insertion: `x` goes in front of the first element that is not smaller than it -/
def insertBy {α : Type} (lt : α → α → Bool) (x : α) : List α → List α
  | [] => [x]
  | y :: ys => if lt y x then y :: insertBy lt x ys else x :: y :: ys

def sortBy {α : Type} (lt : α → α → Bool) (l : List α) : List α := l.foldr (insertBy lt) []

def pLt (a b : PConfig) : Bool := cfgLt a.priority a.name b.priority b.name

/-- `_processes_from_section` before the final sort -/
def processesUnsorted (cx : Ctx) (kind : PKind) (sec : Section) (secSuffix groupName : String) : Except String (List PConfig) := do
  let programName ← processOrGroupName secSuffix
  let E := commonExps cx programName groupName
  let pre ← parsePre cx sec E
  checkPre pre
  procLoop cx kind sec pre (preLoopXS cx pre E) (procNums pre)

def processesFromSection (cx : Ctx) (kind : PKind) (sec : Section) (secSuffix groupName : String) : Except String (List PConfig) :=
  (processesUnsorted cx kind sec secSuffix groupName).map (sortBy pLt)

/-! ## `process_groups_from_parser` -/

inductive GKind | group | pool | fcgi
deriving DecidableEq, Repr

structure GConfig where
  kind : GKind
  name : String
  priority : Int
  procs : List PConfig
  buffer_size : Int := 0
  pool_events : List String := []     -- event class names, sorted, without duplicates
  result_handler : String := ""
  socket : String := ""               -- FastCGI socket url
  socket_backlog : Option Int := none -- FastCGI socket_backlog= (none when not given)
  socket_mode : Option Int := none    -- unix socket: socket_mode= or 0o700; none for a tcp socket
  /-- unix socket without socket_owner= (socket_owner is outside the modelled subset): options.py derives the owner from
      the uid of `user=` -- None when that uid is os.getuid(), else (uid, gid_for_uid uid).  Two such owners are equal
      exactly when the two uids are equal or both map to None, and in the second case the uids are equal as well, so the
      uid stands for the owner wherever owners are only compared (SocketConfig.__eq__, C15). -/
  socket_owner : Option Int := none
deriving DecidableEq, Repr

def gLt (a b : GConfig) : Bool := cfgLt a.priority a.name b.priority b.name

def hereExps (cx : Ctx) : Exps := [("here", .s cx.here)]

/-- the `for program in programs` loop of a [group:x] section: (processes, sections taken) -/
def heteroPrograms (cx : Ctx) (ini : Ini) (groupName : String) : List String → Except String (List PConfig × List String)
  | [] => .ok ([], [])
  | p :: rest =>
    let ps := "program:" ++ p
    let fs := "fcgi-program:" ++ p
    let names := ini.sectionNames
    if !names.contains ps && !names.contains fs then .error "group:names unknown program"
    else if names.contains ps && names.contains fs then .error "group:ambiguous program name"
    else
      let sname := if names.contains ps then ps else fs
      match ini.find sname with
      | none => .error "model:section vanished"
      | some sec =>
        match processesFromSection cx .process sec p groupName with
        | .error e => .error e
        | .ok procs =>
          match heteroPrograms cx ini groupName rest with
          | .error e => .error e
          | .ok (more, taken) => .ok (procs ++ more, sname :: taken)

/-- all [group:x] sections in file order: (groups, program sections taken by them) -/
def heteroGroups (cx : Ctx) (ini : Ini) : List Section → Except String (List GConfig × List String)
  | [] => .ok ([], [])
  | sec :: rest =>
    if !strStartsWith "group:" sec.name then heteroGroups cx ini rest
    else
      match (do
        let gname ← processOrGroupName (afterPrefix "group:" sec.name)
        let programs ← getField cx.penv "group" sec "programs" [] (hereExps cx) >>= asStrs
        let priority ← getField cx.penv "group" sec "priority" [] (hereExps cx) >>= asInt
        let r ← heteroPrograms cx ini gname programs
        pure (({ kind := .group, name := gname, priority, procs := r.1 } : GConfig), r.2)) with
      | .error e => .error e
      | .ok (g, taken) =>
        match heteroGroups cx ini rest with
        | .error e => .error e
        | .ok (gs, taken') => .ok (g :: gs, taken ++ taken')

/-- [program:x] sections not taken by a group -/
def homogGroups (cx : Ctx) (exclude : List String) : List Section → Except String (List GConfig)
  | [] => .ok []
  | sec :: rest =>
    if !strStartsWith "program:" sec.name || exclude.contains sec.name then homogGroups cx exclude rest
    else
      match (do
        let suffix := afterPrefix "program:" sec.name
        let name ← processOrGroupName suffix
        let priority ← getField cx.penv "homogeneous" sec "priority" [] (hereExps cx) >>= asInt
        let procs ← processesFromSection cx .process sec suffix name
        pure ({ kind := .group, name, priority, procs } : GConfig)) with
      | .error e => .error e
      | .ok g =>
        match homogGroups cx exclude rest with
        | .error e => .error e
        | .ok gs => .ok (g :: gs)

def dedup : List String → List String
  | [] => []
  | x :: r => if r.contains x then dedup r else x :: dedup r

def strLt (a b : String) : Bool := decide (a < b)

/-- the event classes a pool subscribes to: every listed name, upper-cased, through the registry -/
def poolEvents (names : List String) : Except String (List String) :=
  (names.map pyUpper).mapM fun n =>
    match eventNames.lookup n with
    | some cls => .ok cls
    | none => .error "events:unknown event type"

def listenerGroup (cx : Ctx) (sec : Section) : Except String GConfig :=
  let suffix := afterPrefix "eventlistener:" sec.name
  let E := hereExps cx
  match processOrGroupName suffix with
  | .error e => .error e
  | .ok poolName =>
  match getField cx.penv "eventlistener" sec "priority" [] E >>= asInt with
  | .error e => .error e
  | .ok priority =>
  match getField cx.penv "eventlistener" sec "buffer_size" [] E >>= asInt with
  | .error e => .error e
  | .ok buffer_size =>
  if pgfp_g5 buffer_size 0 then .error "constraint:invalid buffer_size" else
  match getField cx.penv "eventlistener" sec "result_handler" [] E >>= asStr with
  | .error e => .error e
  | .ok handler =>
  -- every import failure (AttributeError, ImportError, TypeError, ValueError) is a configuration error
  if !cx.handlers.contains handler then .error "constraint:result_handler cannot be resolved" else
  match getField cx.penv "eventlistener" sec "events" [] E >>= asStrs with
  | .error e => .error e
  | .ok names =>
  if names.isEmpty then .error "constraint:section requires an events line" else
  match poolEvents names with
  | .error e => .error e
  | .ok events =>
  match getField cx.penv "eventlistener" sec "redirect_stderr" [] E >>= asBool with
  | .error e => .error e
  | .ok redirect =>
  if redirect then .error "constraint:redirect_stderr not allowed for an eventlistener" else
  match processesFromSection cx .listener sec suffix poolName with
  | .error e => .error e
  | .ok procs =>
    .ok { kind := .pool, name := poolName, priority, procs, buffer_size,
          pool_events := sortBy strLt (dedup events), result_handler := handler }

def listenerGroups (cx : Ctx) : List Section → Except String (List GConfig)
  | [] => .ok []
  | sec :: rest =>
    if !strStartsWith "eventlistener:" sec.name then listenerGroups cx rest
    else
      match listenerGroup cx sec with
      | .error e => .error e
      | .ok g =>
        match listenerGroups cx rest with
        | .error e => .error e
        | .ok gs => .ok (g :: gs)

/-- a path that `normalize_path` leaves unchanged (absolute, no empty/dot components, no trailing slash) -/
def simpleAbsPath (p : List Char) : Bool :=
  match p with
  | '/' :: r =>
    let comps := splitChar '/' [] r
    !r.isEmpty && comps.all fun c => !c.isEmpty && c != ['.'] && c != ['.', '.']
  | _ => false

/-- `tcp://([^\s:]+):(\d+)$` on the ASCII subset -/
def tcpSocket (rest : List Char) : Except String String :=
  match (splitChar ':' [] rest) with
  | [host, port] =>
    if host.isEmpty || host.any pyIsSpace || port.isEmpty || !port.all Char.isDigit then .error "socket:bad socket format"
    else
      let n := natOfDigits port
      if n < 1 || n > 65535 then .error "socket:port out of range"
      else .ok ("tcp://" ++ String.ofList (host.map lowerChar) ++ ":" ++ toString n)
  | _ => .error "socket:bad socket format"

def fcgiGroup (cx : Ctx) (sec : Section) : Except String GConfig := do
  let suffix := afterPrefix "fcgi-program:" sec.name
  let name ← processOrGroupName suffix
  let E := hereExps cx
  let priority ← getField cx.penv "fcgi" sec "priority" [] E >>= asInt
  let user ← getField cx.penv "fcgi" sec "user" [] E >>= asOptStr
  let uid ← optBind user (nameToUid cx.users)
  let backlogS ← getField cx.penv "fcgi" sec "socket_backlog" [] E >>= asOptStr
  let backlog ← optBind backlogS (fun s => integer (.str s))
  match backlog with
  | some b => if pgfp_g12 0 b then throw "constraint:invalid socket_backlog"
  | none => pure ()
  let owner ← getField cx.penv "fcgi" sec "socket_owner" [] E >>= asOptStr
  if owner.isSome then throw "model:socket_owner (group database) is outside the modelled subset"
  let modeS ← getField cx.penv "fcgi" sec "socket_mode" [] E >>= asOptStr
  let mode ← optBind modeS (fun s => octalType (.str s))
  let sockO ← getField cx.penv "fcgi" sec "socket" [] (dset E "program_name" (.s name)) >>= asOptStr
  let sock ← match sockO with
    | some s => if s.isEmpty then throw "constraint:section requires a socket line" else pure s
    | none => throw "constraint:section requires a socket line"
  let url ←
    if strStartsWith "unix://" sock then
      let path := sock.toList.drop 7
      if !(path.head? == some '/') then throw "socket:unix socket path is not absolute"
      else if simpleAbsPath path then pure sock
      else throw "model:socket path needs normalisation"
    else if mode.isSome then throw "socket:socket_mode only with a unix socket"
    else if strStartsWith "tcp://" sock then tcpSocket (sock.toList.drop 6)
    else throw "socket:bad socket format"
  let procs ← processesFromSection cx .fcgi sec suffix name
  let isUnix := strStartsWith "unix://" sock
  pure { kind := .fcgi, name, priority, procs, socket := url, socket_backlog := backlog,
         socket_mode := if isUnix then some (mode.getD 448) else none,
         socket_owner := if isUnix then uid else none }

def fcgiGroups (cx : Ctx) (exclude : List String) : List Section → Except String (List GConfig)
  | [] => .ok []
  | sec :: rest =>
    if !strStartsWith "fcgi-program:" sec.name || exclude.contains sec.name then fcgiGroups cx exclude rest
    else
      match fcgiGroup cx sec with
      | .error e => .error e
      | .ok g =>
        match fcgiGroups cx exclude rest with
        | .error e => .error e
        | .ok gs => .ok (g :: gs)

/-- `process_groups_from_parser` before `groups.sort()` -/
def groupsUnsorted (cx : Ctx) (ini : Ini) : Except String (List GConfig) := do
  let h ← heteroGroups cx ini ini.sections
  let homog ← homogGroups cx h.2 ini.sections
  let pools ← listenerGroups cx ini.sections
  let fcgi ← fcgiGroups cx h.2 ini.sections
  pure (h.1 ++ homog ++ pools ++ fcgi)

def processGroupsFromParser (cx : Ctx) (ini : Ini) : Except String (List GConfig) :=
  (groupsUnsorted cx ini).map (sortBy gLt)

/-! ## `read_config`: the [supervisord] environment and its merge into every process -/

/-- `env = section.environment.copy(); env.update(proc.environment)` -/
def mergeEnv (sup prog : KV) : KV := dupdate sup prog

def mergeGroupEnv (sup : KV) (g : GConfig) : GConfig :=
  { g with procs := g.procs.map fun p => { p with environment := mergeEnv sup p.environment } }

/-! The loop itself: `for group in …: for proc in …: env = section.environment[.copy()]; env.update(proc.environment);
    proc.environment = env`.  Whether `env` is a fresh dictionary per process is GENERATED (`rcEnvCopied`).  Without the
    copy there is one dictionary: every `update` goes into `section.environment`, and after the loop every process
    configuration (and the [supervisord] section) refers to that one accumulated dictionary. -/

/-- `section.environment` after the loop -/
def envAfterLoop (copied : Bool) (sup : KV) (gs : List GConfig) : KV :=
  if copied then sup
  else (gs.flatMap (·.procs)).foldl (fun acc p => dupdate acc p.environment) sup

/-- what `proc.environment` of the processes of one group denotes after the loop (`fin` = `envAfterLoop`) -/
def mergeGroupEnvBy (copied : Bool) (sup fin : KV) (g : GConfig) : GConfig :=
  { g with procs := g.procs.map fun p => { p with environment := if copied then mergeEnv sup p.environment else fin } }

structure SupSettings where
  minfds : Int
  minprocs : Int
  umask : Int
  logfile_maxbytes : Int
  logfile_backups : Int
  identifier : String
  nodaemon : Bool
  silent : Bool
  nocleanup : Bool
  strip_ansi : Bool
  environment : KV
deriving DecidableEq, Repr

structure Result where
  sup : SupSettings
  groups : List GConfig
deriving DecidableEq, Repr

/-- [supervisord] options whose conversion touches the file system or the logging module: not modelled -/
def supUnsupported : List String := ["directory", "logfile", "loglevel", "pidfile", "childlogdir"]

/-! Which ENV_ names a section's lookups see.  `read_config` adds the [supervisord] environment to
    `self.environ_expansions` (`senv` below = the dictionary after that loop, `penv0` = before it).  The parser expands with
    `parser.expansions`; whether that is the same dictionary object (so that the additions are seen) or a snapshot taken
    before, and whether a family of sections is parsed after the loop, is GENERATED (`rcParserSharesEnviron`,
    `rcGroupsAfterEnvMerge`, `rcServersAfterEnvMerge`). -/

/-- self.environ_expansions at the time a family of sections is parsed -/
def environAt (afterMerge : Bool) (penv0 senv : Exps) : Exps := if afterMerge then senv else penv0

/-- parser.expansions at that time -/
def parserExps (shares afterMerge : Bool) (penv0 senv : Exps) : Exps :=
  if shares then environAt afterMerge penv0 senv else penv0

/-- the context `process_groups_from_parser` runs in -/
def readCtx (ini : Ini) (supEnv : KV) : Ctx :=
  { penv := parserExps rcParserSharesEnviron rcGroupsAfterEnvMerge (strVals ini.environ) (envExps (strVals ini.environ) supEnv),
    senv := environAt rcGroupsAfterEnvMerge (strVals ini.environ) (envExps (strVals ini.environ) supEnv),
    here := ini.here, hostNode := ini.hostNode, dirs := ini.dirs, users := ini.users, handlers := ini.handlers }

/-- what the lookups of `server_configs_from_parser` ([unix_http_server] / [inet_http_server]: file, port, username,
    password, chmod, chown) expand with, besides `here` -/
def serverExps (ini : Ini) (supEnv : KV) : Exps :=
  parserExps rcParserSharesEnviron rcServersAfterEnvMerge (strVals ini.environ) (envExps (strVals ini.environ) supEnv)

def readConfig (ini : Ini) : Except String Result := do
  let sec ← match ini.find "supervisord" with
    | some s => pure s
    | none => throw "constraint:.ini file does not include supervisord section"
  if supUnsupported.any (fun o => (sec.opts.lookup o).isSome) then throw "model:[supervisord] option outside the modelled subset"
  let penv0 := strVals ini.environ
  let E := [("here", Val.s ini.here)]
  let g := fun (opt : String) => getField penv0 "supervisord" sec opt [] E
  let minfds ← g "minfds" >>= asInt
  let minprocs ← g "minprocs" >>= asInt
  let umask ← g "umask" >>= asInt
  let logfile_maxbytes ← g "logfile_maxbytes" >>= asInt
  let logfile_backups ← g "logfile_backups" >>= asInt
  let identifier ← g "identifier" >>= asStr
  let nodaemon ← g "nodaemon" >>= asBool
  let silent ← g "silent" >>= asBool
  let nocleanup ← g "nocleanup" >>= asBool
  let strip_ansi ← g "strip_ansi" >>= asBool
  let envStr0 ← g "environment" >>= asStr
  -- read unexpanded (do_expand=False in the generated table), then expanded once with here / host_node_name / ENV_
  let envStr ← expand (dupdate [("here", Val.s ini.here), ("host_node_name", Val.s ini.hostNode)] penv0) envStr0
  let supEnv ← dictOfKeyValuePairs envStr
  let groups ← processGroupsFromParser (readCtx ini supEnv) ini
  let fin := envAfterLoop rcEnvCopied supEnv groups
  pure { sup := { minfds, minprocs, umask, logfile_maxbytes, logfile_backups, identifier, nodaemon, silent,
                  nocleanup, strip_ansi, environment := fin },
         groups := groups.map (mergeGroupEnvBy rcEnvCopied supEnv fin) }

/-! ## `read_include_config`: what `%(here)s` of an included file stands for

  `parser.read(filename)` adds the sections of one matched file to the parser; `parser.expand_here(dir)` then replaces
  the text `%(here)s` in every value the parser holds.  A value is modelled as the list of its pieces around the
  occurrences of that marker (the split is ConfigParser / `str.replace` territory and trusted); sections are only
  appended (two files defining the same section name are outside this model).  WHICH directory is handed to
  `expand_here` after a file has been read is GENERATED (`includeHereSrc`). -/

inductive HTok
  | lit (s : String)
  | here                     -- one occurrence of `%(here)s`
deriving DecidableEq, Repr

abbrev HVal := List HTok

structure HSection where
  name : String
  opts : List (String × HVal)
deriving DecidableEq, Repr

def HTok.subst (dir : String) : HTok → HTok
  | .here => .lit dir
  | t => t

def HSection.subst (dir : String) (s : HSection) : HSection :=
  { s with opts := s.opts.map fun kv => (kv.1, kv.2.map (HTok.subst dir)) }

/-- `parser.expand_here(dir)` -/
def expandHere (dir : String) (secs : List HSection) : List HSection := secs.map (HSection.subst dir)

/-- one file matched by a pattern: `os.path.abspath(os.path.dirname(filename))` and its sections -/
structure IncFile where
  dir : String
  sections : List HSection
deriving Repr

/-- one include pattern: `os.path.abspath(os.path.dirname(pattern))` and `sorted(glob.glob(pattern))` -/
structure IncPattern where
  dir : String
  files : List IncFile
deriving Repr

def hereArg (mainHere : String) (p : IncPattern) (f : IncFile) : String :=
  match includeHereSrc with
  | .matchedFile => f.dir
  | .pattern => p.dir
  | .mainFile => mainHere

/-- the loop over the files matched by one pattern -/
def readFiles (mainHere : String) (p : IncPattern) : List HSection → List IncFile → List HSection
  | acc, [] => acc
  | acc, f :: fs => readFiles mainHere p (expandHere (hereArg mainHere p f) (acc ++ f.sections)) fs

/-- `read_include_config`: the parser's sections after all patterns (the main file's own `%(here)s` first) -/
def readInclude (mainHere : String) (main : List HSection) (pats : List IncPattern) : List HSection :=
  pats.foldl (fun acc p => readFiles mainHere p acc p.files) (expandHere mainHere main)

end Sv.Config
