"""
supervisor/loggers.py FileHandler / RotatingFileHandler: every comparison of doRollover,
removeAndRename and FileHandler.remove as sites; plus (TABLES) what the statement-level
extractor does not reach: the range() bounds of the backup-shifting loop, the index arithmetic
of the "%s.%d" names, the literal open() modes and errno.ENOENT.
"""
import ast, errno, os
import extract
from extract import Site, Tr, find_func, Untranslatable

LEAN_MODULE = 'Rotate'
IMPORTS = []
OPENS = []

_PARAMS = '(maxBytes backupCount tell i : Int) (sfnExists : Bool)'
_vars = {
    'self.maxBytes': ('maxBytes', 'int'), 'self.backupCount': ('backupCount', 'int'),
    'self.stream.tell()': ('tell', 'int'), 'i': ('i', 'int'),
    'os.path.exists(sfn)': ('sfnExists', 'bool'),
}
_EPARAMS = '(dfnExists : Bool) (oserrno : Int)'
_evars = {
    'self._exists(dfn)': ('dfnExists', 'bool'), 'why.args[0]': ('oserrno', 'int'),
}
_econsts = {'errno.ENOENT': 'ENOENT'}

SITES = [
    Site('supervisor/loggers.py', 'RotatingFileHandler.doRollover', 'doRollover', _PARAMS, _vars),
    Site('supervisor/loggers.py', 'RotatingFileHandler.removeAndRename', 'removeAndRename', _EPARAMS, _evars, _econsts),
    Site('supervisor/loggers.py', 'FileHandler.remove', 'fhRemove', _EPARAMS, _evars, _econsts),
    Site('supervisor/loggers.py', 'RotatingFileHandler.emit', 'rfhEmit', _EPARAMS, _evars, _econsts),
    Site('supervisor/loggers.py', 'FileHandler.reopen', 'fhReopen', _EPARAMS, _evars, _econsts),
]


def _name_index(tr, e, what):
    """index expression of a backup file name:  "%s.%d" % (self.baseFilename, X) -> X ;
    self.baseFilename + ".K" -> K ; self.baseFilename -> 0"""
    if ast.unparse(e) == 'self.baseFilename':
        return '(0 : Int)'
    if (isinstance(e, ast.BinOp) and isinstance(e.op, ast.Mod) and isinstance(e.left, ast.Constant)
            and e.left.value == '%s.%d' and isinstance(e.right, ast.Tuple) and len(e.right.elts) == 2
            and ast.unparse(e.right.elts[0]) == 'self.baseFilename'):
        return tr.expr(e.right.elts[1])
    if (isinstance(e, ast.BinOp) and isinstance(e.op, ast.Add) and ast.unparse(e.left) == 'self.baseFilename'
            and isinstance(e.right, ast.Constant) and isinstance(e.right.value, str)
            and e.right.value.startswith('.') and e.right.value[1:].isdigit()):
        return '(%d : Int)' % int(e.right.value[1:])
    raise Untranslatable('%s: file name expression %s' % (what, ast.unparse(e)))


def _mode_truncates(e, what):
    if isinstance(e, ast.Constant) and isinstance(e.value, str):
        m = e.value
        if 'a' in m and 'w' not in m: return 'false'
        if 'w' in m and 'a' not in m: return 'true'
    raise Untranslatable('%s: open mode %s' % (what, ast.unparse(e)))


def TABLES():
    src = open(os.path.join(extract.REPO, 'supervisor/loggers.py')).read()
    tree = ast.parse(src)
    out = ['def ENOENT : Int := %d' % errno.ENOENT, '']
    # ---- doRollover: loop bounds, name indices, mode of the final open --------------------
    func = find_func(tree, 'RotatingFileHandler.doRollover')
    tr = Tr(SITES[0], func)
    loops = [n for n in ast.walk(func) if isinstance(n, ast.For)]
    if len(loops) != 1:
        raise Untranslatable('doRollover: expected exactly one for loop, found %d' % len(loops))
    loop = loops[0]
    it = loop.iter
    if not (isinstance(it, ast.Call) and ast.unparse(it.func) == 'range' and len(it.args) == 3
            and isinstance(loop.target, ast.Name) and loop.target.id == 'i'):
        raise Untranslatable('doRollover: loop is not `for i in range(a, b, c)`: ' + ast.unparse(it))
    for nm, a in zip(('rangeStart', 'rangeStop', 'rangeStep'), it.args):
        out.append('-- doRollover:%d  range(...) %s = %s' % (loop.lineno, nm, ast.unparse(a)))
        out.append('def doRollover_%s %s : Int := %s' % (nm, _PARAMS, tr.expr(a)))
    assigns = {}
    for n in ast.walk(loop):
        if isinstance(n, ast.Assign) and isinstance(n.targets[0], ast.Name):
            assigns[n.targets[0].id] = n
    calls = [n for n in ast.walk(loop) if isinstance(n, ast.Call) and ast.unparse(n.func) == 'self.removeAndRename']
    if len(calls) != 1 or [ast.unparse(a) for a in calls[0].args] != ['sfn', 'dfn'] or not {'sfn', 'dfn'} <= set(assigns):
        raise Untranslatable('doRollover: loop body is not sfn=..; dfn=..; removeAndRename(sfn, dfn)')
    for nm in ('sfn', 'dfn'):
        n = assigns[nm]
        out.append('-- doRollover:%d  %s = %s' % (n.lineno, nm, ast.unparse(n.value)))
        out.append('def doRollover_%sIdx %s : Int := %s' % (nm, _PARAMS, _name_index(tr, n.value, nm)))
    # the rename of the live file after the loop
    post = [n for n in ast.walk(func) if isinstance(n, ast.Call) and ast.unparse(n.func) == 'self.removeAndRename'
            and n is not calls[0]]
    if len(post) != 1 or len(post[0].args) != 2:
        raise Untranslatable('doRollover: expected one removeAndRename call after the loop')
    top = {n.targets[0].id: n for n in ast.walk(func) if isinstance(n, ast.Assign) and isinstance(n.targets[0], ast.Name)
           and n.lineno > loop.end_lineno}
    def resolve(e):
        if isinstance(e, ast.Name) and e.id in top:
            return top[e.id].value
        return e
    out.append('-- doRollover:%d  %s' % (post[0].lineno, ast.unparse(post[0])))
    out.append('def doRollover_liveSrcIdx : Int := %s' % _name_index(tr, resolve(post[0].args[0]), 'live source'))
    out.append('def doRollover_liveDstIdx : Int := %s' % _name_index(tr, resolve(post[0].args[1]), 'live destination'))
    opens = [n for n in ast.walk(func) if isinstance(n, ast.Call) and ast.unparse(n.func) == 'open']
    if len(opens) != 1 or len(opens[0].args) != 2:
        raise Untranslatable('doRollover: expected exactly one open(name, mode)')
    out.append('-- doRollover:%d  %s' % (opens[0].lineno, ast.unparse(opens[0])))
    out.append('def doRollover_openIdx : Int := %s' % _name_index(tr, opens[0].args[0], 'open'))
    out.append('def doRollover_openTruncates : Bool := %s' % _mode_truncates(opens[0].args[1], 'doRollover open'))
    # ---- constructors: the mode the handler re-opens with ---------------------------------
    init = find_func(tree, 'FileHandler.__init__')
    d = dict(zip([a.arg for a in init.args.args][-len(init.args.defaults):], init.args.defaults))
    out.append("-- FileHandler.__init__:%d  mode=%s   (reopen() uses self.mode)" % (init.lineno, ast.unparse(d['mode'])))
    out.append('def fileHandler_modeTruncates : Bool := %s' % _mode_truncates(d['mode'], 'FileHandler mode'))
    rinit = find_func(tree, 'RotatingFileHandler.__init__')
    forced = [n for n in ast.walk(rinit) if isinstance(n, ast.Assign) and ast.unparse(n.targets[0]) == 'mode']
    if len(forced) != 1:
        raise Untranslatable('RotatingFileHandler.__init__: expected one `mode = ...`')
    out.append("-- RotatingFileHandler.__init__:%d  if maxBytes > 0: mode = %s" % (forced[0].lineno, ast.unparse(forced[0].value)))
    out.append('def rotatingHandler_modeTruncates : Bool := %s' % _mode_truncates(forced[0].value, 'RotatingFileHandler mode'))
    # FileHandler.remove / reopen: which name they act on
    rm = find_func(tree, 'FileHandler.remove')
    rcalls = [n for n in ast.walk(rm) if isinstance(n, ast.Call) and ast.unparse(n.func) == 'os.remove']
    if len(rcalls) != 1:
        raise Untranslatable('FileHandler.remove: expected one os.remove')
    out.append('-- FileHandler.remove:%d  %s' % (rcalls[0].lineno, ast.unparse(rcalls[0])))
    out.append('def fhRemove_idx : Int := %s' % _name_index(tr, rcalls[0].args[0], 'remove'))
    ro = find_func(tree, 'FileHandler.reopen')
    ocalls = [n for n in ast.walk(ro) if isinstance(n, ast.Call) and ast.unparse(n.func) == 'open']
    if len(ocalls) != 1 or ast.unparse(ocalls[0].args[1]) != 'self.mode':
        raise Untranslatable('FileHandler.reopen: expected open(self.baseFilename, self.mode)')
    out.append('-- FileHandler.reopen:%d  %s' % (ocalls[0].lineno, ast.unparse(ocalls[0])))
    out.append('def fhReopen_idx : Int := %s' % _name_index(tr, ocalls[0].args[0], 'reopen'))
    # ---- POutputDispatcher.removelogs / reopenlogs: which loggers they walk, which handler methods they call ----
    dsrc = open(os.path.join(extract.REPO, 'supervisor/dispatchers.py')).read()
    dtree = ast.parse(dsrc)
    for fn in ('removelogs', 'reopenlogs'):
        f = find_func(dtree, 'POutputDispatcher.' + fn)
        loops = [n for n in ast.walk(f) if isinstance(n, ast.For)]
        inner = [l for l in loops if isinstance(l.target, ast.Name) and l.target.id == 'handler']
        if len(inner) != 1:
            raise Untranslatable('POutputDispatcher.%s: one `for handler in ...` loop expected' % fn)
        it = ast.unparse(inner[0].iter)
        outer = [l for l in loops if l is not inner[0]]
        if it == 'log.handlers' and len(outer) == 1 and isinstance(outer[0].iter, (ast.Tuple, ast.List)) \
                and isinstance(outer[0].target, ast.Name) and outer[0].target.id == 'log':
            targets = [ast.unparse(e) for e in outer[0].iter.elts]
        elif it.endswith('.handlers') and not outer:
            targets = [it[:-len('.handlers')]]
        else:
            raise Untranslatable('POutputDispatcher.%s: loop shape %s' % (fn, it))
        calls = []
        for st in inner[0].body:
            if not (isinstance(st, ast.Expr) and isinstance(st.value, ast.Call) and isinstance(st.value.func, ast.Attribute)
                    and ast.unparse(st.value.func.value) == 'handler' and not st.value.args):
                raise Untranslatable('POutputDispatcher.%s: handler.<method>() statements expected' % fn)
            calls.append(st.value.func.attr)
        out.append('-- POutputDispatcher.%s:%d  for handler in the handlers of %s: %s' % (
            fn, f.lineno, ', '.join(targets), '; '.join('handler.%s()' % c for c in calls)))
        out.append('def %s_targets : List String := [%s]' % (fn, ', '.join(extract.lean_str(t) for t in targets)))
        out.append('def %s_calls : List String := [%s]' % (fn, ', '.join(extract.lean_str(c) for c in calls)))
    out.extend(_fanout_tables(tree, dtree))
    out.extend(_config_tables(tree, dtree))
    return out


# ---------------------------------------------------------------------------------------------
# the clear / reopen fan-out: who is reached when a log is cleared or reopened
#
# Every function on the way from an operator's request (clearLog, clearProcessLogs, SIGUSR2) to
# handler.remove()/reopen() is a loop over handlers / dispatchers / processes / groups.  The body of
# each loop (and the statements before it) is dumped as a list of *flattened guarded statements*
# which Model/LogFan.lean interprets: a statement runs for the current element when all its guards
# hold; `break` / `return` leave the loop, `continue` goes to the next element.  So an early exit, a
# dropped call, a new condition or a reordering in /repo changes the table the theorems are about.
# ---------------------------------------------------------------------------------------------
_FAN_HEADER = [
    '/-- one flattened statement of a clear/reopen fan-out: `act` runs for the current loop element when every guard',
    '    `(polarity, kind, name)` holds (`kind = "hasattr"`: hasattr(element, name); `"notnone"`: element is not None;',
    '    anything else is not modelled).  `act`: "elem.<m>" = element.<m>(), "logger.info" (arg = the literal message,',
    '    "?" when computed), "call" (arg = the callee text), "break", "continue", "return", "raise", "?" -/',
    'structure FanStmt where',
    '  guards : List (Bool × String × String)',
    '  act : String',
    '  arg : String',
    'deriving DecidableEq, Repr',
    '',
]


def _fan_guard(test, var):
    """-> [(polarity, kind, name)] for a conjunction of static tests on the loop element"""
    if isinstance(test, ast.BoolOp) and isinstance(test.op, ast.And):
        res = []
        for v in test.values:
            res.extend(_fan_guard(v, var))
        return res
    if isinstance(test, ast.UnaryOp) and isinstance(test.op, ast.Not):
        inner = _fan_guard(test.operand, var)
        if len(inner) == 1:
            return [(not inner[0][0], inner[0][1], inner[0][2])]
        return [(True, 'other', ast.unparse(test))]
    if (isinstance(test, ast.Call) and ast.unparse(test.func) == 'hasattr' and len(test.args) == 2
            and var is not None and ast.unparse(test.args[0]) == var
            and isinstance(test.args[1], ast.Constant) and isinstance(test.args[1].value, str)):
        return [(True, 'hasattr', test.args[1].value)]
    if (isinstance(test, ast.Compare) and len(test.ops) == 1 and var is not None and ast.unparse(test.left) == var
            and isinstance(test.comparators[0], ast.Constant) and test.comparators[0].value is None):
        if isinstance(test.ops[0], ast.IsNot): return [(True, 'notnone', '')]
        if isinstance(test.ops[0], ast.Is): return [(False, 'notnone', '')]
    return [(True, 'other', ast.unparse(test))]


def _fan_flatten(stmts, var, guards=()):
    """flattened guarded statements of a block; `var` = the loop variable (None outside a loop)"""
    res = []
    for st in stmts:
        g = list(guards)
        if isinstance(st, ast.Pass):
            continue
        if isinstance(st, ast.Expr) and isinstance(st.value, ast.Constant) and isinstance(st.value.value, str):
            continue                                    # docstring
        if isinstance(st, ast.If):
            tg = _fan_guard(st.test, var)
            res.extend(_fan_flatten(st.body, var, g + tg))
            if st.orelse:
                if len(tg) == 1:
                    res.extend(_fan_flatten(st.orelse, var, g + [(not tg[0][0], tg[0][1], tg[0][2])]))
                else:
                    res.extend(_fan_flatten(st.orelse, var, g + [(False, 'other', ast.unparse(st.test))]))
            continue
        if isinstance(st, ast.Break): res.append((g, 'break', '')); continue
        if isinstance(st, ast.Continue): res.append((g, 'continue', '')); continue
        if isinstance(st, ast.Return): res.append((g, 'return', '')); continue
        if isinstance(st, ast.Raise): res.append((g, 'raise', '')); continue
        if isinstance(st, ast.Expr) and isinstance(st.value, ast.Call):
            c = st.value
            f = ast.unparse(c.func)
            if var is not None and isinstance(c.func, ast.Attribute) and ast.unparse(c.func.value) == var \
                    and not c.args and not c.keywords:
                res.append((g, 'elem.' + c.func.attr, '')); continue
            if f.endswith('logger.info') and len(c.args) == 1 and not c.keywords:
                a = c.args[0]
                res.append((g, 'logger.info', a.value if isinstance(a, ast.Constant) and isinstance(a.value, str) else '?'))
                continue
            if f.rsplit('.', 1)[-1] in ('warn', 'error', 'critical') and f.endswith('logger.' + f.rsplit('.', 1)[-1]) \
                    and len(c.args) == 1 and not c.keywords:
                # a message at a level every configuration of the activity log lets through; its text carries another
                # level name than the logger's INFO format prefix, so it is never reproduced from the literal ("?")
                res.append((g, 'logger.info', '?'))
                continue
            if not c.args and not c.keywords:
                res.append((g, 'call', f)); continue
        res.append((g, '?', ast.unparse(st).split('\n')[0][:80]))
    return res


def _fan_lean(name, comment, stmts):
    def one(s):
        g, act, arg = s
        gs = ', '.join('(%s, %s, %s)' % ('true' if p else 'false', extract.lean_str(k), extract.lean_str(n)) for p, k, n in g)
        return '⟨[%s], %s, %s⟩' % (gs, extract.lean_str(act), extract.lean_str(arg))
    return ['-- ' + comment, 'def %s : List FanStmt := [%s]' % (name, ', '.join(one(s) for s in stmts))]


def _fan_resolve(e, stmts):
    """the expression with single-assignment local names of the preceding statements substituted (a refactor that
    names a sub-expression does not change what is iterated over)"""
    env = {}
    for st in stmts:
        if isinstance(st, ast.Assign) and len(st.targets) == 1 and isinstance(st.targets[0], ast.Name):
            nm = st.targets[0].id
            env[nm] = None if nm in env else st.value
    class Sub(ast.NodeTransformer):
        def visit_Name(self, n):
            v = env.get(n.id)
            return self.visit(v) if v is not None else n
    import copy
    return ast.unparse(Sub().visit(copy.deepcopy(e)))


def _fan_lists(what, stmts, itertext, varname, context=()):
    """a block `pre*; for <var> in <itertext>: body; post*` -> (pre, body, post, loop line) as flattened statements
    (the loop variable may have any name; `varname` is only what it is called in the comments)"""
    loops = [i for i, st in enumerate(stmts) if isinstance(st, ast.For)]
    if len(loops) != 1:
        raise Untranslatable('%s: exactly one top-level for loop expected, found %d' % (what, len(loops)))
    loop = stmts[loops[0]]
    it = _fan_resolve(loop.iter, list(context) + list(stmts[:loops[0]]))
    if it != itertext or not isinstance(loop.target, ast.Name):
        raise Untranslatable('%s: loop is not `for %s in %s`: for %s in %s' % (
            what, varname, itertext, ast.unparse(loop.target), ast.unparse(loop.iter)))
    var = loop.target.id
    if loop.orelse:
        raise Untranslatable('%s: for ... else' % what)
    pre = [st for st in stmts[:loops[0]] if not _is_name_assign(st)]
    return (_fan_flatten(pre, None), _fan_flatten(loop.body, var), _fan_flatten(stmts[loops[0] + 1:], None), loop.lineno)


def _is_name_assign(st):
    return isinstance(st, ast.Assign) and len(st.targets) == 1 and isinstance(st.targets[0], ast.Name)


def _fan_block(out, prefix, what, stmts, itertext, varname, context=()):
    pre, body, post, lineno = _fan_lists(what, stmts, itertext, varname, context)
    out.extend(_fan_lean(prefix + '_pre', '%s: statements before the loop' % what, pre))
    out.extend(_fan_lean(prefix + '_body', '%s:%d  for %s in %s' % (what, lineno, varname, itertext), body))
    out.extend(_fan_lean(prefix + '_post', '%s: statements after the loop' % what, post))


# ---------------------------------------------------------------------------------------------
# partial evaluation: what a function does for one signal in one mood of the daemon
# ---------------------------------------------------------------------------------------------
def _supervisor_moods():
    """[(name, value)] of states.SupervisorStates, by reading the source"""
    tree = ast.parse(open(os.path.join(extract.REPO, 'supervisor/states.py')).read())
    cls = [n for n in tree.body if isinstance(n, ast.ClassDef) and n.name == 'SupervisorStates']
    if len(cls) != 1:
        raise Untranslatable('states.py: class SupervisorStates expected')
    res = []
    for st in cls[0].body:
        if isinstance(st, ast.Assign) and len(st.targets) == 1 and isinstance(st.targets[0], ast.Name):
            try:
                res.append((st.targets[0].id, int(ast.literal_eval(st.value))))
            except (ValueError, TypeError):
                raise Untranslatable('states.py: SupervisorStates.%s is not an integer literal' % st.targets[0].id)
    if not res:
        raise Untranslatable('states.py: SupervisorStates has no members')
    return res


def _static_test(test, env, what):
    """True / False when `test` is decided by the substitution `env` (source text -> constant) alone, None when it
    mentions nothing of env; a test that mixes env with anything else cannot be specialised"""
    import copy, signal as _signal
    hit = [False]
    class Sub(ast.NodeTransformer):
        def visit_Attribute(self, n):
            t = ast.unparse(n)
            for k, v in env.items():
                if t == k or t.endswith('.' + k):
                    hit[0] = True
                    return ast.copy_location(ast.Constant(v), n)
            if t.startswith('signal.SIG') and hasattr(_signal, n.attr):
                return ast.copy_location(ast.Constant(int(getattr(_signal, n.attr))), n)
            return self.generic_visit(n)
        def visit_Name(self, n):
            if n.id in env:
                hit[0] = True
                return ast.copy_location(ast.Constant(env[n.id]), n)
            return n
    new = Sub().visit(copy.deepcopy(test))
    if not hit[0]:
        return None
    for n in ast.walk(new):
        if isinstance(n, ast.Attribute) or (isinstance(n, ast.Name) and n.id not in ('isinstance', 'int', 'bool')) \
                or (isinstance(n, ast.Call) and ast.unparse(n.func) not in ('isinstance', 'int', 'bool')):
            raise Untranslatable('%s: test `%s` mixes the daemon mood / the signal with something else' % (what, ast.unparse(test)))
    try:
        return bool(eval(compile(ast.fix_missing_locations(ast.Expression(new)), '<test>', 'eval'),
                         {'__builtins__': {}, 'isinstance': isinstance, 'int': int, 'bool': bool}))
    except Exception as ex:
        raise Untranslatable('%s: test `%s`: %s' % (what, ast.unparse(test), ex))


def _specialise(stmts, env, what):
    """the statements that remain when every `if` decided by env is replaced by the branch taken"""
    import copy
    res = []
    for st in stmts:
        if isinstance(st, ast.If):
            v = _static_test(st.test, env, what)
            if v is None:
                st2 = copy.copy(st)
                st2.body = _specialise(st.body, env, what)
                st2.orelse = _specialise(st.orelse, env, what)
                res.append(st2)
            else:
                res.extend(_specialise(st.body if v else st.orelse, env, what))
        elif isinstance(st, (ast.For, ast.While)):
            st2 = copy.copy(st)
            st2.body = _specialise(st.body, env, what)
            res.append(st2)
        else:
            res.append(st)
    return res


def _by_mood(name, typ, comment, per_mood, default):
    """def <name> (mood : String) : <typ> -- a constant function when every mood has the same value"""
    vals = [v for _, v in per_mood]
    out = ['-- ' + comment]
    if all(v == vals[0] for v in vals):
        out.append('def %s (mood : String) : %s := %s' % (name, typ, vals[0]))
    else:
        chain = ''
        for m, v in per_mood:
            chain += 'if mood = %s then %s else ' % (extract.lean_str(m), v)
        out.append('def %s (mood : String) : %s := %s%s' % (name, typ, chain, default))
    return out


def _fan_list_text(stmts):
    def one(s):
        g, act, arg = s
        gs = ', '.join('(%s, %s, %s)' % ('true' if p else 'false', extract.lean_str(k), extract.lean_str(n)) for p, k, n in g)
        return '⟨[%s], %s, %s⟩' % (gs, extract.lean_str(act), extract.lean_str(arg))
    return '[%s]' % ', '.join(one(s) for s in stmts)


def _fanout_tables(ltree, dtree):
    out = [''] + list(_FAN_HEADER)
    rd = lambda f: ast.parse(open(os.path.join(extract.REPO, f)).read())
    # ---- rpcinterface.clearLog: remove the file behind the handlers, then reopen every handler --------
    rtree = rd('supervisor/rpcinterface.py')
    f = find_func(rtree, 'SupervisorNamespaceRPCInterface.clearLog')
    loops = [i for i, st in enumerate(f.body) if isinstance(st, ast.For)]
    if len(loops) != 1:
        raise Untranslatable('clearLog: exactly one top-level for loop expected')
    pre = f.body[:loops[0]]
    removes = [n for st in pre for n in ast.walk(st) if isinstance(n, ast.Call) and ast.unparse(n.func).endswith('options.remove')]
    lf = [st for st in pre if isinstance(st, ast.Assign) and ast.unparse(st.targets[0]) == 'logfile']
    if len(removes) != 1 or [ast.unparse(a) for a in removes[0].args] != ['logfile'] or len(lf) != 1 \
            or ast.unparse(lf[0].value) != 'self.supervisord.options.logfile':
        raise Untranslatable('clearLog: expected one options.remove(logfile) with logfile = self.supervisord.options.logfile before the loop')
    out.append('-- clearLog:%d  %s  (the file at the configured path is unlinked behind the handlers; name index 0)' % (
        removes[0].lineno, ast.unparse(removes[0])))
    out.append('def clearLog_removedIdx : Int := (0 : Int)')
    _fan_block(out, 'clearLog', 'SupervisorNamespaceRPCInterface.clearLog', f.body[loops[0]:],
               'self.supervisord.options.logger.handlers', 'handler', context=[st for st in pre if st not in lf])
    # ---- ServerOptions.reopenlogs (SIGUSR2, the activity log) -----------------------------------------
    otree = rd('supervisor/options.py')
    f = find_func(otree, 'ServerOptions.reopenlogs')
    _fan_block(out, 'optReopenlogs', 'ServerOptions.reopenlogs', f.body, 'self.logger.handlers', 'handler')
    # ---- ServerOptions.make_logger: which handlers the activity logger gets, in which order ------------
    f = find_func(otree, 'ServerOptions.make_logger')
    mk = []
    def walk(stmts, guarded):
        for st in stmts:
            if isinstance(st, ast.If):
                walk(st.body, guarded + [ast.unparse(st.test)]); walk(st.orelse, guarded + ['not (%s)' % ast.unparse(st.test)])
            elif isinstance(st, ast.Expr) and isinstance(st.value, ast.Call) and ast.unparse(st.value.func).startswith('loggers.handle_'):
                mk.append((ast.unparse(st.value.func)[len('loggers.'):], guarded))
    walk(f.body, [])
    for nm, g in mk:
        if g not in ([], ['self.nodaemon and (not self.silent)']):
            raise Untranslatable('make_logger: %s under condition %r' % (nm, g))
    out.append('-- ServerOptions.make_logger:%d  handlers attached to the activity logger, in order; true = only `if self.nodaemon and not self.silent`' % f.lineno)
    out.append('def makeLogger_handlers : List (String × Bool) := [%s]' % ', '.join(
        '(%s, %s)' % (extract.lean_str(nm), 'true' if g else 'false') for nm, g in mk))
    # ---- Subprocess / ProcessGroupBase: dispatchers of a process, processes of a group ------------------
    ptree = rd('supervisor/process.py')
    for fn in ('removelogs', 'reopenlogs'):
        f = find_func(ptree, 'Subprocess.' + fn)
        _fan_block(out, 'sp' + fn.capitalize(), 'Subprocess.' + fn, f.body, 'self.dispatchers.values()', 'dispatcher')
        f = find_func(ptree, 'ProcessGroupBase.' + fn)
        _fan_block(out, 'pg' + fn.capitalize(), 'ProcessGroupBase.' + fn, f.body, 'self.processes.values()', 'process')
    # ---- Supervisor.handle_signal on SIGUSR2, in every mood of the daemon --------------------------------
    # the function is specialised to sig = SIGUSR2 and to each mood (every `if` on the signal / the mood is replaced by
    # the branch taken), so a mood guard anywhere on the way to the reopen calls shows in that mood's statements
    import signal as _signal
    moods = _supervisor_moods()
    out.append('-- states.SupervisorStates: the moods of the daemon')
    out.append('def supervisorMoods : List String := [%s]' % ', '.join(extract.lean_str(m) for m, _ in moods))
    stree = rd('supervisor/supervisord.py')
    f = find_func(stree, 'Supervisor.handle_signal')
    per = []
    for m, v in moods:
        what = 'Supervisor.handle_signal[SIGUSR2, mood %s]' % m
        try:
            stmts = _specialise(f.body, {'sig': int(_signal.SIGUSR2), 'options.mood': v,
                                         **{'SupervisorStates.' + k: kv for k, kv in moods}}, what)
            stmts = [st for st in stmts if not (isinstance(st, ast.Expr) and isinstance(st.value, ast.Constant))]
            if any(isinstance(st, ast.For) for st in stmts):
                pre, body, post, _ = _fan_lists(what, stmts, 'self.process_groups.values()', 'group')
                loops = True
            else:
                pre, body, post, loops = _fan_flatten([st for st in stmts if not _is_name_assign(st)], None), [], [], False
        except Untranslatable as ex:
            # keep the model buildable: this mood's statements are unknown ("?": the model answers `unmodelled`,
            # the theorems about every mood fail)
            out.append('-- NOT UNDERSTOOD %s' % str(ex).replace('\n', ' '))
            pre, body, post, loops = [([], '?', str(ex)[:80])], [], [], False
        per.append((m, pre, body, post, loops))
    out.extend(_by_mood('sigusr2_pre', 'List FanStmt', 'Supervisor.handle_signal[SIGUSR2]: statements before the loop over the groups',
                        [(m, _fan_list_text(p)) for m, p, _, _, _ in per], '[⟨[], "?", "unknown mood"⟩]'))
    out.extend(_by_mood('sigusr2_body', 'List FanStmt', 'Supervisor.handle_signal[SIGUSR2]: for group in self.process_groups.values()',
                        [(m, _fan_list_text(b)) for m, _, b, _, _ in per], '[]'))
    out.extend(_by_mood('sigusr2_post', 'List FanStmt', 'Supervisor.handle_signal[SIGUSR2]: statements after the loop',
                        [(m, _fan_list_text(p)) for m, _, _, p, _ in per], '[]'))
    out.extend(_by_mood('sigusr2_loops', 'Bool', 'Supervisor.handle_signal[SIGUSR2]: is there a loop over the groups at all',
                        [(m, 'true' if l else 'false') for m, _, _, _, l in per], 'false'))
    # ---- rpcinterface._update: the moods in which every RPC method that begins with it is refused (SHUTDOWN_STATE) ----
    f = find_func(rtree, 'SupervisorNamespaceRPCInterface._update')
    refused = []
    for m, v in moods:
        stmts = _specialise(f.body, {'options.mood': v, **{'SupervisorStates.' + k: kv for k, kv in moods}},
                            'SupervisorNamespaceRPCInterface._update[mood %s]' % m)
        if any(isinstance(st, ast.Raise) for st in stmts):
            refused.append(m)
        elif any(isinstance(n, ast.Raise) for st in stmts for n in ast.walk(st)):
            raise Untranslatable('_update: a raise under a condition that is not decided by the mood')
    out.append('-- SupervisorNamespaceRPCInterface._update:%d  moods in which it raises' % f.lineno)
    out.append('def rpcRefusedMoods : List String := [%s]' % ', '.join(extract.lean_str(m) for m in refused))
    gated = []
    for fn in ('clearLog', 'clearProcessLogs', 'clearAllProcessLogs'):
        g = find_func(rtree, 'SupervisorNamespaceRPCInterface.' + fn)
        body = [st for st in g.body if not (isinstance(st, ast.Expr) and isinstance(st.value, ast.Constant))]
        if body and isinstance(body[0], ast.Expr) and isinstance(body[0].value, ast.Call) \
                and ast.unparse(body[0].value.func) == 'self._update':
            gated.append(fn)
    out.append('-- RPC methods whose first statement is self._update(...)')
    out.append('def rpcGated : List String := [%s]' % ', '.join(extract.lean_str(g) for g in gated))
    # ---- clearProcessLogs: the process it was asked about ------------------------------------------------
    f = find_func(rtree, 'SupervisorNamespaceRPCInterface.clearProcessLogs')
    calls = [ast.unparse(n.func) for n in ast.walk(f) if isinstance(n, ast.Call) and ast.unparse(n.func).startswith('process.')]
    out.append('-- SupervisorNamespaceRPCInterface.clearProcessLogs:%d  calls on the named process' % f.lineno)
    out.append('def clearProcessLogs_calls : List String := [%s]' % ', '.join(extract.lean_str(c[len('process.'):]) for c in calls))
    # ---- PEventListenerDispatcher.removelogs / reopenlogs (an event listener's stdout log) ---------------
    for fn in ('removelogs', 'reopenlogs'):
        f = find_func(dtree, 'PEventListenerDispatcher.' + fn)
        body = f.body
        if len(body) == 1 and isinstance(body[0], ast.If) and ast.unparse(body[0].test) == 'self.childlog is not None' and not body[0].orelse:
            body = body[0].body
        else:
            raise Untranslatable('PEventListenerDispatcher.%s: `if self.childlog is not None:` expected' % fn)
        _fan_block(out, 'el' + fn.capitalize(), 'PEventListenerDispatcher.' + fn, body, 'self.childlog.handlers', 'handler')
    return out


# ---------------------------------------------------------------------------------------------
# from the configured value to the handler's parameters
#
# "maxbytes" and "backups" of the property are what the operator wrote: `[supervisord] logfile_maxbytes / logfile_backups`
# (or -y / -z on the command line) and `[program:x] stdout_/stderr_logfile_maxbytes / _backups`.  On the way to
# RotatingFileHandler(maxBytes, backupCount) they pass: Options.realize (command line, priority), read_config (the file,
# with its own defaults), Options.process_config ("Process defaults": which attribute values count as unset), make_logger /
# the dispatchers (keyword arguments of handle_file, `rotating = not not maxbytes`), handle_file (constructor arguments).
# Every one of these steps is dumped here; Model/LogFan.lean composes them (`actCfg`, `chanCfg`).
# ---------------------------------------------------------------------------------------------
def _const_int(e, what):
    """an integer constant expression (50 * 1024 * 1024, long(1024), 10)"""
    if isinstance(e, ast.Constant) and isinstance(e.value, int) and not isinstance(e.value, bool):
        return e.value
    if isinstance(e, ast.BinOp) and isinstance(e.op, (ast.Mult, ast.Add, ast.Sub)):
        a, b = _const_int(e.left, what), _const_int(e.right, what)
        return a * b if isinstance(e.op, ast.Mult) else a + b if isinstance(e.op, ast.Add) else a - b
    if isinstance(e, ast.Call) and ast.unparse(e.func) in ('long', 'int') and len(e.args) == 1:
        return _const_int(e.args[0], what)
    raise Untranslatable('%s: integer constant expected: %s' % (what, ast.unparse(e)))


def _byte_size_table():
    tree = ast.parse(open(os.path.join(extract.REPO, 'supervisor/datatypes.py')).read())
    for st in tree.body:
        if isinstance(st, ast.Assign) and ast.unparse(st.targets[0]) == 'byte_size':
            c = st.value
            if isinstance(c, ast.Call) and ast.unparse(c.func) == 'SuffixMultiplier' and c.args and isinstance(c.args[0], ast.Dict):
                return {k.value: _const_int(v, 'byte_size') for k, v in zip(c.args[0].keys, c.args[0].values)}
    raise Untranslatable('datatypes.byte_size: SuffixMultiplier({...}) expected')


def _byte_size_of(text, table, what):
    if isinstance(text, int) and not isinstance(text, bool):
        return text
    if not isinstance(text, str):
        raise Untranslatable('%s: default %r' % (what, text))
    v = text.lower()
    for suf, m in table.items():
        if v.endswith(suf):
            return int(v[:-len(suf)]) * m
    return int(v)


def _unset_test(test, subject, what):
    """a test on one attribute value (None | an integer) -> Lean Bool expression over `v : Option Int`"""
    t = ast.unparse(test)
    if isinstance(test, ast.BoolOp):
        op = ' && ' if isinstance(test.op, ast.And) else ' || '
        return '(' + op.join(_unset_test(x, subject, what) for x in test.values) + ')'
    if isinstance(test, ast.UnaryOp) and isinstance(test.op, ast.Not):
        return '(!' + _unset_test(test.operand, subject, what) + ')'
    if ast.unparse(test) == subject:
        return '(v.isSome && v != some 0)'                     # Python truthiness of None / an integer
    if isinstance(test, ast.Compare) and len(test.ops) == 1 and ast.unparse(test.left) == subject:
        c = test.comparators[0]
        if isinstance(c, ast.Constant) and c.value is None:
            if isinstance(test.ops[0], (ast.Is, ast.Eq)): return 'v.isNone'
            if isinstance(test.ops[0], (ast.IsNot, ast.NotEq)): return 'v.isSome'
        if isinstance(c, ast.Constant) and isinstance(c.value, int) and not isinstance(c.value, bool):
            if isinstance(test.ops[0], ast.Eq): return '(v == some (%d : Int))' % c.value
            if isinstance(test.ops[0], ast.NotEq): return '(v != some (%d : Int))' % c.value
    raise Untranslatable('%s: test `%s` on %s' % (what, t, subject))


def _int_expr(e, env, what):
    """an expression over the configured maxbytes / backups (env: source text -> Lean variable) -> (Lean text, 'int'|'bool')"""
    t = ast.unparse(e)
    if t in env:
        return env[t], 'int'
    if isinstance(e, ast.Constant) and isinstance(e.value, bool):
        return ('true' if e.value else 'false'), 'bool'
    if isinstance(e, ast.Constant) and isinstance(e.value, int):
        return '(%d : Int)' % e.value, 'int'
    def truthy(x):
        tx, ty = _int_expr(x, env, what)
        return tx if ty == 'bool' else '(%s != 0)' % tx
    if isinstance(e, ast.UnaryOp) and isinstance(e.op, ast.Not):
        return '(!%s)' % truthy(e.operand), 'bool'
    if isinstance(e, ast.Call) and ast.unparse(e.func) == 'bool' and len(e.args) == 1:
        return truthy(e.args[0]), 'bool'
    if isinstance(e, ast.Compare) and len(e.ops) == 1:
        a, ta = _int_expr(e.left, env, what)
        b, tb = _int_expr(e.comparators[0], env, what)
        if ta == tb == 'int':
            op = e.ops[0]
            if isinstance(op, ast.Eq): return '(%s == %s)' % (a, b), 'bool'
            if isinstance(op, ast.NotEq): return '(%s != %s)' % (a, b), 'bool'
            if isinstance(op, ast.Lt): return '(Sv.ilt %s %s)' % (a, b), 'bool'
            if isinstance(op, ast.LtE): return '(Sv.ile %s %s)' % (a, b), 'bool'
            if isinstance(op, ast.Gt): return '(Sv.ilt %s %s)' % (b, a), 'bool'
            if isinstance(op, ast.GtE): return '(Sv.ile %s %s)' % (b, a), 'bool'
    raise Untranslatable('%s: expression %s' % (what, t))


def _handle_file_args(func, what, local_env):
    """the rotating / maxbytes / backups arguments of the loggers.handle_file(...) call in `func`"""
    calls = [n for n in ast.walk(func) if isinstance(n, ast.Call) and ast.unparse(n.func) == 'loggers.handle_file']
    if len(calls) != 1:
        raise Untranslatable('%s: exactly one loggers.handle_file(...) expected, found %d' % (what, len(calls)))
    c = calls[0]
    names = ['logger', 'filename', 'fmt', 'rotating', 'maxbytes', 'backups']
    given = dict(zip(names, c.args))
    for kw in c.keywords:
        if kw.arg is None:
            raise Untranslatable('%s: **kwargs in handle_file call' % what)
        given[kw.arg] = kw.value
    # single-assignment locals (maxbytes = getattr(config, '%s_logfile_maxbytes' % channel)) are substituted
    env = {}
    for st in ast.walk(func):
        if _is_name_assign(st):
            nm = st.targets[0].id
            env[nm] = None if nm in env else st.value
    def classify(e):
        t = ast.unparse(e)
        if isinstance(e, ast.Name) and env.get(e.id) is not None:
            return classify(env[e.id])
        for key, var in local_env:
            if key in t and not isinstance(e, (ast.UnaryOp, ast.Compare, ast.BoolOp)) and (
                    isinstance(e, ast.Attribute) or (isinstance(e, ast.Call) and ast.unparse(e.func) == 'getattr')):
                return var
        return None
    class Sub(ast.NodeTransformer):
        def generic_visit(self, n):
            v = classify(n) if isinstance(n, (ast.Name, ast.Attribute, ast.Call)) else None
            if v is not None:
                return ast.copy_location(ast.Name(v, ast.Load()), n)
            return ast.NodeTransformer.generic_visit(self, n)
    import copy
    res = {}
    # what the callee uses when an argument is not given: handle_file's own defaults
    defaults = {'rotating': ast.Constant(False), 'maxbytes': ast.Constant(0), 'backups': ast.Constant(0)}
    for k in ('rotating', 'maxbytes', 'backups'):
        e = Sub().visit(copy.deepcopy(given.get(k, defaults[k])))
        res[k] = _int_expr(e, {'mb': 'mb', 'bk': 'bk'}, '%s: handle_file(%s=...)' % (what, k))
    return res, c.lineno


def _config_tables(ltree, dtree):
    out = ['', '/-! from the configured value to the handler parameters -/']
    otree = ast.parse(open(os.path.join(extract.REPO, 'supervisor/options.py')).read())
    table = _byte_size_table()
    # ---- Options.process_config, "Process defaults": which attribute values are replaced by the default ----
    f = find_func(otree, 'Options.process_config')
    loops = [n for n in ast.walk(f) if isinstance(n, ast.For) and ast.unparse(n.iter) == 'self.default_map.items()']
    if len(loops) != 1 or not (isinstance(loops[0].target, ast.Tuple) and len(loops[0].target.elts) == 2):
        raise Untranslatable('Options.process_config: one `for name, value in self.default_map.items()` expected')
    nm, val = (ast.unparse(e) for e in loops[0].target.elts)
    body = loops[0].body
    if not (len(body) == 1 and isinstance(body[0], ast.If) and not body[0].orelse and len(body[0].body) == 1
            and ast.unparse(body[0].body[0]) == 'setattr(self, %s, %s)' % (nm, val)):
        raise Untranslatable('Options.process_config: defaults loop is not `if <test>: setattr(self, name, value)`')
    out.append('-- Options.process_config:%d  if %s: setattr(self, name, value)   (v = the attribute: none = None)' % (
        body[0].lineno, ast.unparse(body[0].test)))
    out.append('def optDefaultApplies (v : Option Int) : Bool := %s' % _unset_test(body[0].test, 'getattr(self, %s)' % nm, 'defaults loop'))
    # ---- Options._set and the priorities of command line / config file ------------------------------------
    f = find_func(otree, 'Options._set')
    ifs = [n for n in f.body if isinstance(n, ast.If)]
    cur = [n for n in f.body if _is_name_assign(n) and n.targets[0].id == 'current']
    if len(ifs) != 1 or len(cur) != 1 or ifs[0].orelse or not (
            isinstance(cur[0].value, ast.Call) and ast.unparse(cur[0].value.func) == 'self.attr_priorities.get' and len(cur[0].value.args) == 2):
        raise Untranslatable('Options._set: `current = self.attr_priorities.get(attr, d); if <test>: ...` expected')
    t, ty = _int_expr(ifs[0].test, {'prio': 'prio', 'current': 'current'}, 'Options._set')
    out.append('-- Options._set:%d  if %s: setattr(self, attr, value); self.attr_priorities[attr] = prio' % (ifs[0].lineno, ast.unparse(ifs[0].test)))
    out.append('def optSetOverrides (prio current : Int) : Bool := %s' % t)
    out.append('def optPrioUnset : Int := (%d : Int)' % _const_int(cur[0].value.args[1] if not isinstance(cur[0].value.args[1], ast.UnaryOp)
                                                                  else ast.Constant(-_const_int(cur[0].value.args[1].operand, '_set')), '_set'))
    def prio_of(func, what):
        cs = [n for n in ast.walk(func) if isinstance(n, ast.Call) and ast.unparse(n.func) == 'self._set' and len(n.args) == 3]
        return cs
    rz = find_func(otree, 'Options.realize')
    pc = find_func(otree, 'Options.process_config')
    cli = [c for c in prio_of(rz, 'realize') if ast.unparse(c.args[1]) == 'arg']
    fil = prio_of(pc, 'process_config')
    if len(cli) != 1 or len(fil) != 1:
        raise Untranslatable('Options.realize / process_config: one self._set(name, arg, p) / self._set(name, obj, p) each expected')
    out.append('-- Options.realize:%d  %s ; Options.process_config:%d  %s' % (cli[0].lineno, ast.unparse(cli[0]), fil[0].lineno, ast.unparse(fil[0])))
    out.append('def optPrioCli : Int := (%d : Int)' % _const_int(cli[0].args[2], 'realize'))
    out.append('def optPrioFile : Int := (%d : Int)' % _const_int(fil[0].args[2], 'process_config'))
    # ---- ServerOptions.__init__: self.add("logfile_maxbytes", ..., default=...) -------------------------------
    f = find_func(otree, 'ServerOptions.__init__')
    adds = {}
    for n in ast.walk(f):
        if isinstance(n, ast.Call) and ast.unparse(n.func) == 'self.add' and n.args and isinstance(n.args[0], ast.Constant):
            adds[n.args[0].value] = n
    for attr, lean in (('logfile_maxbytes', 'optMaxbytesDefault'), ('logfile_backups', 'optBackupsDefault')):
        if attr not in adds:
            raise Untranslatable('ServerOptions.__init__: no self.add(%r, ...)' % attr)
        d = [kw.value for kw in adds[attr].keywords if kw.arg == 'default']
        if len(d) != 1:
            raise Untranslatable('ServerOptions.__init__: self.add(%r, ...) without default=' % attr)
        out.append('-- ServerOptions.__init__:%d  self.add(%r, ..., default=%s)' % (adds[attr].lineno, attr, ast.unparse(d[0])))
        out.append('def %s : Int := (%d : Int)' % (lean, _const_int(d[0], attr)))
    # ---- ServerOptions.read_config: the [supervisord] section's own defaults ---------------------------------
    f = find_func(otree, 'ServerOptions.read_config')
    for attr, conv, lean in (('logfile_maxbytes', 'byte_size', 'fileMaxbytesDefault'), ('logfile_backups', 'integer', 'fileBackupsDefault')):
        a = [n for n in ast.walk(f) if isinstance(n, ast.Assign) and ast.unparse(n.targets[0]) == 'section.' + attr]
        ok = len(a) == 1 and isinstance(a[0].value, ast.Call) and ast.unparse(a[0].value.func) == conv and len(a[0].value.args) == 1
        g = a[0].value.args[0] if ok else None
        if not (ok and isinstance(g, ast.Call) and ast.unparse(g.func) == 'get' and len(g.args) == 2
                and isinstance(g.args[0], ast.Constant) and g.args[0].value == attr and isinstance(g.args[1], ast.Constant)):
            raise Untranslatable('read_config: section.%s = %s(get(%r, <default>)) expected' % (attr, conv, attr))
        out.append('-- ServerOptions.read_config:%d  %s' % (a[0].lineno, ast.unparse(a[0])))
        out.append('def %s : Int := (%d : Int)' % (lean, _byte_size_of(g.args[1].value, table if conv == 'byte_size' else {}, attr)))
    # ---- ServerOptions.processes_from_section: the per-channel defaults ---------------------------------------
    cls = [n for n in otree.body if isinstance(n, ast.ClassDef) and n.name == 'ServerOptions'][0]
    cands = [n for n in cls.body if isinstance(n, ast.FunctionDef) and 'processes_from_section' in n.name]
    f = ast.Module(body=cands, type_ignores=[])
    for var, conv, lean in (('maxbytes', 'byte_size', 'progMaxbytesDefault'), ('backups', 'integer', 'progBackupsDefault')):
        a = [n for n in ast.walk(f) if _is_name_assign(n) and n.targets[0].id == var]
        ok = len(a) == 1 and isinstance(a[0].value, ast.Call) and ast.unparse(a[0].value.func) == conv and len(a[0].value.args) == 1
        g = a[0].value.args[0] if ok else None
        if not (ok and isinstance(g, ast.Call) and ast.unparse(g.func) == 'get' and len(g.args) >= 3 and isinstance(g.args[2], ast.Constant)):
            raise Untranslatable('processes_from_section: %s = %s(get(section, key, <default>, ...)) expected' % (var, conv))
        out.append('-- ServerOptions.processes_from_section:%d  %s' % (a[0].lineno, ast.unparse(a[0])))
        out.append('def %s : Int := (%d : Int)' % (lean, _byte_size_of(g.args[2].value, table if conv == 'byte_size' else {}, var)))
    # ---- the handle_file(...) calls: make_logger, POutputDispatcher._init_normallog, PEventListenerDispatcher.__init__ ----
    for tree_, qual, lean in ((otree, 'ServerOptions.make_logger', 'makeLogger'), (dtree, 'POutputDispatcher._init_normallog', 'normallog'),
                              (dtree, 'PEventListenerDispatcher.__init__', 'listenerlog')):
        f = find_func(tree_, qual)
        res, line = _handle_file_args(f, qual, (('maxbytes', 'mb'), ('backups', 'bk')))
        for k, typ in (('rotating', 'bool'), ('maxbytes', 'int'), ('backups', 'int')):
            tx, ty = res[k]
            if ty != typ:
                if typ == 'bool':
                    raise Untranslatable('%s: rotating=%s is not a boolean (handle_file tests `rotating is False`)' % (qual, tx))
                raise Untranslatable('%s: %s=%s is not an integer' % (qual, k, tx))
        out.append('-- %s:%d  loggers.handle_file(..., rotating, maxbytes, backups) in terms of the configured mb / bk' % (qual, line))
        out.append('def %s_rotating (mb bk : Int) : Bool := %s' % (lean, res['rotating'][0]))
        out.append('def %s_maxbytes (mb bk : Int) : Int := %s' % (lean, res['maxbytes'][0]))
        out.append('def %s_backups (mb bk : Int) : Int := %s' % (lean, res['backups'][0]))
    # ---- loggers.handle_file -> RotatingFileHandler(filename, mode, maxBytes, backupCount) ---------------------
    f = find_func(ltree, 'handle_file')
    ctor = [n for n in ast.walk(f) if isinstance(n, ast.Call) and ast.unparse(n.func) == 'RotatingFileHandler']
    init = find_func(ltree, 'RotatingFileHandler.__init__')
    params = [a.arg for a in init.args.args][1:]
    if len(ctor) != 1:
        raise Untranslatable('handle_file: one RotatingFileHandler(...) expected')
    given = dict(zip(params, (ast.unparse(a) for a in ctor[0].args)))
    given.update({kw.arg: ast.unparse(kw.value) for kw in ctor[0].keywords})
    stored = {}
    for st in init.body:
        if isinstance(st, ast.Assign) and ast.unparse(st.targets[0]) in ('self.maxBytes', 'self.backupCount'):
            stored[ast.unparse(st.targets[0])[5:]] = ast.unparse(st.value)
    for attr in ('maxBytes', 'backupCount'):
        src = given.get(stored.get(attr), '?')
        out.append('-- handle_file:%d / RotatingFileHandler.__init__: self.%s = %s <- %s' % (ctor[0].lineno, attr, stored.get(attr), src))
        out.append('def handleFile_%sFrom : String := %s' % (attr, extract.lean_str(src)))
    return out
