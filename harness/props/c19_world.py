"""
C19, the clear / reopen fan-out through the real code.

A *world* is what supervisord has at run time as far as logs are concerned:
  * the activity logger built by the real ServerOptions.make_logger() in one of its configurations
    (daemon / nodaemon / silent, plain / rotating with and without backups, log level INFO / DEBG;
    optionally one more handler without reopen()/remove() in front of or behind the others),
  * process groups (real ProcessGroup) of real Subprocess objects whose dispatchers come from the real
    ProcessConfig / EventListenerConfig .make_dispatchers() over real pipes: stdout and stderr logs,
    plain or rotating, or none, stderr possibly redirected, and the stdin dispatcher,
  * the real Supervisor (handle_signal) and the real SupervisorNamespaceRPCInterface.
Operations are the ones an operator has: activity-log messages, child output, clearLog,
clearProcessLogs(name), clearAllProcessLogs, SIGUSR2 (through the real signal receiver and
Supervisor.handle_signal), ServerOptions.reopenlogs(), and files removed / replaced from outside.
Observable: every log's directory (names and contents) after every step; what is handed to a logger is
observed at the logger seam (Logger.log / Logger.info), the clock of LogRecord is frozen.
"""
import io, os, re, signal, sys, time

FMT = '%(asctime)s %(levelname)s %(message)s\n'       # ServerOptions.make_logger's format


class _FrozenTime:
    """stands in for the `time` module inside supervisor.loggers: LogRecord stamps every record with t = 0"""
    def time(self): return 0.0
    def localtime(self, t=None): return time.gmtime(0)
    def strftime(self, f, t): return time.strftime(f, t)


def hexs(b):
    return b.hex() if b else '-'


def listing(d):
    res, other = {}, []
    for fn in os.listdir(d):
        m = re.fullmatch(r'log(?:\.(\d+))?', fn)
        if not m or (m.group(1) and str(int(m.group(1))) != m.group(1)):
            other.append(fn); continue
        with open(os.path.join(d, fn), 'rb') as f:
            res[int(m.group(1) or 0)] = f.read()
    return res, other


def chan_cfg(c):
    """[maxbytes, backups] -> the per-log configuration the monitors and the model use"""
    return {'rotating': bool(c[0]), 'maxbytes': c[0], 'backups': c[1]}


class World:
    def __init__(self, root, w):
        from supervisor import loggers, events
        from supervisor.options import ServerOptions, ProcessConfig, EventListenerConfig, ProcessGroupConfig
        from supervisor.process import ProcessGroup
        from supervisor.supervisord import Supervisor
        from supervisor.rpcinterface import SupervisorNamespaceRPCInterface
        self.loggers = loggers
        self.w = w
        self.root = root
        os.makedirs(root)
        self._saved_time = loggers.time
        loggers.time = _FrozenTime()
        self.dirs = {}              # logid -> directory
        self.cfgs = {}              # logid -> {'rotating','maxbytes','backups'}
        self.pipes = []
        self.events = []            # seam observations of the running operation
        try:
            self._build(ServerOptions, ProcessConfig, EventListenerConfig, ProcessGroupConfig, ProcessGroup, Supervisor,
                        SupervisorNamespaceRPCInterface)
        except BaseException:
            self.close()
            raise

    # ---- construction ---------------------------------------------------------------------------
    def _logdir(self, logid):
        d = os.path.join(self.root, logid.replace('.', '_'))
        os.makedirs(d)
        self.dirs[logid] = d
        return os.path.join(d, 'log')

    def _build(self, ServerOptions, ProcessConfig, EventListenerConfig, ProcessGroupConfig, ProcessGroup, Supervisor, RPC):
        loggers, w = self.loggers, self.w
        opts = self.opts = ServerOptions()
        opts.logfile = self._logdir('act')
        self.cfgs['act'] = chan_cfg([w['maxbytes'], w['backups']])
        opts.loglevel = getattr(loggers.LevelsByName, w['level'])
        opts.nodaemon, opts.silent = w['nodaemon'], w['silent']
        opts.logfile_maxbytes, opts.logfile_backups = w['maxbytes'], w['backups']
        opts.strip_ansi = False
        self.stdout = io.StringIO()
        saved = sys.stdout
        sys.stdout = self.stdout
        try:
            opts.make_logger()                      # the real thing
        finally:
            sys.stdout = saved
        self.bare = None
        if w.get('extra', 'none') != 'none':
            # one more handler, of the base class: it can emit but has neither reopen() nor remove()
            self.bare = io.BytesIO()
            h = loggers.Handler(self.bare)
            h.setFormat(FMT); h.setLevel(opts.logger.level)
            if w['extra'] == 'front': opts.logger.handlers.insert(0, h)
            else: opts.logger.handlers.append(h)
        # the logger seam: everything handed to the activity logger, with the directories as they are right after
        orig_log = opts.logger.log
        def log(level, msg, **kw):
            r = orig_log(level, msg, **kw)
            line = b''
            if level >= opts.logger.level:
                line = (FMT % loggers.LogRecord(level, msg, **kw).asdict()).encode('utf-8')
            self.events.append(('act', line, self.snapshot()))
            return r
        opts.logger.log = log
        self.fmtpre = (FMT % loggers.LogRecord(loggers.LevelsByName.INFO, '').asdict()).encode('utf-8')[:-1]

        self.sup = Supervisor(opts)
        self.procs = {}
        groups = {}
        for gi, g in enumerate(w['groups']):
            pconfigs = []
            for pi, p in enumerate(g):
                params = dict(name='p%d' % pi, uid=None, command='/bin/true', directory=None, umask=None, priority=999 - pi,
                              autostart=False, autorestart=False, startsecs=1, startretries=3,
                              stdout_capture_maxbytes=0, stdout_events_enabled=False, stdout_syslog=False,
                              stderr_capture_maxbytes=0, stderr_events_enabled=False, stderr_syslog=False,
                              stopsignal=signal.SIGTERM, stopwaitsecs=1, stopasgroup=False, killasgroup=False,
                              exitcodes=(0,), redirect_stderr=(p['err'] == 'x'))
                for ch, key in (('o', 'out'), ('e', 'err')):
                    name = {'o': 'stdout', 'e': 'stderr'}[ch]
                    c = p[key]
                    if c is None or c == 'x':
                        params.update({name + '_logfile': None, name + '_logfile_maxbytes': 0, name + '_logfile_backups': 0})
                    else:
                        logid = '%d.%d.%s' % (gi, pi, ch)
                        params.update({name + '_logfile': self._logdir(logid), name + '_logfile_maxbytes': c[0],
                                       name + '_logfile_backups': c[1]})
                        self.cfgs[logid] = chan_cfg(c)
                pconfigs.append((EventListenerConfig if p['kind'] == 'l' else ProcessConfig)(opts, **params))
            gconfig = ProcessGroupConfig(opts, 'g%d' % gi, 999 - gi, pconfigs)
            group = ProcessGroup(gconfig)                               # makes the real Subprocess objects
            groups['g%d' % gi] = group
            for pi, pc in enumerate(pconfigs):
                proc = group.processes[pc.name]
                proc.dispatchers, proc.pipes = pc.make_dispatchers(proc)   # real dispatchers over real pipes
                self.pipes.append(proc.pipes)
                self.procs[(gi, pi)] = proc
                for ch in ('o', 'e'):
                    logid = '%d.%d.%s' % (gi, pi, ch)
                    if logid in self.dirs:
                        self._watch(logid, proc.dispatchers[proc.pipes['stdout' if ch == 'o' else 'stderr']])
        self.sup.process_groups = groups
        self.rpc = RPC(self.sup)

    def _watch(self, logid, disp):
        lg = getattr(disp, 'normallog', None) or disp.childlog
        orig = lg.info
        def info(data, **kw):
            r = orig(data, **kw)
            self.events.append((logid, bytes(data), self.snapshot()))
            return r
        lg.info = info

    # ---- observation ----------------------------------------------------------------------------
    def snapshot(self):
        snap = {lid: listing(d) for lid, d in self.dirs.items()}
        snap['#out'] = len(self.stdout.getvalue().encode('utf-8'))
        snap['#bare'] = len(self.bare.getvalue()) if self.bare is not None else 0
        return snap

    def exists(self, logid):
        return os.path.exists(os.path.join(self.dirs[logid], 'log'))

    # ---- operations -----------------------------------------------------------------------------
    def run_op(self, o):
        """-> (events [(logid, bytes handed to that logger, snapshot right after)], final snapshot, error text,
               refused?)  -- refused: the operation answered with a documented fault and did nothing"""
        from supervisor.xmlrpc import RPCError, Faults
        from supervisor.http import NOT_DONE_YET
        del self.events[:]
        err, refused = 'ok', False
        saved = sys.stderr
        sys.stderr = cap = io.StringIO()
        try:
            try:
                k = o[0]
                if k == 'log':
                    self.opts.logger.info(o[1])
                elif k == 'chunk':
                    proc = self.procs[(o[1], o[2])]
                    name = 'stdout' if o[3] == 'o' else 'stderr'
                    os.write(proc.pipes['child_' + name], o[4])
                    proc.dispatchers[proc.pipes[name]].handle_read_event()
                elif k == 'clearlog':
                    present = self.exists('act')
                    try:
                        if self.rpc.clearLog() is not True:
                            err = 'err clearLog did not return True'
                    except RPCError as e:
                        if e.code == Faults.NO_FILE and not present:
                            refused = True
                        else:
                            err = 'err fault %s' % e.code
                elif k == 'optreopen':
                    self.opts.reopenlogs()
                elif k == 'sigusr2':
                    self.opts.signal_receiver.receive(signal.SIGUSR2, None)     # what the real signal handler does
                    self.sup.handle_signal()
                elif k == 'clearproc':
                    name = 'g%d:p%d' % (o[1], o[2])
                    try:
                        if self.rpc.clearProcessLogs(name) is not True:
                            err = 'err clearProcessLogs did not return True'
                    except RPCError as e:
                        err = 'err fault %s' % e.code
                elif k == 'clearall':
                    try:
                        cb = self.rpc.clearAllProcessLogs()
                        res = NOT_DONE_YET
                        for _ in range(len(self.procs) + 2):
                            res = cb()
                            if res is not NOT_DONE_YET:
                                break
                        if res is NOT_DONE_YET:
                            err = 'err clearAllProcessLogs never finished'
                        else:
                            bad = [r for r in res if r['status'] != Faults.SUCCESS]
                            if bad or len(res) != len(self.procs):
                                err = 'err clearAllProcessLogs answered %d results, %d not SUCCESS' % (len(res), len(bad))
                    except RPCError as e:
                        err = 'err fault %s' % e.code
                elif k == 'extremove':
                    try:
                        os.remove(self._name(o[1], o[2]))
                    except FileNotFoundError:
                        pass
                elif k == 'extreplace':
                    tmp = os.path.join(self.root, '.tmp')
                    with open(tmp, 'wb') as f:
                        f.write(o[3])
                    os.rename(tmp, self._name(o[1], o[2]))
                else:
                    raise ValueError('unknown world op %r' % (o,))
            except ValueError as e:
                if 'unknown world op' in str(e):
                    raise
                err = 'err ValueError'
            except OSError:
                err = 'err osError'
            except Exception as e:
                err = 'err ' + type(e).__name__
        finally:
            sys.stderr = saved
        if cap.getvalue():
            err += ' swallowed-exception'
        return list(self.events), self.snapshot(), err, refused

    def _name(self, logid, i):
        p = os.path.join(self.dirs[logid], 'log')
        return p if i == 0 else '%s.%d' % (p, i)

    def close(self):
        try:
            lg = getattr(getattr(self, 'opts', None), 'logger', None)
            if lg is not None:
                lg.close()
            for proc in getattr(self, 'procs', {}).values():
                for d in proc.dispatchers.values():
                    for nm in ('normallog', 'capturelog', 'childlog'):
                        l = getattr(d, nm, None)
                        if l is not None:
                            l.close()
            for p in self.pipes:
                for fd in p.values():
                    if fd is not None:
                        try:
                            os.close(fd)
                        except OSError:
                            pass
        finally:
            self.loggers.time = self._saved_time


# ---- the property's view of an operation: which logs it clears / reopens ----------------------------
def covered(w, logids, o):
    """{logid: 'clear' | 'reopen'} -- stated from the documentation of the operations, not from the code"""
    k = o[0]
    if k == 'clearlog': return {'act': 'clear'}
    if k == 'optreopen': return {'act': 'reopen'}
    if k == 'sigusr2': return {l: 'reopen' for l in logids}
    if k == 'clearproc': return {l: 'clear' for l in logids if l.startswith('%d.%d.' % (o[1], o[2]))}
    if k == 'clearall': return {l: 'clear' for l in logids if l != 'act'}
    return {}


def op_json(o):
    return [x.hex() if isinstance(x, bytes) else x for x in o]


def op_unjson(l):
    if l[0] == 'chunk': return ('chunk', l[1], l[2], l[3], bytes.fromhex(l[4]))
    if l[0] == 'extreplace': return ('extreplace', l[1], l[2], bytes.fromhex(l[3]))
    return tuple(l)


def case_line(world, show):
    w = world.w
    def ch(c):
        return 'x' if c == 'x' else '-' if c is None else '%d.%d' % (c[0], c[1])
    groups = '/'.join(','.join('%s:%s:%s' % (p['kind'], ch(p['out']), ch(p['err'])) for p in g) for g in w['groups']) or 'none'
    return 'case logfan nodaemon=%d silent=%d maxbytes=%d backups=%d extra=%s fmtpre=%s show=%d groups=%s' % (
        w['nodaemon'], w['silent'], w['maxbytes'], w['backups'], w.get('extra', 'none'), hexs(world.fmtpre), show, groups)


def canon_log(ls, other, show):
    parts = ['%d=%s' % (k, hexs(ls[k])) for k in sorted(ls) if k <= show]
    parts += ['beyond:%d' % k for k in sorted(ls) if k > show] + ['other:' + o for o in sorted(other)]
    return ' '.join(parts) + ' | ok'


def canon_world(world, snap, show, err):
    """the same shape as LogFan.showWorld: stdout and bare byte counts, the activity log's directory, then
    every child log's directory in (group, process, stdout-before-stderr) order"""
    ids = list(world.dirs)          # creation order: act, then (group, process, stdout, stderr)
    parts = ['out=%d bare=%d ; %s' % (snap['#out'], snap['#bare'], canon_log(snap['act'][0], snap['act'][1], show))]
    for l in ids[1:]:
        parts.append(canon_log(snap[l][0], snap[l][1], show))
    return ' || '.join(parts) + ('' if err == 'ok' else ' !' + err)
