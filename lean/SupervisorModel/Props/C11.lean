-- stub: replaced by the property author
namespace Sv.Props.C11
end Sv.Props.C11
