import SupervisorModel.Lemmas.SupLemmas
import SupervisorModel.Lemmas.AllFunc
import SupervisorModel.Lemmas.Execv
/-
  C13 — start/stop/signal RPC answers agree with what happened to the process.
  Per-process RPC layer (Model/ProcOps.lean: `_update` gate, state guards, spawn/stop/signal,
  answer) and the deferred answers of the daemon model (Model/Sup.lean: `onwait` callbacks polled by
  the loop).  Group/all forms: the closure of `make_allfunc` (Model/AllFunc.lean, lemmas in Lemmas/AllFunc.lean), for
  every process list, predicate, outcome of the single calls and schedule of callback completions -- second half of
  this file.  The clause "NO_FILE or NOT_EXECUTABLE when it cannot exist or be executed": the command-file checks behind
  startProcess and spawn() (Model/Execv.lean, lemmas in Lemmas/Execv.lean), for every stat / access answer -- last part.
-/
set_option linter.unusedSimpArgs false
set_option linter.unusedVariables false
namespace Sv.Props.C13
open Sv Sv.Proc Sv.Gen.Proc Sv.Sup Sv.Gen.Sup

def answers (outs : List Out) : List Int := outs.filterMap fun o => match o with | .answer c => some c | _ => none
def kills (outs : List Out) : List Out := outs.filter fun o => match o with | .kill .. => true | _ => false

/-- the fault `startProcess` answers when it refuses before spawning -/
def startFault (p : Proc) (mood : Int) (res : SpawnRes) : Int :=
  if mood < moodRUNNING then faultSHUTDOWN_STATE else if res = .badCmd then faultNO_FILE
  else if p.state ∈ runningStates then faultALREADY_STARTED else if p.state = .unknown then faultFAILED
  else faultABNORMAL_TERMINATION

/-- **startProcess forks only for a process that is not starting, running or backing off** (nor
    UNKNOWN, nor being stopped), and only when the daemon is running and the command file exists:
    otherwise the call answers exactly the documented fault and does nothing else. -/
theorem start_forks_only_if_eligible (cfg : Cfg) (p : Proc) (now mood : Int) (res : SpawnRes)
    (h : mood < moodRUNNING ∨ res = .badCmd ∨ p.state ∈ runningStates ∨ p.state = .unknown ∨ p.state = .stopping) :
    rpcStart cfg now mood res { p := p } = { p := p, outs := [.answer (startFault p mood res)] } := by
  by_cases hm : mood < moodRUNNING
  · simp [rpcStart, guard, answer, emit, hm, startFault]
  · by_cases hb : res = .badCmd
    · simp [rpcStart, startRefusal, guard, answer, emit, hm, hb, startFault]
    · by_cases hr : p.state ∈ runningStates
      · simp [rpcStart, startRefusal, guard, answer, emit, hm, hb, hr, startFault]
      · by_cases hu : p.state = .unknown
        · simp [rpcStart, startRefusal, guard, answer, emit, hm, hb, hr, hu, startFault, runningStates]
        · have hs : p.state = .stopping := by
            rcases h with h | h | h | h | h <;> simp_all
          simp [rpcStart, startRefusal, guard, answer, emit, hm, hb, hr, hu, hs, startFault, runningStates]

theorem startFault_not_success (p : Proc) (mood : Int) (res : SpawnRes) : startFault p mood res ≠ faultSUCCESS := by
  simp only [startFault]
  (repeat' split) <;> decide

/-- what `spawn()` does for an eligible process, by environment answer -/
theorem spawn_eligible (cfg : Cfg) (p : Proc) (now : Int) (res : SpawnRes) (hw : wfSpawn res)
    (hst : p.state = .exited ∨ p.state = .stopped ∨ p.state = .backoff ∨ p.state = .fatal) (hp : p.pid = 0) :
    let r := spawn cfg now res { p := p }
    r.err = none ∧
    ((∃ pid, res = .ok pid ∧ r.p.spawnerr = false ∧ r.p.pid = pid ∧ pid ≠ 0 ∧ forks r.outs = [.fork pid]) ∨
     (r.p.spawnerr = true ∧ forks r.outs = [] ∧ r.p.pid = 0)) := by
  cases res with
  | ok pid =>
    have hpid : pid ≠ 0 := hw
    rcases hst with hs | hs | hs | hs <;> simp [procdefs, hs, hp, hpid, forks]
  | badCmd => rcases hst with hs | hs | hs | hs <;> simp [procdefs, hs, hp, forks]
  | pipeErr => rcases hst with hs | hs | hs | hs <;> simp [procdefs, hs, hp, forks]
  | forkErr => rcases hst with hs | hs | hs | hs <;> simp [procdefs, hs, hp, forks]

theorem emit_answer_outs (c : Int) (s : S) (he : s.err = none) : (answer c s).outs = s.outs ++ [.answer c] ∧ (answer c s).p = s.p := by
  obtain ⟨q, os, err⟩ := s
  simp only at he; subst he
  simp [answer, emit, guard]

/-- **startProcess answers true only if this call started a child** — exactly one, for this
    process, which it now holds — and answers SPAWN_ERROR when the attempt could not be spawned
    (command lookup, pipe creation or fork failed), in which case nothing was forked. -/
theorem start_true_sound (cfg : Cfg) (p : Proc) (now mood : Int) (res : SpawnRes) (hi : Inv p) (hw : wfSpawn res)
    (hm : ¬ mood < moodRUNNING) (hb : res ≠ .badCmd)
    (hst : p.state = .exited ∨ p.state = .stopped ∨ p.state = .fatal) :
    let r := rpcStart cfg now mood res { p := p }
    (r.outs.getLast? = some (.answer faultSUCCESS) ∧ ∃ pid, res = .ok pid ∧ forks r.outs = [.fork pid] ∧ pid ≠ 0) ∨
    (r.outs.getLast? = some (.answer faultSPAWN_ERROR) ∧ forks r.outs = [] ∧ r.p.pid = 0) := by
  have hst' : p.state = .exited ∨ p.state = .stopped ∨ p.state = .backoff ∨ p.state = .fatal := by
    rcases hst with hs | hs | hs <;> simp [hs]
  have hp : p.pid = 0 := by apply hi.dead; rcases hst with hs | hs | hs <;> simp [hs]
  have href : startRefusal p (res == .badCmd) = none := by
    rcases hst with hs | hs | hs <;> simp [startRefusal, hs, hb, runningStates]
  obtain ⟨hok, hsp⟩ := spawn_eligible cfg p now res hw hst' hp
  simp only [rpcStart, guard, Option.isSome_none, Bool.false_eq_true, if_false, hm, ilt_iff, href]
  rcases hsp with ⟨pid, hres, hse, hpid, hpid0, hfk⟩ | ⟨hse, hfk, hp0⟩
  · left
    simp only [hse, Bool.false_eq_true, if_false]
    have hinv := spawn_inv cfg now res { p := p } hw hi
    have htok : (transition cfg now mood res .ok (spawn cfg now res { p := p })).err = none := by
      generalize hr : spawn cfg now res { p := p } = r at *
      obtain ⟨q, os, err⟩ := r
      simp only at hok; subst hok
      exact transition_ok os cfg q now mood res .ok hinv
    obtain ⟨ho, hpp⟩ := emit_answer_outs faultSUCCESS _ htok
    have hnf := transition_noFork_of_pid cfg now mood res .ok (spawn cfg now res { p := p }) (by rw [hpid]; exact hpid0)
    rw [ho]
    refine ⟨by simp, pid, hres, ?_, hpid0⟩
    rw [forks_append, hnf, hfk]
    simp [forks]
  · right
    simp only [hse, if_true]
    obtain ⟨ho, hpp⟩ := emit_answer_outs faultSPAWN_ERROR _ hok
    rw [ho, hpp]
    refine ⟨by simp, ?_, hp0⟩
    rw [forks_append, hfk]
    simp [forks]

/-- **stopProcess answers NOT_RUNNING exactly for a process that is not starting, running or
    backing off**, without signalling anything -/
theorem stop_not_running_exact (cfg : Cfg) (p : Proc) (now mood : Int) (kr : KillRes) (hm : ¬ mood < moodRUNNING) :
    (p.state ∉ runningStates →
      rpcStop cfg now mood kr { p := p } = { p := p, outs := [.answer faultNOT_RUNNING] }) ∧
    (p.state ∈ runningStates →
      (rpcStop cfg now mood kr { p := p }).outs.getLast? ≠ some (.answer faultNOT_RUNNING)) := by
  constructor
  · intro h
    simp [rpcStop, guard, answer, emit, hm, h]
  · intro h
    have hok := stop_ok [] cfg now kr p (by simp [runningStates] at h; rcases h with h | h | h <;> simp [h])
    simp only [rpcStop, guard, Option.isSome_none, Bool.false_eq_true, if_false, hm, ilt_iff, h, decide_true, Bool.not_true]
    obtain ⟨ho, _⟩ := emit_answer_outs (if ((p.state != .backoff && p.pid == 0) || (p.state != .backoff && kr == .fail)) = true
      then faultFAILED else faultSUCCESS) _ hok
    rw [ho]
    simp only [List.getLast?_append, List.getLast?_singleton, Option.some_or]
    split <;> decide

/-- **stopProcess that answers true has signalled the child or cancelled the retry**: the process is
    then STOPPING (signal delivered or child already gone) or, from BACKOFF, STOPPED at once -/
theorem stop_true_sound (cfg : Cfg) (p : Proc) (now mood : Int) (kr : KillRes) (hi : Inv p) (hm : ¬ mood < moodRUNNING)
    (hs : p.state ∈ runningStates) (hk : kr ≠ .fail) :
    let r := rpcStop cfg now mood kr { p := p }
    r.outs.getLast? = some (.answer faultSUCCESS) ∧
    ((p.state = .backoff ∧ r.p.state = .stopped ∧ kills r.outs = []) ∨
     (p.state ≠ .backoff ∧ r.p.state = .stopping ∧ r.p.pid = p.pid ∧
        kills r.outs = [.kill (if cfg.stopasgroup then -p.pid else p.pid) cfg.stopsignal])) := by
  simp only [moodRUNNING] at hm
  simp [runningStates] at hs
  rcases hs with h | h | h
  · have hp : p.pid ≠ 0 := by apply hi.live; simp [h]
    cases kr <;> (try simp at hk) <;> cases hg : cfg.stopasgroup <;>
      simp [procdefs, kills, runningStates, signallableStates, h, hp, hg, hm]
  · cases kr <;> (try simp at hk) <;>
      simp [procdefs, kills, runningStates, signallableStates, h, hm]
  · have hp : p.pid ≠ 0 := by apply hi.live; simp [h]
    cases kr <;> (try simp at hk) <;> cases hg : cfg.stopasgroup <;>
      simp [procdefs, kills, runningStates, signallableStates, h, hp, hg, hm]

/-- **signalProcess delivers exactly the named signal to exactly the named process's child and
    nothing else**: one `kill(pid, sig)` with the positive pid (never the process group), no state
    change unless delivery failed -/
theorem signal_exact (cfg : Cfg) (p : Proc) (now mood sig : Int) (kr : KillRes) (hi : Inv p) (hm : ¬ mood < moodRUNNING)
    (hs : p.state ∈ signallableStates) :
    let r := rpcSignal cfg now mood sig kr { p := p }
    kills r.outs = [.kill p.pid sig] ∧ p.pid ≠ 0 ∧ (kr ≠ .fail → r.p = p ∧ r.outs.getLast? = some (.answer faultSUCCESS)) ∧
    (kr = .fail → r.outs.getLast? = some (.answer faultFAILED)) := by
  simp only [moodRUNNING] at hm
  simp [signallableStates] at hs
  have hp : p.pid ≠ 0 := by apply hi.live; rcases hs with h | h | h <;> simp [h]
  rcases hs with h | h | h <;> cases kr <;> simp [procdefs, kills, signallableStates, h, hp, hm]

/-- signalProcess on a process that cannot be signalled answers NOT_RUNNING and delivers nothing -/
theorem signal_not_running (cfg : Cfg) (p : Proc) (now mood sig : Int) (kr : KillRes) (hm : ¬ mood < moodRUNNING)
    (hs : p.state ∉ signallableStates) :
    rpcSignal cfg now mood sig kr { p := p } = { p := p, outs := [.answer faultNOT_RUNNING] } := by
  simp [rpcSignal, guard, answer, emit, hm, hs]

/-- **Deferred start answers** (`wait=true`): the callback the loop polls answers true only when
    the process is RUNNING (and not marked with a spawn error), SPAWN_ERROR / ABNORMAL_TERMINATION
    when the attempt has failed, and stays pending exactly while the process is STARTING -/
theorem deferred_start_sound (p : Proc) :
    (startWaitAnswer p = some faultSUCCESS ↔ p.spawnerr = false ∧ p.state = .running) ∧
    (startWaitAnswer p = none ↔ p.spawnerr = false ∧ p.state = .starting) := by
  cases hs : p.state <;> cases he : p.spawnerr <;>
    simp [startWaitAnswer, hs, he, faultSUCCESS, faultSPAWN_ERROR, faultABNORMAL_TERMINATION]

/-- **Deferred stop answers** (`wait=true`): the callback answers true only once the process is in
    a stopped state — where, by the bookkeeping invariant, it holds no child -/
theorem deferred_stop_sound (p : Proc) (hi : Inv p) (c : Int) (h : stopWaitAnswer p = some c) :
    c = faultSUCCESS ∧ p.state ∈ stoppedStates ∧ (p.state ≠ .unknown → p.pid = 0) := by
  simp only [stopWaitAnswer] at h
  split at h
  · simp at h
  · rename_i hst
    simp at hst h
    refine ⟨h.symm, hst, ?_⟩
    intro hu
    apply hi.dead
    simp [stoppedStates] at hst
    rcases hst with h1 | h1 | h1 | h1 <;> simp_all

-- non-vacuity
example : startWaitAnswer { state := .running } = some faultSUCCESS := by decide
example : stopWaitAnswer { state := .stopping, pid := 5 } = none := by decide

/-! ## The group and all forms: `make_allfunc`

  `AllFunc.Env` is everything the closure meets: the process list (positions `0 … n-1`, group and process name of
  each), for each position whether the predicate holds when tested (`eligible`), what `func` does when called (`imm`:
  raises RPCError / returns a callback / returns a value) and what the k-th poll of its callback does (`polls i k`:
  NOT_DONE_YET / raises RPCError / returns a value).  `AllFunc.run env n` is the closure's state and last answer after
  the caller had `n` opportunities to invoke it under the deferred-response protocol (it is invoked again exactly while
  it says NOT_DONE_YET).  All theorems are for every `env` -- hence every order and time of completion -- and every `n`.

  `AllFunc.eligIds env` = the eligible positions in list order.  `AllFunc.Reports env i st txt` = "the single call for
  position `i` reported status `st` with text `txt`": the RPCError `func` raised; SUCCESS/"OK" if `func` returned a
  value; if it returned a callback, the RPCError raised by, or SUCCESS/"OK" for the value returned by, the first poll
  that did not say NOT_DONE_YET.  `AllFunc.EntryFor env i e` = `e` carries the names of position `i` and `Reports`.
-/

open Sv.AllFunc (Entry Answer Ev eligIds Reports EntryFor callsOf testsOf pollsOf makeNamespec PSpec)

/-- **The model is the source as it is**: every statement-level fact it was written against is extracted `true` --
    the poll loop runs over a copy (`callbacks[:]`), a finished callback is taken out by `callbacks.remove(struct)`,
    the tuple is unpacked in the order it was packed, `func` is called at one place, in the walk, with the namespec,
    entries are appended in the four branches walkErr / walkOk / pollErr / pollOk, and the two lists are touched exactly
    where `AllFunc.expectedPlacement` says (the SUCCESS entry of a polled callback only under `value is not NOT_DONE_YET`) -/
theorem group_structure_facts :
    Sv.Gen.AllFunc.pollLoopOverCopy = true ∧ Sv.Gen.AllFunc.pollRemovesStruct = true ∧
    Sv.Gen.AllFunc.structPackedAsUnpacked = true ∧ Sv.Gen.AllFunc.funcCalledOnlyInWalk = true ∧
    Sv.Gen.AllFunc.pollListOps = ["callbacks.remove(struct)", "callbacks.remove(struct)"] ∧
    Sv.Gen.AllFunc.listOpPlacement = AllFunc.expectedPlacement ∧
    AllFunc.structureOk = true := by decide

/-- **The model never declines**: no invocation under the protocol answers `unmodelled` -/
theorem group_model_applies (env : AllFunc.Env) (n : Nat) : (AllFunc.run env n).2 ≠ some .unmodelled := by
  have h := AllFunc.run_inv env n
  intro hu
  simp only [AllFunc.RunInv, hu] at h
  obtain ⟨_, ha, _⟩ := h
  split at ha <;> simp at ha

/-- **At every moment every eligible process is either still pending or has exactly one status entry, and that entry is
    what its single call reported.**  After any number of invocations the recorded entries can be labelled with list
    positions such that the pending positions followed by the labels are a permutation of the eligible positions (so:
    none missing, none twice, none for an ineligible process, none both pending and recorded), each entry carries the
    group and process name of its position, and its status and description are those the single call for that position
    reported (`Reports`).  This is the invariant from which the statements about the final answer follow; it holds
    while the call is still answering NOT_DONE_YET, so nothing already recorded is duplicated by further polls. -/
theorem group_conservation (env : AllFunc.Env) (n : Nat) (hn : 0 < n) :
    ∃ lab : List (Nat × Entry),
      (AllFunc.run env n).1.results = lab.map Prod.snd ∧
      ((AllFunc.run env n).1.callbacks ++ lab.map Prod.fst).Perm (eligIds env) ∧
      ∀ p, p ∈ lab → EntryFor env p.1 p.2 := by
  have h := AllFunc.run_inv env n
  cases ha : (AllFunc.run env n).2 with
  | none => exact absurd (AllFunc.run_none env n ha) (Nat.pos_iff_ne_zero.1 hn)
  | some a =>
    simp only [AllFunc.RunInv, ha] at h
    obtain ⟨⟨done, hinv⟩, _⟩ := h
    exact ⟨done, hinv.res, hinv.perm, hinv.entries⟩

/-- **The final answer has exactly one entry per eligible process, each equal to what the single call reported.**  When
    the call answers with a result list `rs`, the entries of `rs` can be labelled with list positions such that the labels
    are a permutation of the eligible positions -- exactly one entry for each eligible process, none for any other -- each
    entry carries the group and process name of its position, and its status and description are what the single call
    for that position reported: the code and text of the RPCError it raised (immediately or from its callback), SUCCESS
    and "OK" when it returned a value -- for a deferred call, the outcome of the first poll that did not say
    NOT_DONE_YET, never anything earlier.  Entries are in order of completion, which is why the statement is up to a
    permutation. -/
theorem group_entries_exact (env : AllFunc.Env) (n : Nat) (rs : List Entry)
    (h : (AllFunc.run env n).2 = some (.results rs)) :
    ∃ lab : List (Nat × Entry),
      rs = lab.map Prod.snd ∧ (lab.map Prod.fst).Perm (eligIds env) ∧ ∀ p, p ∈ lab → EntryFor env p.1 p.2 := by
  have hr := AllFunc.run_inv env n
  simp only [AllFunc.RunInv, h] at hr
  obtain ⟨⟨done, hinv⟩, ha, _⟩ := hr
  have hemp : (AllFunc.run env n).1.callbacks = [] := by
    cases hc : (AllFunc.run env n).1.callbacks.isEmpty
    · simp [hc] at ha
    · exact List.isEmpty_iff.1 hc
  have hrs : rs = (AllFunc.run env n).1.results := by
    simp only [hemp, List.isEmpty_nil, if_true] at ha
    exact AllFunc.Answer.results.inj ha
  refine ⟨done, by rw [hrs, hinv.res], ?_, hinv.entries⟩
  have := hinv.perm
  rw [hemp, List.nil_append] at this
  exact this

/-- **Exactly one entry per eligible process, as a statement about names**: the (group, name) pairs of the final
    entries are a permutation of the (group, name) pairs of the eligible processes of the list -- duplicates in the
    list, if any, counted as often as they occur. -/
theorem group_one_entry_per_eligible (env : AllFunc.Env) (n : Nat) (rs : List Entry)
    (h : (AllFunc.run env n).2 = some (.results rs)) :
    (rs.map fun e => (e.group, e.name)).Perm ((eligIds env).map fun i => (env.group i, env.name i)) := by
  obtain ⟨lab, hrs, hperm, hent⟩ := group_entries_exact env n rs h
  have h1 : (rs.map fun e => (e.group, e.name)) = (lab.map Prod.fst).map fun i => (env.group i, env.name i) := by
    rw [hrs, List.map_map, List.map_map]
    apply List.map_congr_left
    intro p hp
    obtain ⟨hn, hg, _⟩ := hent p hp
    simp [hn, hg]
  rw [h1]
  exact hperm.map _

/-- **The same for a process list given as a list**: the names of the final entries are, up to order, the names of
    `ps.filter (·.eligible)` -/
theorem group_one_entry_per_eligible_list (ps : List PSpec) (n : Nat) (rs : List Entry)
    (h : (AllFunc.run (AllFunc.Env.ofList ps) n).2 = some (.results rs)) :
    (rs.map fun e => (e.group, e.name)).Perm ((ps.filter (·.eligible)).map fun p => (p.group, p.name)) := by
  have := group_one_entry_per_eligible (AllFunc.Env.ofList ps) n rs h
  rw [← AllFunc.eligIds_ofList_map ps (fun p => (p.group, p.name))]
  exact this

/-- **None missing, none extra**: as many entries as eligible processes; every entry belongs to an eligible process of the
    list (none for an ineligible one); and every eligible process has an entry -/
theorem group_entries_count (env : AllFunc.Env) (n : Nat) (rs : List Entry)
    (h : (AllFunc.run env n).2 = some (.results rs)) :
    rs.length = (eligIds env).length ∧
    (∀ e, e ∈ rs → ∃ i, i < env.n ∧ env.eligible i = true ∧ EntryFor env i e) ∧
    (∀ i, i < env.n → env.eligible i = true → ∃ e, e ∈ rs ∧ EntryFor env i e) := by
  obtain ⟨lab, hrs, hperm, hent⟩ := group_entries_exact env n rs h
  refine ⟨?_, ?_, ?_⟩
  · rw [hrs, List.length_map, ← hperm.length_eq, List.length_map]
  · intro e he
    rw [hrs] at he
    obtain ⟨p, hp, hpe⟩ := List.mem_map.1 he
    have hmem : p.1 ∈ eligIds env := hperm.mem_iff.1 (List.mem_map.2 ⟨p, hp, rfl⟩)
    simp only [eligIds, List.mem_filter, List.mem_range] at hmem
    exact ⟨p.1, hmem.1, hmem.2, hpe ▸ hent p hp⟩
  · intro i hi he
    have hmem : i ∈ eligIds env := by simp [eligIds, hi, he]
    obtain ⟨p, hp, hpi⟩ := List.mem_map.1 (hperm.mem_iff.2 hmem)
    exact ⟨p.2, by rw [hrs]; exact List.mem_map.2 ⟨p, hp, rfl⟩, hpi ▸ hent p hp⟩

/-- **A deferred single call is reported by what its callback finally said, not earlier**: if the callback of an
    eligible position says NOT_DONE_YET `k` times and then returns a value, the final answer's entry for that position has
    status SUCCESS; if it then raises RPCError(c, t), the entry has status c and text t (`Reports` is single-valued). -/
theorem group_deferred_status (env : AllFunc.Env) (i k : Nat) (hd : env.imm i = .deferred)
    (hk : ∀ j, j < k → env.polls i j = .notDone) (e : Entry) (he : EntryFor env i e) :
    (env.polls i k = .value → e.status = faultSUCCESS ∧ e.description = "OK") ∧
    (∀ c t, env.polls i k = .raises c t → e.status = c ∧ e.description = t) := by
  constructor
  · intro hv
    have hr : Reports env i faultSUCCESS "OK" := by
      simp only [Reports, hd]; exact ⟨k, hk, Or.inr (by simp [hv])⟩
    exact AllFunc.Reports.unique he.2.2 hr
  · intro c t hv
    have hr : Reports env i c t := by
      simp only [Reports, hd]; exact ⟨k, hk, Or.inl hv⟩
    exact AllFunc.Reports.unique he.2.2 hr

/-- **While some callback is pending the answer is NOT_DONE_YET; the result list is handed out only when none is.**
    After at least one invocation the last answer is NOT_DONE_YET exactly if the pending list is non-empty, and otherwise
    it is the recorded result list. -/
theorem group_answer_iff_pending (env : AllFunc.Env) (n : Nat) (a : Answer) (h : (AllFunc.run env n).2 = some a) :
    (a = .notDoneYet ↔ (AllFunc.run env n).1.callbacks ≠ []) ∧
    ((AllFunc.run env n).1.callbacks = [] → a = .results (AllFunc.run env n).1.results) := by
  have hr := AllFunc.run_inv env n
  simp only [AllFunc.RunInv, h] at hr
  obtain ⟨_, ha, _⟩ := hr
  cases hc : (AllFunc.run env n).1.callbacks with
  | nil => simp [hc] at ha; simp [ha]
  | cons x xs => simp [hc] at ha; simp [ha]

/-- **Nothing already recorded is lost or reordered by a further invocation**: the result list after `n + 1`
    opportunities extends the one after `n` (together with `group_conservation`: nor is anything recorded twice). -/
theorem group_results_grow (env : AllFunc.Env) (n : Nat) :
    (AllFunc.run env n).1.results <+: (AllFunc.run env (n + 1)).1.results := by
  simp only [AllFunc.run, AllFunc.tick]
  split
  · obtain ⟨ex, hex⟩ := AllFunc.invoke_results env (AllFunc.run env n).1
    exact ⟨ex, hex.symm⟩
  · obtain ⟨ex, hex⟩ := AllFunc.invoke_results env (AllFunc.run env n).1
    exact ⟨ex, hex.symm⟩
  · exact List.prefix_refl _

/-- **`func` is called exactly once for each eligible process and never for another, in list order, with the process's
    namespec -- all in the first invocation**: after any positive number of invocations the calls of `func` recorded at the
    seam are exactly the eligible positions in list order (no later invocation adds one), and the predicate has been
    tested exactly once for every position of the list, in list order. -/
theorem group_func_called_once (env : AllFunc.Env) (n : Nat) (hn : 0 < n) :
    callsOf (AllFunc.run env n).1.log = (eligIds env).map (fun i => (i, makeNamespec (env.group i) (env.name i))) ∧
    testsOf (AllFunc.run env n).1.log = List.range env.n := by
  have h := AllFunc.run_inv env n
  cases ha : (AllFunc.run env n).2 with
  | none => exact absurd (AllFunc.run_none env n ha) (Nat.pos_iff_ne_zero.1 hn)
  | some a =>
    simp only [AllFunc.RunInv, ha] at h
    exact ⟨h.2.2.1, h.2.2.2⟩

/-- **Every later invocation polls each pending callback exactly once, in list order, and does nothing else at the
    seam** -/
theorem group_polls_once_per_invocation (env : AllFunc.Env) (n : Nat) (h : (AllFunc.run env n).2 = some .notDoneYet) :
    (AllFunc.run env (n + 1)).1.log = (AllFunc.run env n).1.log ++ (AllFunc.run env n).1.callbacks.map Ev.poll := by
  have hne : (AllFunc.run env n).1.callbacks.isEmpty = false := by
    have := (group_answer_iff_pending env n _ h).1.1 rfl
    cases hc : (AllFunc.run env n).1.callbacks with
    | nil => exact absurd hc this
    | cons x xs => rfl
  simp only [AllFunc.run, AllFunc.tick, h]
  exact AllFunc.invoke_next_log env _ hne

/-- **A callback is still pending after `n` invocations only if it has been polled exactly `n` times and said NOT_DONE_YET
    every time** (each invocation polls every pending callback exactly once) -/
theorem group_pending_polled_n_times (env : AllFunc.Env) (n : Nat) (h : (AllFunc.run env n).2 = some .notDoneYet)
    (i : Nat) (hi : i ∈ (AllFunc.run env n).1.callbacks) :
    i < env.n ∧ env.eligible i = true ∧ env.imm i = .deferred ∧ (AllFunc.run env n).1.polled i = n ∧
    ∀ j, j < n → env.polls i j = .notDone := by
  have hs := AllFunc.run_sync env n h i hi
  have hr := AllFunc.run_inv env n
  simp only [AllFunc.RunInv, h] at hr
  obtain ⟨⟨done, hinv⟩, _⟩ := hr
  have hmem : i ∈ eligIds env := hinv.perm.mem_iff.1 (List.mem_append_left _ hi)
  simp only [eligIds, List.mem_filter, List.mem_range] at hmem
  obtain ⟨hd, hp⟩ := hinv.pending i hi
  rw [hs] at hp
  exact ⟨hmem.1, hmem.2, hd, hs, hp⟩

/-- **The call answers**: if the callback of every eligible process whose single call was deferred says something other
    than NOT_DONE_YET within its first `K` polls, the group call answers with its result list after at most `K + 1`
    invocations (to which `group_entries_exact` then applies). -/
theorem group_answers_eventually (env : AllFunc.Env) (K : Nat)
    (hK : ∀ i, i < env.n → env.eligible i = true → env.imm i = .deferred → ∃ k, k < K ∧ env.polls i k ≠ .notDone) :
    ∃ rs, (AllFunc.run env (K + 1)).2 = some (.results rs) := by
  cases ha : (AllFunc.run env (K + 1)).2 with
  | none => exact absurd (AllFunc.run_none env (K + 1) ha) (Nat.succ_ne_zero K)
  | some a =>
    cases a with
    | results rs => exact ⟨rs, rfl⟩
    | unmodelled => exact absurd ha (group_model_applies env (K + 1))
    | notDoneYet =>
      exfalso
      have hne := (group_answer_iff_pending env (K + 1) _ ha).1.1 rfl
      cases hc : (AllFunc.run env (K + 1)).1.callbacks with
      | nil => exact hne hc
      | cons i rest =>
        obtain ⟨hi, he, hd, _, hp⟩ := group_pending_polled_n_times env (K + 1) ha i (by rw [hc]; simp)
        obtain ⟨k, hk, hk'⟩ := hK i hi he hd
        exact hk' (hp k (Nat.lt_succ_of_lt hk))

/-- **Once the call has answered with a result list it is not invoked again**: state and answer stay as they are -/
theorem group_answer_final (env : AllFunc.Env) (n : Nat) (rs : List Entry) (h : (AllFunc.run env n).2 = some (.results rs)) :
    AllFunc.run env (n + 1) = AllFunc.run env n := by
  simp only [AllFunc.run, AllFunc.tick, h]

/-- **Which predicate and which single-process call each public group / all method uses** (extracted from the six
    methods): the start forms apply `startProcess` to the processes that are *not* starting, running or backing off,
    the stop forms apply `stopProcess` to those that are, the signal forms apply `signalProcess` to the signallable
    ones; each `group` form takes the processes of the named group, each `all` form those of `_getAllProcesses()`. -/
theorem group_forms_callers :
    Sv.Gen.AllFunc.callers =
      [("startProcessGroup", "group", "isNotRunning", "startProcess", ["wait"]),
       ("startAllProcesses", "all", "isNotRunning", "startProcess", ["wait"]),
       ("stopProcessGroup", "group", "isRunning", "stopProcess", ["wait"]),
       ("stopAllProcesses", "all", "isRunning", "stopProcess", ["wait"]),
       ("signalProcessGroup", "group", "isSignallable", "signalProcess", ["signal"]),
       ("signalAllProcesses", "all", "isSignallable", "signalProcess", ["signal"])] := by decide

/-- **The star / empty-name forms are the group forms with the caller's own arguments** (extracted from the branch
    `process is None` of the three single-process methods): `startProcess('g:*', wait)` and `startProcess('g:', wait)` are
    `startProcessGroup(g, wait)`, `stopProcess` likewise, `signalProcess('g:*', signal)` is `signalProcessGroup(g, signal)` --
    the group part of the namespec and every further argument of the caller are passed on, none is left at its default.
    Together with `group_forms_callers` (the keyword arguments reach every single call) the group theorems above therefore
    speak about the single calls *with the arguments of the request*, for all three spellings of a group-wide request. -/
theorem group_forms_delegations :
    Sv.Gen.AllFunc.delegations =
      [("startProcess", "startProcessGroup", [("name", "group"), ("wait", "wait")]),
       ("stopProcess", "stopProcessGroup", [("name", "group"), ("wait", "wait")]),
       ("signalProcess", "signalProcessGroup", [("name", "group"), ("signal", "signal")])] := by decide

/-- every argument the group method passes to the single calls (`callers`) is one it received from the delegating
    single-process method (`delegations`): no `wait` / `signal` is lost on the way from `m('g:*', x)` to `m('g:p', x)` -/
theorem group_forms_arguments_reach_single_calls :
    ∀ d ∈ Sv.Gen.AllFunc.delegations, ∀ c ∈ Sv.Gen.AllFunc.callers, c.1 = d.2.1 →
      c.2.2.2.1 = d.1 ∧ ∀ k ∈ c.2.2.2.2, (k, k) ∈ d.2.2 := by decide

/-- **Eligible = the single call would not refuse for the state**: `isRunning` holds exactly in the states in which
    `stopProcess` does not answer NOT_RUNNING (`stop_not_running_exact`), `isNotRunning` exactly in those in which
    `startProcess` does not answer ALREADY_STARTED, `isSignallable` exactly in those in which `signalProcess` does not
    answer NOT_RUNNING (`signal_not_running`) -/
theorem group_predicates (st : PS) :
    (Sv.Gen.AllFunc.isRunning_a0 st false = true ↔ st ∈ runningStates) ∧
    (Sv.Gen.AllFunc.isNotRunning_a0 st (Sv.Gen.AllFunc.isRunning_a0 st false) = true ↔ st ∉ runningStates) ∧
    ((if Sv.Gen.AllFunc.isSignallable_g0 st false then Sv.Gen.AllFunc.isSignallable_a0 st false else false) = true
        ↔ st ∈ signallableStates) := by
  cases st <;> decide

-- non-vacuity: three eligible processes and one that is not; the second completes before the first (completion out of
-- list order), the third faults while being polled; the answer comes with the third invocation
def exEnv : AllFunc.Env :=
  AllFunc.Env.ofList [
    { group := "g", name := "a", eligible := true, imm := .deferred, polls := fun k => if k < 2 then .notDone else .value },
    { group := "g", name := "b", eligible := true, imm := .deferred, polls := fun k => if k < 1 then .notDone else .value },
    { group := "g", name := "x", eligible := false, imm := .value, polls := fun _ => .value },
    { group := "h", name := "c", eligible := true, imm := .deferred, polls := fun _ => .raises 40 "ABNORMAL_TERMINATION" },
    { group := "h", name := "h", eligible := true, imm := .raises 60 "ALREADY_STARTED", polls := fun _ => .value }]

example : (AllFunc.run exEnv 1).2 = some .notDoneYet ∧ (AllFunc.run exEnv 2).2 = some .notDoneYet := by decide
example : (AllFunc.run exEnv 3).2 = some (.results [
    { name := "h", group := "h", status := 60, description := "ALREADY_STARTED" },
    { name := "c", group := "h", status := 40, description := "ABNORMAL_TERMINATION" },
    { name := "b", group := "g", status := 80, description := "OK" },
    { name := "a", group := "g", status := 80, description := "OK" }]) := by decide
example : (AllFunc.run exEnv 2).1.callbacks = [0] ∧ (AllFunc.run exEnv 1).1.callbacks = [0, 1] := by decide
example : callsOf (AllFunc.run exEnv 3).1.log = [(0, "g:a"), (1, "g:b"), (3, "h:c"), (4, "h")] := by decide
example : eligIds exEnv = [0, 1, 3, 4] := by decide
-- the hypothesis of group_answers_eventually holds for exEnv with K = 3 ... and not with K = 2 (a still pending)
example : ∀ i, i < exEnv.n → exEnv.eligible i = true → exEnv.imm i = .deferred → ∃ k, k < 3 ∧ exEnv.polls i k ≠ .notDone := by decide
-- nothing eligible: answered at once with the empty list
example : (AllFunc.run (AllFunc.Env.ofList [{ group := "g", name := "a", eligible := false, imm := .value, polls := fun _ => .value }]) 1).2
    = some (.results []) := by decide

/-! ## "NO_FILE or NOT_EXECUTABLE when it cannot exist or be executed"

  `Sv.Execv.File` is what the system calls say about one candidate file: `st` the st_mode of stat() or `none` when stat()
  failed, `acc` the answer of os.access(file, X_OK) for the user supervisord runs as.
  `Executable f` (Lemmas/Execv.lean): `∃ m, f.st = some m ∧ sIsDir m = false ∧ hasExecBit m ∧ f.acc = true`, with
  `hasExecBit m`: bit 6, 3 or 0 of the mode word (0o100, 0o010, 0o001) is set.
  `Names cmd`: shlex made at least one word of the command (`explicit`: the program contains a '/'; `search`: $PATH lookup).
  `resolved hasSlash files`: the file get_execv_args hands to check_execv_args.
  `fileFault cmd files`: NO_FILE when the command names a program and stat found nothing, NOT_EXECUTABLE otherwise.
-/
section CommandFile
open Sv.Execv Sv.Gen.Execv

/-- **The model is the source as it is**: check_execv_args is one if/elif chain of raises (its tests and classes are the
    generated `checkChain`), it asks os.access about the file it was given and about X_OK only; get_execv_args stats an
    explicit program as it is and otherwise takes the first directory of the path in which stat succeeds, then calls
    check_execv_args(filename, commandargs, st); startProcess makes the check after `_update` and the name lookup and before
    every state test and its one spawn() call; spawn() makes it in a try whose handler returns before any fork. -/
theorem execv_structure_facts :
    checkIsRaiseChain = true ∧ checkAccessCalls = ["os.access(filename, os.X_OK)"] ∧
    argsStructureOk = true ∧ startStructureOk = true ∧ spawnStructureOk = true := by decide

/-- **check_execv_args answers `ok` only when an execute bit is set AND access(X_OK) holds** (and the file is there and is
    not a directory) -- and always then. -/
theorem check_accepts_iff_executable (f : File) : check f = none ↔ Executable f := check_none_iff f

/-- what it raises otherwise: NotFound exactly when stat found nothing; NotExecutable for a directory or a file without any
    execute bit; NoPermission for a file with an execute bit that supervisord's user may not execute -/
theorem check_rejections (f : File) (c : String) (h : check f = some c) :
    (c = "NotFound" ∧ f.st = none) ∨
    (c = "NotExecutable" ∧ ∃ m, f.st = some m ∧ (sIsDir m = true ∨ ¬ hasExecBit m)) ∨
    (c = "NoPermission" ∧ ∃ m, f.st = some m ∧ sIsDir m = false ∧ hasExecBit m ∧ f.acc = false) :=
  check_some_cases f c h

/-- **get_execv_args returns only for a command that names a program whose file can be executed** -/
theorem lookup_accepts_iff_executable (cmd : Cmd) (files : List File) :
    execvRaises cmd files = none ↔ Names cmd ∧ Executable (resolved (cmd == .explicit) files) :=
  execvRaises_none_iff cmd files

/-- which file that is: the explicit program itself; in a $PATH search the first candidate whose stat succeeds, whatever
    comes after it (an executable file further down the path does not help); nothing when stat fails everywhere -/
theorem lookup_file (f : File) (pre post : List File) (hpre : ∀ g ∈ pre, g.st = none) :
    resolved true [f] = f ∧ (f.st.isSome = true → resolved false (pre ++ f :: post) = f) ∧ resolved false pre = nowhere :=
  ⟨resolved_explicit f, resolved_search pre post f hpre, resolved_search_nowhere pre hpre⟩

/-- **startProcess answers NO_FILE / NOT_EXECUTABLE for a command that cannot exist or be executed, and does nothing else**:
    no state change, no event, no fork -- whatever the process state, `wait` and the fork answer would have been. -/
theorem start_file_fault_exact (cfg : Cfg) (p : Proc) (now mood : Int) (cmd : Cmd) (files : List File) (res : SpawnRes)
    (hm : ¬ mood < moodRUNNING) (hx : ¬ (Names cmd ∧ Executable (resolved (cmd == .explicit) files))) :
    startProcess cfg now mood (execvRaises cmd files) res { p := p } =
      { s := { p := p, outs := [.answer (fileFault cmd files)] } } :=
  start_unexecutable cfg p now mood cmd files res hm hx

/-- for a command that can be executed the call is the single call of the first part of this file
    (`start_forks_only_if_eligible`, `start_true_sound` apply to it as they stand); no exception ever leaves it uncaught -/
theorem start_executable_is_rpcStart (cfg : Cfg) (p : Proc) (now mood : Int) (cmd : Cmd) (files : List File) (res : SpawnRes)
    (hx : Names cmd ∧ Executable (resolved (cmd == .explicit) files)) :
    startProcess cfg now mood (execvRaises cmd files) res { p := p } = { s := rpcStart cfg now mood res { p := p } } :=
  start_executable cfg p now mood cmd files res hx

/-- **startProcess forks only for a command whose file exists, has an execute bit and may be executed by supervisord's
    user** -/
theorem start_forks_only_if_executable (cfg : Cfg) (p : Proc) (now mood : Int) (cmd : Cmd) (files : List File) (res : SpawnRes)
    (hf : forks (startProcess cfg now mood (execvRaises cmd files) res { p := p }).s.outs ≠ []) :
    Names cmd ∧ ∃ m, (resolved (cmd == .explicit) files).st = some m ∧ sIsDir m = false ∧ hasExecBit m ∧
      (resolved (cmd == .explicit) files).acc = true :=
  start_forks_only_executable cfg p now mood cmd files res hf

/-- **nor does spawn() on its own** (autostart, autorestart, BACKOFF retry -- every spawn() is reached through
    transition()): for a command that cannot be executed it is the spawn-error path (`badCmd`: spawnerr, BACKOFF), adds no
    fork and leaves the held pid alone -/
theorem spawn_forks_only_if_executable (cfg : Cfg) (now mood : Int) (cmd : Cmd) (files : List File) (res : SpawnRes) (kr : KillRes) (s : S)
    (hx : ¬ (Names cmd ∧ Executable (resolved (cmd == .explicit) files))) :
    let r := transitionChecked cfg now mood (execvRaises cmd files) res kr s
    r.esc = none ∧ r.s = transition cfg now mood .badCmd kr s ∧ forks r.s.outs = forks s.outs ∧ r.s.p.pid = s.p.pid :=
  transition_unexecutable_noFork cfg now mood cmd files res kr s hx

theorem spawn_executable_is_transition (cfg : Cfg) (now mood : Int) (cmd : Cmd) (files : List File) (res : SpawnRes) (kr : KillRes) (s : S)
    (hx : Names cmd ∧ Executable (resolved (cmd == .explicit) files)) :
    transitionChecked cfg now mood (execvRaises cmd files) res kr s = { s := transition cfg now mood res kr s } :=
  transition_executable cfg now mood cmd files res kr s hx

-- non-vacuity and the constants: 0o100755 regular rwxr-xr-x, 0o040755 a directory, 0o100644 no execute bit,
-- 0o100074 / 0o100750: an execute bit, but (for a user who is the owner of the first / a stranger to the second) not theirs
example : sIsDir 0o040755 = true ∧ sIsDir 0o100755 = false ∧ sIsDir 0o010755 = false := by decide
example : hasExecBit 0o100755 ∧ hasExecBit 0o100074 ∧ hasExecBit 0o100001 ∧ ¬ hasExecBit 0o100644 ∧ ¬ hasExecBit 0o106666 := by
  simp [hasExecBit]; decide
example : Executable { st := some 0o100755, acc := true } := ⟨_, rfl, by decide, by simp [hasExecBit], rfl⟩
example : check { st := some 0o100755, acc := true } = none ∧ check { st := some 0o100074, acc := false } = some "NoPermission"
    ∧ check { st := some 0o100750, acc := false } = some "NoPermission" ∧ check { st := some 0o100644, acc := true } = some "NotExecutable"
    ∧ check { st := some 0o040755, acc := true } = some "NotExecutable" ∧ check { st := none, acc := false } = some "NotFound" := by decide
example : fileFault .search [{ st := none, acc := false }] = faultNO_FILE ∧ fileFault .explicit [{ st := some 0o100074, acc := false }] = faultNOT_EXECUTABLE
    ∧ fileFault .empty [] = faultNOT_EXECUTABLE ∧ fileFault .search [{ st := none, acc := false }, { st := some 0o100644, acc := true }, { st := some 0o100755, acc := true }] = faultNOT_EXECUTABLE := by decide
-- a start of a STOPPED process whose command file has an execute bit that is not supervisord's user's: NOT_EXECUTABLE, nothing else
example : (startProcess ⟨1024, 3, true, .unexpected, [0], 15, 10240, false, false⟩ 5000 1
            (execvRaises .explicit [{ st := some 0o100074, acc := false }]) (.ok 101) { p := {} }).s.outs = [.answer faultNOT_EXECUTABLE] := by decide
-- and of the same process once the file is executable: one fork
example : forks (startProcess ⟨1024, 3, true, .unexpected, [0], 15, 10240, false, false⟩ 5000 1
            (execvRaises .explicit [{ st := some 0o100755, acc := true }]) (.ok 101) { p := {} }).s.outs = [.fork 101] := by decide

end CommandFile

end Sv.Props.C13
