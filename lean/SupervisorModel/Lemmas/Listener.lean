import SupervisorModel.Model.Listener
/-
  Helper lemmas about the listener parser (Model/Listener.lean): list facts, the well-formedness
  invariant, the termination measure, fuel irrelevance and the one-step commutation facts from
  which `Props.C10.fragmentation_invariant` follows.
-/
set_option linter.unusedSimpArgs false
set_option linter.unusedVariables false
namespace Sv.Listener
open Sv.Gen.Listener

/-! ### list facts -/

theorem findNL_lt : ∀ (a : Bytes) (k : Nat), findNL a = some k → k < a.length
  | [], k, h => by simp [findNL] at h
  | c :: cs, k, h => by
    simp only [findNL] at h
    split at h
    · simp at h; subst h; simp
    · cases hc : findNL cs with
      | none => simp [hc] at h
      | some j =>
        simp [hc] at h; subst h
        have := findNL_lt cs j hc
        simp; omega

theorem findNL_append_some : ∀ (a x : Bytes) (k : Nat), findNL a = some k → findNL (a ++ x) = some k
  | [], x, k, h => by simp [findNL] at h
  | c :: cs, x, k, h => by
    simp only [findNL, List.cons_append] at h ⊢
    split
    · rename_i hc; simp [hc] at h; simp [h]
    · rename_i hc
      simp [hc] at h
      cases hcs : findNL cs with
      | none => simp [hcs] at h
      | some j => simp [hcs] at h; simp [findNL_append_some cs x j hcs, h]

theorem isPrefixOf_append_of_le (t a x : Bytes) (h : t.length ≤ a.length) :
    t.isPrefixOf (a ++ x) = t.isPrefixOf a := by
  induction t generalizing a with
  | nil => simp
  | cons c t ih =>
    cases a with
    | nil => simp at h
    | cons d a =>
      simp only [List.cons_append, List.isPrefixOf]
      rw [ih a (by simpa using h)]


/-! ### `stepP` in closed form (this is where the generated definitions are unfolded) -/

/-- the header line check: `RESULT ` + a non-negative Python integer -/
def headerLenC (line : Bytes) : Option Int :=
  if RESULT_TOKEN_START.isPrefixOf line then
    match parseInt (line.drop 7) with
    | none => none
    | some n => if n < 0 then none else some n
  else none

def toUnknown (p : Lst) : Lst := { p with ls := .UNKNOWN, buf := [], event := none }

/-- the pending result takes what it still needs from the buffer -/
def takeBody (p : Lst) (n : Int) : Lst :=
  { p with result := p.result ++ p.buf.take (n - (p.result.length : Int)).toNat,
           buf := p.buf.drop (n - (p.result.length : Int)).toNat }

def bodyC (h : Bytes → HRes) (p : Lst) (n : Int) : StepR :=
  if n - (p.result.length : Int) < 0 then { p := p, err := some .negSlice }
  else if n - ((takeBody p n).result.length : Int) = 0 then
    { handled h (takeBody p n) with again := !(takeBody p n).buf.isEmpty }
  else { p := takeBody p n, again := !(takeBody p n).buf.isEmpty }

/-- the state right after a good header line: the line is consumed, the length is known -/
def afterHeader (p : Lst) (pos : Nat) (n : Int) : Lst :=
  { p with buf := p.buf.drop (pos + 1), resultlen := some n }

def headerC (h : Bytes → HRes) (p : Lst) : StepR :=
  match findNL p.buf with
  | none => { p := p }
  | some pos =>
    match headerLenC (p.buf.take pos) with
    | some n => bodyC h (afterHeader p pos n) n       -- the result is gathered in the same call
    | none => { p := toUnknown p, outs := [.lstate p.ls .UNKNOWN, .rejected p.event] }

def ackC (p : Lst) : StepR :=
  if p.buf.length < 6 then { p := p }
  else if READY_FOR_EVENTS_TOKEN.isPrefixOf p.buf then
    { p := { p with ls := .READY, buf := p.buf.drop 6, event := none },
      outs := [.lstate p.ls .READY], again := !(p.buf.drop 6).isEmpty }
  else { p := toUnknown p, outs := [.lstate p.ls .UNKNOWN] }

def stepC (h : Bytes → HRes) (p : Lst) : StepR :=
  if p.buf = [] then { p := p }
  else match p.ls with
  | .UNKNOWN => { p := { p with buf := [] } }
  | .ACKNOWLEDGED => ackC p
  | .READY => { p := toUnknown p, outs := [.lstate p.ls .UNKNOWN] }
  | .BUSY =>
    match p.resultlen with
    | none => headerC h p
    | some n => bodyC h p n

theorem headerLen_eq (p : Lst) (line : Bytes) : headerLen p line = headerLenC line := by
  unfold headerLen headerLenC
  simp only [hlsc_g10, hlsc_a15, hlsc_g11, hlsc_a16, hlsc_a17, RESULT_TOKEN_START_LEN, pySliceFrom]
  have h7 : Int.toNat 7 = 7 := rfl
  rw [h7]
  by_cases hpre : RESULT_TOKEN_START.isPrefixOf line = true
  · simp only [hpre, Bool.not_true, if_true]
    cases parseInt (List.drop 7 line) <;> simp
  · simp only [hpre, Bool.not_eq_true] at *
    simp [hpre]

theorem pyFind_eq (b : Bytes) : pyFind b = match findNL b with | none => -1 | some k => (k : Int) := rfl

@[simp] theorem handled_buf (h : Bytes → HRes) (p : Lst) : (handled h p).p.buf = p.buf := by
  unfold handled; cases h p.result <;> simp [afterResult]
@[simp] theorem handled_err (h : Bytes → HRes) (p : Lst) : (handled h p).err = none := by
  unfold handled; cases h p.result <;> simp
@[simp] theorem handled_again (h : Bytes → HRes) (p : Lst) : (handled h p).again = false := by
  unfold handled; cases h p.result <;> simp

theorem bodyStep_eq (h : Bytes → HRes) (p : Lst) (n : Int) :
    bodyStep h p n = bodyC h p n := by
  unfold bodyStep bodyC takeBody
  simp only [hbody_a22, hlsc_g13, hlsc_a23, hlsc_a24, hbody_a25, hlsc_g14, gMore15, hlsc_g15, pySliceTo, pySliceFrom,
    bne_iff_ne, ne_eq, Bool.not_eq_true', beq_iff_eq, Bool.not_not, decide_eq_true_eq, ite_not]
  by_cases h0 : n - (p.result.length : Int) = 0
  · have hk : (n - (p.result.length : Int)).toNat = 0 := by omega
    simp [h0, hk]
  · simp [h0]

theorem busyTail_some (h : Bytes → HRes) (q : Lst) (n : Int) (hq : q.resultlen = some n) :
    busyTail h q = bodyC h q n := by
  simp [busyTail, hlsc_g12, hq, bodyStep_eq]

theorem stepP_eq (h : Bytes → HRes) (p : Lst) : stepP h p = stepC h p := by
  unfold stepP stepC ackC headerC
  by_cases hb : p.buf = []
  · simp [gNoData, hlsc_g0, hb]
  · have hb' : p.buf.isEmpty = false := by simpa using hb
    simp only [gNoData, hlsc_g0, hb, hb', if_false, Bool.not_false, Bool.not_true]
    cases hls : p.ls <;>
      simp only [gUnknown, gAck, gReady, gBusy, hlsc_g1, hlsc_g2, hlsc_g6, hlsc_g7, LS.code, hls] <;> simp
    · -- READY
      simp [toUnknown, hlsc_a10, hls]
    · -- BUSY
      cases hrl : p.resultlen with
      | none =>
        simp only [gNoLen, hlsc_g8, hrl, Option.isNone_none, if_true, gNoNL, hlsc_g9, pyFind_eq]
        rcases Option.eq_none_or_eq_some (findNL p.buf) with hf | ⟨pos, hf⟩
        · simp [hf]
        · simp only [hf]
          have hne : ((pos : Int) == -1) = false := by
            simp
          simp only [hne, Bool.false_eq_true, if_false, headerLen_eq, hlsc_a13, hlsc_a14, pySliceTo, pySliceFrom,
            Int.toNat_natCast, hlsc_a20, toUnknown, hls]
          have h1 : ((pos : Int) + 1).toNat = pos + 1 := by omega
          rw [h1]
          cases hh : headerLenC (List.take pos p.buf) with
          | none => simp [hrl]
          | some n =>
            simp only []
            rw [busyTail_some h _ n rfl]
            simp [afterHeader, hls]
      | some n =>
        simp only [gNoLen, hlsc_g8, hrl, Option.isNone_some, Bool.false_eq_true, if_false]
        rw [busyTail_some h p n hrl]
    · -- ACKNOWLEDGED
      simp only [gShort, hlsc_g3, gReadyTok, hlsc_g4, gMore5, hlsc_g5, hlsc_a6, hlsc_a8, READY_FOR_EVENTS_LEN,
        pySliceFrom, toUnknown, hls, ilt_iff]
      have h6 : Int.toNat 6 = 6 := rfl
      rw [h6]
      by_cases hl : p.buf.length < 6
      · have : (p.buf.length : Int) < 6 := by omega
        simp [hl, this]
      · have : ¬ (p.buf.length : Int) < 6 := by omega
        simp only [hl, this, if_false]
        by_cases hp : READY_FOR_EVENTS_TOKEN.isPrefixOf p.buf = true
        · simp [hp, List.isPrefixOf_iff_prefix.mp hp]
        · have hp' : ¬ READY_FOR_EVENTS_TOKEN <+: p.buf := fun hh => hp (List.isPrefixOf_iff_prefix.mpr hh)
          simp [hp, hp']
    · -- UNKNOWN
      simp [hlsc_a4]


/-- the parser's data invariant: a pending result never exceeds the announced length -/
def Wf (p : Lst) : Prop :=
  match p.resultlen with
  | none => p.result = []
  | some n => (p.result.length : Int) ≤ n

def app (p : Lst) (x : Bytes) : Lst := { p with buf := p.buf ++ x }

@[simp] theorem app_nil (p : Lst) : app p [] = p := by simp [app]
@[simp] theorem app_buf (p : Lst) (x : Bytes) : (app p x).buf = p.buf ++ x := rfl
@[simp] theorem app_ls (p : Lst) (x : Bytes) : (app p x).ls = p.ls := rfl
@[simp] theorem app_resultlen (p : Lst) (x : Bytes) : (app p x).resultlen = p.resultlen := rfl
@[simp] theorem app_result (p : Lst) (x : Bytes) : (app p x).result = p.result := rfl
@[simp] theorem app_event (p : Lst) (x : Bytes) : (app p x).event = p.event := rfl
theorem app_wf (p : Lst) (x : Bytes) : Wf (app p x) ↔ Wf p := by simp [Wf]

theorem headerLenC_nonneg (line : Bytes) (n : Int) (h : headerLenC line = some n) : 0 ≤ n := by
  unfold headerLenC at h
  split at h
  · split at h
    · simp at h
    · rename_i m hm
      split at h
      · simp at h
      · simp at h; omega
  · simp at h

@[simp] theorem handled_resultlen (h : Bytes → HRes) (p : Lst) : (handled h p).p.resultlen = none := by
  unfold handled; cases h p.result <;> simp [afterResult]
@[simp] theorem handled_result (h : Bytes → HRes) (p : Lst) : (handled h p).p.result = [] := by
  unfold handled; cases h p.result <;> simp [afterResult, hlsc_a27]

theorem takeBody_len (p : Lst) (n : Int) (hn : (p.result.length : Int) ≤ n) :
    ((takeBody p n).result.length : Int) ≤ n := by
  simp [takeBody]; omega

theorem ackC_wf (p : Lst) (hw : Wf p) : (ackC p).err = none ∧ Wf (ackC p).p := by
  unfold ackC
  repeat' split
  all_goals simp_all [Wf, toUnknown]

theorem bodyC_wf (h : Bytes → HRes) (p : Lst) (n : Int) (hw : Wf p) (hr : p.resultlen = some n) :
    (bodyC h p n).err = none ∧ Wf (bodyC h p n).p := by
  have hn : (p.result.length : Int) ≤ n := by simpa [Wf, hr] using hw
  unfold bodyC
  split
  · omega
  · split
    · simp [Wf]
    · refine ⟨rfl, ?_⟩
      have := takeBody_len p n hn
      simp only [Wf]
      have h2 : (takeBody p n).resultlen = some n := by simp [takeBody, hr]
      simp [h2]; exact this

theorem afterHeader_wf (p : Lst) (pos : Nat) (n : Int) (hw : Wf p) (hr : p.resultlen = none) (hn : 0 ≤ n) :
    Wf (afterHeader p pos n) := by
  have : p.result = [] := by simpa [Wf, hr] using hw
  simp [Wf, afterHeader, this, hn]

theorem headerC_wf (h : Bytes → HRes) (p : Lst) (hw : Wf p) (hr : p.resultlen = none) :
    (headerC h p).err = none ∧ Wf (headerC h p).p := by
  rcases Option.eq_none_or_eq_some (findNL p.buf) with hf | ⟨pos, hf⟩
  · simp only [headerC, hf]; exact ⟨trivial, hw⟩
  · rcases Option.eq_none_or_eq_some (headerLenC (p.buf.take pos)) with hh | ⟨n, hh⟩
    · simp only [headerC, hf, hh]; exact ⟨trivial, by simpa [Wf, toUnknown] using hw⟩
    · simp only [headerC, hf, hh]
      exact bodyC_wf h _ n (afterHeader_wf p pos n hw hr (headerLenC_nonneg _ _ hh)) rfl

theorem stepC_nil (h : Bytes → HRes) (p : Lst) (hb : p.buf = []) : stepC h p = { p := p } := by simp [stepC, hb]
theorem stepC_unknown (h : Bytes → HRes) (p : Lst) (hb : p.buf ≠ []) (hl : p.ls = .UNKNOWN) :
    stepC h p = { p := { p with buf := [] } } := by simp [stepC, hb, hl]
theorem stepC_ack (h : Bytes → HRes) (p : Lst) (hb : p.buf ≠ []) (hl : p.ls = .ACKNOWLEDGED) :
    stepC h p = ackC p := by simp [stepC, hb, hl]
theorem stepC_ready (h : Bytes → HRes) (p : Lst) (hb : p.buf ≠ []) (hl : p.ls = .READY) :
    stepC h p = { p := toUnknown p, outs := [.lstate p.ls .UNKNOWN] } := by simp [stepC, hb, hl]
theorem stepC_header (h : Bytes → HRes) (p : Lst) (hb : p.buf ≠ []) (hl : p.ls = .BUSY) (hr : p.resultlen = none) :
    stepC h p = headerC h p := by simp [stepC, hb, hl, hr]
theorem stepC_body (h : Bytes → HRes) (p : Lst) (n : Int) (hb : p.buf ≠ []) (hl : p.ls = .BUSY) (hr : p.resultlen = some n) :
    stepC h p = bodyC h p n := by simp [stepC, hb, hl, hr]

theorem stepC_wf (h : Bytes → HRes) (p : Lst) (hw : Wf p) : (stepC h p).err = none ∧ Wf (stepC h p).p := by
  by_cases hb : p.buf = []
  · rw [stepC_nil h p hb]; exact ⟨rfl, hw⟩
  · cases hl : p.ls
    · rw [stepC_ready h p hb hl]; exact ⟨rfl, by simpa [Wf, toUnknown] using hw⟩
    · rcases Option.eq_none_or_eq_some p.resultlen with hr | ⟨n, hr⟩
      · rw [stepC_header h p hb hl hr]; exact headerC_wf h p hw hr
      · rw [stepC_body h p n hb hl hr]; exact bodyC_wf h p n hw hr
    · rw [stepC_ack h p hb hl]; exact ackC_wf p hw
    · rw [stepC_unknown h p hb hl]; exact ⟨rfl, by simpa [Wf] using hw⟩

/-! measure -/
theorem ackC_mu (p : Lst) (ha : (ackC p).again = true) : mu (ackC p).p < mu p := by
  by_cases h1 : p.buf.length < 6
  · simp [ackC, h1] at ha
  · by_cases h2 : READY_FOR_EVENTS_TOKEN.isPrefixOf p.buf = true
    · simp only [ackC, h1, h2, if_true, if_false, mu, List.length_drop]
      split <;> omega
    · simp [ackC, h1, h2] at ha

theorem bodyC_mu (h : Bytes → HRes) (p : Lst) (n : Int) (hb : p.buf ≠ []) (hr : p.resultlen = some n)
    (ha : (bodyC h p n).again = true) : mu (bodyC h p n).p < mu p := by
  have hbl : 0 < p.buf.length := List.length_pos_iff.mpr hb
  by_cases h1 : n - (p.result.length : Int) < 0
  · simp [bodyC, h1] at ha
  · by_cases h2 : n - ((takeBody p n).result.length : Int) = 0
    · simp only [bodyC, h1, h2, if_true, if_false, mu, handled_resultlen, handled_buf, hr]
      simp [takeBody]; omega
    · simp only [bodyC, h1, h2, if_true, if_false, mu, hr]
      have h3 : (takeBody p n).resultlen = some n := by simp [takeBody, hr]
      simp only [h3]
      simp [takeBody] at h2 ⊢
      omega

theorem bodyC_again_nil (h : Bytes → HRes) (q : Lst) (n : Int) (hq : q.buf = []) : (bodyC h q n).again = false := by
  unfold bodyC
  split
  · rfl
  · split <;> simp [takeBody, hq]

theorem headerC_mu (h : Bytes → HRes) (p : Lst) (hr : p.resultlen = none) (ha : (headerC h p).again = true) :
    mu (headerC h p).p < mu p := by
  rcases Option.eq_none_or_eq_some (findNL p.buf) with hf | ⟨pos, hf⟩
  · simp [headerC, hf] at ha
  · have := findNL_lt _ _ hf
    rcases Option.eq_none_or_eq_some (headerLenC (p.buf.take pos)) with hh | ⟨n, hh⟩
    · simp [headerC, hf, hh] at ha
    · simp only [headerC, hf, hh] at ha ⊢
      by_cases hq : (afterHeader p pos n).buf = []
      · rw [bodyC_again_nil h _ n hq] at ha; cases ha
      · have h1 := bodyC_mu h _ n hq rfl ha
        have h2 : mu (afterHeader p pos n) < mu p := by
          simp [mu, afterHeader, hr]; omega
        omega

theorem stepC_mu (h : Bytes → HRes) (p : Lst) (ha : (stepC h p).again = true) : mu (stepC h p).p < mu p := by
  by_cases hb : p.buf = []
  · rw [stepC_nil h p hb] at ha; simp at ha
  · cases hl : p.ls
    · rw [stepC_ready h p hb hl] at ha; simp at ha
    · rcases Option.eq_none_or_eq_some p.resultlen with hr | ⟨n, hr⟩
      · rw [stepC_header h p hb hl hr] at ha ⊢; exact headerC_mu h p hr ha
      · rw [stepC_body h p n hb hl hr] at ha ⊢; exact bodyC_mu h p n hb hr ha
    · rw [stepC_ack h p hb hl] at ha ⊢; exact ackC_mu p ha
    · rw [stepC_unknown h p hb hl] at ha; simp at ha

/-! the recursion -/
theorem runHL_succ (h : Bytes → HRes) (k : Nat) (s : S) (he : s.err = none) :
    runHL h (k + 1) s =
      if (stepC h s.p).again then
        runHL h k { p := (stepC h s.p).p, outs := s.outs ++ (stepC h s.p).outs, err := (stepC h s.p).err }
      else { p := (stepC h s.p).p, outs := s.outs ++ (stepC h s.p).outs, err := (stepC h s.p).err } := by
  simp [runHL, he, stepP_eq]

theorem runHL_fuel (h : Bytes → HRes) : ∀ (k k' : Nat) (s : S), s.err = none → Wf s.p → mu s.p < k → mu s.p < k' →
    runHL h k s = runHL h k' s := by
  intro k
  induction k with
  | zero => intro k' s _ _ hk; omega
  | succ k ih =>
    intro k' s he hw hk hk'
    cases k' with
    | zero => omega
    | succ k' =>
      rw [runHL_succ h k s he, runHL_succ h k' s he]
      by_cases ha : (stepC h s.p).again = true
      · simp only [ha, if_true]
        have hm := stepC_mu h s.p ha
        have hwf := stepC_wf h s.p hw
        exact ih k' _ hwf.1 hwf.2 (by simp; omega) (by simp; omega)
      · simp [ha]

theorem runHL_ok (h : Bytes → HRes) : ∀ (k : Nat) (s : S), s.err = none → Wf s.p → mu s.p < k →
    (runHL h k s).err = none ∧ Wf (runHL h k s).p := by
  intro k
  induction k with
  | zero => intro s _ _ hk; omega
  | succ k ih =>
    intro s he hw hk
    rw [runHL_succ h k s he]
    have hwf := stepC_wf h s.p hw
    by_cases ha : (stepC h s.p).again = true
    · simp only [ha, if_true]
      have hm := stepC_mu h s.p ha
      exact ih _ hwf.1 hwf.2 (by simp; omega)
    · simp [ha, hwf.1, hwf.2]


/-- how one call body relates to the same call body with more bytes behind the buffer -/
inductive Cls (h : Bytes → HRes) (p : Lst) (x : Bytes) : Prop
  | again : (stepC h p).again = true → stepC h (app p x) = { stepC h p with p := app (stepC h p).p x } → Cls h p x
  | wait : stepC h p = { p := p } → Cls h p x
  | unk : (stepC h p).again = false → (stepC h p).p.ls = .UNKNOWN → (stepC h p).p.buf = [] →
      stepC h (app p x) = stepC h p → Cls h p x
  | yld : (stepC h p).again = false → (stepC h p).p.buf = [] → mu (stepC h p).p < mu p →
      stepC h (app p x) = { stepC h p with p := app (stepC h p).p x, again := !x.isEmpty } → Cls h p x
  | part : (stepC h p).again = false → (stepC h p).outs = [] → (stepC h p).p.buf = [] →
      (x ≠ [] → stepC h (app p x) = stepC h (app (stepC h p).p x)) → Cls h p x

theorem app_buf_ne (p : Lst) (x : Bytes) (hb : p.buf ≠ []) : (app p x).buf ≠ [] := by
  simp [app, hb]

theorem cls_ack (h : Bytes → HRes) (p : Lst) (x : Bytes) (hb : p.buf ≠ []) (hl : p.ls = .ACKNOWLEDGED) : Cls h p x := by
  have hb' := app_buf_ne p x hb
  have hl' : (app p x).ls = .ACKNOWLEDGED := hl
  by_cases h1 : p.buf.length < 6
  · apply Cls.wait; rw [stepC_ack h p hb hl]; simp [ackC, h1]
  · have e1 : READY_FOR_EVENTS_TOKEN.isPrefixOf (p.buf ++ x) = READY_FOR_EVENTS_TOKEN.isPrefixOf p.buf :=
      isPrefixOf_append_of_le _ _ _ (by simp [READY_FOR_EVENTS_TOKEN]; omega)
    have e2 : (p.buf ++ x).drop 6 = p.buf.drop 6 ++ x := List.drop_append_of_le_length (by omega)
    have e3 : ¬ (p.buf ++ x).length < 6 := by simp; omega
    by_cases h2 : READY_FOR_EVENTS_TOKEN.isPrefixOf p.buf = true
    · by_cases h3 : p.buf.drop 6 = []
      · apply Cls.yld
        · rw [stepC_ack h p hb hl]; simp [ackC, h1, h2, h3]
        · rw [stepC_ack h p hb hl]; simp [ackC, h1, h2, h3]
        · rw [stepC_ack h p hb hl]; simp [ackC, h1, h2, h3, mu]; omega
        · rw [stepC_ack h p hb hl, stepC_ack h _ hb' hl']
          simp only [ackC, app_buf, e1, e2, e3, h1, h2, h3, if_true, if_false]
          simp [app, h3]
      · apply Cls.again
        · rw [stepC_ack h p hb hl]; simp [ackC, h1, h2, h3]
        · rw [stepC_ack h p hb hl, stepC_ack h _ hb' hl']
          simp only [ackC, app_buf, e1, e2, e3, h1, h2, if_true, if_false]
          have e4 : (p.buf.drop 6 ++ x).isEmpty = (p.buf.drop 6).isEmpty := by
            cases hd : p.buf.drop 6 <;> simp_all
          simp [app, h3, e4]
    · apply Cls.unk
      · rw [stepC_ack h p hb hl]; simp [ackC, h1, h2]
      · rw [stepC_ack h p hb hl]; simp [ackC, h1, h2, toUnknown]
      · rw [stepC_ack h p hb hl]; simp [ackC, h1, h2, toUnknown]
      · rw [stepC_ack h p hb hl, stepC_ack h _ hb' hl']
        simp only [ackC, app_buf, e1, e3, h1, h2, if_false]
        simp [app, toUnknown]


theorem isEmpty_append_left (a x : Bytes) (ha : a ≠ []) : (a ++ x).isEmpty = a.isEmpty := by
  cases a <;> simp_all

/-- `bodyC` after its first test, as a function of the state that took its share of the buffer -/
def bodyK (h : Bytes → HRes) (q : Lst) (n : Int) : StepR :=
  if n - (q.result.length : Int) = 0 then { handled h q with again := !q.buf.isEmpty }
  else { p := q, again := !q.buf.isEmpty }

theorem bodyC_eq_K (h : Bytes → HRes) (p : Lst) (n : Int) (hn : ¬ n - (p.result.length : Int) < 0) :
    bodyC h p n = bodyK h (takeBody p n) n := by
  simp [bodyC, bodyK, hn]

theorem takeBody_app_small (p : Lst) (x : Bytes) (n : Int)
    (hk : (n - (p.result.length : Int)).toNat ≤ p.buf.length) :
    takeBody (app p x) n = app (takeBody p n) x := by
  simp only [takeBody, app]
  rw [List.take_append_of_le_length hk, List.drop_append_of_le_length hk]

theorem takeBody_app_big (p : Lst) (x : Bytes) (n : Int) (hn : (p.result.length : Int) ≤ n)
    (hk : p.buf.length ≤ (n - (p.result.length : Int)).toNat) :
    takeBody (app p x) n = takeBody (app (takeBody p n) x) n := by
  have t1 : p.buf.take (n - (p.result.length : Int)).toNat = p.buf := List.take_of_length_le hk
  have t2 : p.buf.drop (n - (p.result.length : Int)).toNat = [] := List.drop_of_length_le hk
  have e : (n - ((p.result ++ p.buf).length : Int)).toNat = (n - (p.result.length : Int)).toNat - p.buf.length := by
    simp; omega
  simp only [takeBody, app, t1, t2, List.take_append, List.drop_append, List.nil_append, e, List.append_assoc]

theorem handled_app (h : Bytes → HRes) (q : Lst) (x : Bytes) :
    handled h (app q x) = { handled h q with p := app (handled h q).p x } := by
  unfold handled
  simp only [app_result, app_event, app_ls]
  cases h q.result <;> simp [afterResult, app, hlsc_a27]

/-- classification of a call body that ends in the result-gathering part run on state `q`
    (`q = p` for a pending result, `q = afterHeader p …` right after a header line) -/
theorem cls_of_body (h : Bytes → HRes) (p q : Lst) (x : Bytes) (n : Int) (hpb : p.buf ≠ [])
    (hl : q.ls = .BUSY) (hr : q.resultlen = some n) (hn : (q.result.length : Int) ≤ n)
    (E1 : stepC h p = bodyC h q n) (E2 : stepC h (app p x) = bodyC h (app q x) n) : Cls h p x := by
  have hn' : ¬ n - (q.result.length : Int) < 0 := by omega
  have hn'' : ¬ n - ((app q x).result.length : Int) < 0 := by simpa using hn'
  have hpl : 0 < p.buf.length := List.length_pos_iff.mpr hpb
  by_cases hk : (n - (q.result.length : Int)).toNat ≤ q.buf.length
  · -- the result completes inside the present buffer
    have hc : n - ((takeBody q n).result.length : Int) = 0 := by simp [takeBody]; omega
    have e1 : stepC h p = { handled h (takeBody q n) with again := !(takeBody q n).buf.isEmpty } := by
      rw [E1, bodyC_eq_K h q n hn']; simp [bodyK, hc]
    have e2 : stepC h (app p x) =
        { handled h (app (takeBody q n) x) with again := !(app (takeBody q n) x).buf.isEmpty } := by
      rw [E2, bodyC_eq_K h _ n hn'', takeBody_app_small q x n hk]; simp [bodyK, hc]
    have e3 := handled_app h (takeBody q n) x
    by_cases h3 : (takeBody q n).buf = []
    · apply Cls.yld
      · rw [e1]; simp [h3]
      · rw [e1]; simp [h3]
      · rw [e1]; simp [h3, mu]; omega
      · rw [e2, e1, e3]; simp [h3]
    · apply Cls.again
      · rw [e1]; simp [h3]
      · rw [e2, e1, e3]; simp [h3, isEmpty_append_left _ x h3]
  · -- the buffer is swallowed whole and more is needed
    have hk' : q.buf.length ≤ (n - (q.result.length : Int)).toNat := by omega
    have t1 : q.buf.take (n - (q.result.length : Int)).toNat = q.buf := List.take_of_length_le hk'
    have t2 : q.buf.drop (n - (q.result.length : Int)).toNat = [] := List.drop_of_length_le hk'
    have hc : ¬ n - ((takeBody q n).result.length : Int) = 0 := by simp [takeBody, t1]; omega
    have e1 : stepC h p = { p := takeBody q n, again := false } := by
      rw [E1, bodyC_eq_K h q n hn']; simp [bodyK, hc]; simp [takeBody, t2] <;> omega
    apply Cls.part
    · rw [e1]
    · rw [e1]
    · rw [e1]; simp [takeBody, t2] <;> omega
    · intro hx
      rw [e1]
      have hb2 : (app (takeBody q n) x).buf ≠ [] := by simp [app, takeBody, t2, hx]
      have hl2 : (app (takeBody q n) x).ls = .BUSY := by simp [takeBody, hl]
      have hr2 : (app (takeBody q n) x).resultlen = some n := by simp [takeBody, hr]
      have hn2 : ¬ n - ((app (takeBody q n) x).result.length : Int) < 0 := by
        simp [takeBody, t1]; omega
      rw [E2, stepC_body h _ n hb2 hl2 hr2, bodyC_eq_K h _ n hn'', bodyC_eq_K h _ n hn2,
        takeBody_app_big q x n hn hk']

theorem cls_body (h : Bytes → HRes) (p : Lst) (x : Bytes) (n : Int) (hb : p.buf ≠ []) (hl : p.ls = .BUSY)
    (hr : p.resultlen = some n) (hw : Wf p) : Cls h p x :=
  cls_of_body h p p x n hb hl hr (by simpa [Wf, hr] using hw) (stepC_body h p n hb hl hr)
    (stepC_body h _ n (app_buf_ne p x hb) hl hr)

theorem cls_header (h : Bytes → HRes) (p : Lst) (x : Bytes) (hb : p.buf ≠ []) (hl : p.ls = .BUSY)
    (hr : p.resultlen = none) (hw : Wf p) : Cls h p x := by
  have hb' := app_buf_ne p x hb
  have hl' : (app p x).ls = .BUSY := hl
  have hr' : (app p x).resultlen = none := hr
  rcases Option.eq_none_or_eq_some (findNL p.buf) with hf | ⟨pos, hf⟩
  · apply Cls.wait; rw [stepC_header h p hb hl hr]; simp [headerC, hf]
  · have hlt := findNL_lt _ _ hf
    have f1 : findNL (p.buf ++ x) = some pos := findNL_append_some _ _ _ hf
    have f2 : (p.buf ++ x).take pos = p.buf.take pos := List.take_append_of_le_length (by omega)
    have f3 : (p.buf ++ x).drop (pos + 1) = p.buf.drop (pos + 1) ++ x := List.drop_append_of_le_length (by omega)
    rcases Option.eq_none_or_eq_some (headerLenC (p.buf.take pos)) with hh | ⟨n, hh⟩
    · apply Cls.unk
      · rw [stepC_header h p hb hl hr]; simp [headerC, hf, hh]
      · rw [stepC_header h p hb hl hr]; simp [headerC, hf, hh, toUnknown]
      · rw [stepC_header h p hb hl hr]; simp [headerC, hf, hh, toUnknown]
      · rw [stepC_header h p hb hl hr, stepC_header h _ hb' hl' hr']
        simp only [headerC, app_buf, f1, f2, hf, hh]
        simp [app, toUnknown]
    · have hres : p.result = [] := by simpa [Wf, hr] using hw
      have hn0 := headerLenC_nonneg _ _ hh
      have ea : afterHeader (app p x) pos n = app (afterHeader p pos n) x := by
        simp [afterHeader, app, f3]
      refine cls_of_body h p (afterHeader p pos n) x n hb (by simp [afterHeader, hl]) rfl
        (by simp [afterHeader, hres, hn0]) ?_ ?_
      · rw [stepC_header h p hb hl hr]; simp only [headerC, hf, hh]
      · rw [stepC_header h _ hb' hl' hr']; simp only [headerC, app_buf, f1, f2, hh, ← ea]

theorem stepC_cls (h : Bytes → HRes) (p : Lst) (x : Bytes) (hw : Wf p) : Cls h p x := by
  by_cases hb : p.buf = []
  · exact Cls.wait (stepC_nil h p hb)
  · cases hl : p.ls
    · -- READY
      have hb' := app_buf_ne p x hb
      apply Cls.unk
      · rw [stepC_ready h p hb hl]
      · rw [stepC_ready h p hb hl]; simp [toUnknown]
      · rw [stepC_ready h p hb hl]; simp [toUnknown]
      · rw [stepC_ready h p hb hl, stepC_ready h _ hb' hl]; simp [toUnknown, app]
    · rcases Option.eq_none_or_eq_some p.resultlen with hr | ⟨n, hr⟩
      · exact cls_header h p x hb hl hr hw
      · exact cls_body h p x n hb hl hr hw
    · exact cls_ack h p x hb hl
    · have hb' := app_buf_ne p x hb
      apply Cls.unk
      · rw [stepC_unknown h p hb hl]
      · rw [stepC_unknown h p hb hl]; simp [hl]
      · rw [stepC_unknown h p hb hl]
      · rw [stepC_unknown h p hb hl, stepC_unknown h _ hb' hl]; simp [app]


/-! ### the recursion commutes with bytes arriving later -/

def sapp (s : S) (x : Bytes) : S := { s with p := app s.p x }

theorem mu_app (p : Lst) (x : Bytes) : mu (app p x) = mu p + 2 * x.length := by
  show 2 * (p.buf ++ x).length + (if p.resultlen.isSome then 1 else 0)
     = 2 * p.buf.length + (if p.resultlen.isSome then 1 else 0) + 2 * x.length
  rw [List.length_append]; omega

theorem lst_buf_nil (q : Lst) (hq : q.buf = []) : ({ q with buf := [] } : Lst) = q := by
  cases q; simp_all

theorem sapp_nil (s : S) : sapp s [] = s := by cases s; simp [sapp]

theorem runHL_nil (h : Bytes → HRes) (k : Nat) (s : S) (he : s.err = none) (hb : s.p.buf = []) :
    runHL h (k + 1) s = s := by
  rw [runHL_succ h k s he, stepC_nil h s.p hb]
  cases s; simp_all

theorem run_append (h : Bytes → HRes) (x : Bytes) : ∀ (k : Nat) (s : S) (K K' : Nat),
    s.err = none → Wf s.p → mu s.p < k → mu (app s.p x) < K → mu (app (runHL h k s).p x) < K' →
    runHL h K (sapp s x) = runHL h K' (sapp (runHL h k s) x) := by
  intro k
  induction k with
  | zero => intro s K K' _ _ hk; omega
  | succ k ih =>
    intro s K K' he hw hk hK hK'
    have hwf := stepC_wf h s.p hw
    have hwa : Wf (app s.p x) := (app_wf _ _).mpr hw
    rw [runHL_succ h k s he] at hK' ⊢
    cases K with
    | zero => omega
    | succ K0 =>
    have hes : (sapp s x).err = none := he
    rw [runHL_succ h K0 (sapp s x) hes]
    have hp : (sapp s x).p = app s.p x := rfl
    have hoo : (sapp s x).outs = s.outs := rfl
    rw [hp, hoo]
    have hsa : ∀ t : S, sapp t x = { p := app t.p x, outs := t.outs, err := t.err } := fun t => rfl
    simp only [hsa]
    rcases stepC_cls h s.p x hw with ⟨ha, e⟩ | e | ⟨ha, hu, hbn, e⟩ | ⟨ha, hbn, hm, e⟩ | ⟨ha, ho, hbn, e⟩
    · -- again
      have hm := stepC_mu h s.p ha
      simp only [ha, if_true] at hK' ⊢
      rw [e]
      simp only [ha, if_true]
      exact ih { p := (stepC h s.p).p, outs := s.outs ++ (stepC h s.p).outs, err := (stepC h s.p).err } K0 K'
        hwf.1 hwf.2 (by simp; omega) (by rw [mu_app] at hK ⊢; simp; omega) hK'
    · -- wait
      rw [e] at hK' ⊢
      simp only [Bool.false_eq_true, if_false, List.append_nil] at hK' ⊢
      have back := runHL_succ h K0 (sapp s x) hes
      rw [hp, hoo] at back
      rw [← back, hsa, he]
      exact runHL_fuel h _ _ _ rfl hwa hK hK'
    · -- unknown
      simp only [ha, Bool.false_eq_true, if_false] at hK' ⊢
      rw [e]
      simp only [ha, Bool.false_eq_true, if_false]
      cases K' with
      | zero => omega
      | succ K1 =>
        by_cases hx : x = []
        · subst hx
          rw [app_nil]
          exact (runHL_nil h K1 _ hwf.1 hbn).symm
        · have hb2 : (app (stepC h s.p).p x).buf ≠ [] := by simp [app, hbn, hx]
          rw [runHL_succ h K1 _ hwf.1, stepC_unknown h _ hb2 hu]
          simp [app, hwf.1, lst_buf_nil _ hbn]
    · -- yield
      simp only [ha, Bool.false_eq_true, if_false] at hK' ⊢
      rw [e]
      by_cases hx : x = []
      · subst hx
        rw [app_nil]
        have hfe : (!([] : Bytes).isEmpty) = false := rfl
        rw [hfe, if_neg (by simp)]
        cases K' with
        | zero => omega
        | succ K1 => exact (runHL_nil h K1 _ hwf.1 hbn).symm
      · have hte : (!x.isEmpty) = true := by
          cases x with
          | nil => exact absurd rfl hx
          | cons _ _ => rfl
        rw [hte, if_pos rfl]
        refine runHL_fuel h K0 K' _ hwf.1 ((app_wf _ _).mpr hwf.2) ?_ hK'
        rw [mu_app] at hK ⊢; omega
    · -- partial result
      simp only [ha, Bool.false_eq_true, if_false] at hK' ⊢
      by_cases hx : x = []
      · subst hx
        simp only [app_nil, ha, Bool.false_eq_true, if_false]
        cases K' with
        | zero => omega
        | succ K1 => exact (runHL_nil h K1 _ hwf.1 hbn).symm
      · rw [e hx]
        cases K' with
        | zero => omega
        | succ K1 =>
          rw [runHL_succ h K1 _ hwf.1]
          simp only [ho, List.append_nil]
          have hw2 : Wf (app (stepC h s.p).p x) := (app_wf _ _).mpr hwf.2
          have hwf2 := stepC_wf h _ hw2
          by_cases ha2 : (stepC h (app (stepC h s.p).p x)).again = true
          · simp only [ha2, if_true]
            have hm2 := stepC_mu h _ ha2
            have hm3 : mu (stepC h (app (stepC h s.p).p x)).p < mu (app s.p x) := by
              rw [← e hx]; rw [← e hx] at ha2; exact stepC_mu h _ ha2
            exact runHL_fuel h K0 K1 _ hwf2.1 hwf2.2 (by simp; omega) (by simp; omega)
          · simp [ha2]


/-! ### one event at a time: bookkeeping over the output trace -/

/-- outputs that end an event's stay with the listener: the result handler was called, or the event was rejected -/
def clears : Out → Bool
  | .handler _ _ => true
  | .rejected _ => true
  | _ => false

def isSent : Out → Bool
  | .sent _ => true
  | _ => false

/-- is an event outstanding after the trace, given whether one was before -/
def pendFrom (b : Bool) : List Out → Bool
  | [] => b
  | o :: r => pendFrom (if isSent o then true else if clears o then false else b) r

/-- no event is handed over while another one is outstanding -/
def okFrom (b : Bool) : List Out → Bool
  | [] => true
  | o :: r => (if isSent o then !b else true) && okFrom (if isSent o then true else if clears o then false else b) r

theorem pendFrom_append (b : Bool) (l1 l2 : List Out) : pendFrom b (l1 ++ l2) = pendFrom (pendFrom b l1) l2 := by
  induction l1 generalizing b with
  | nil => rfl
  | cons o l ih => simp [pendFrom, ih]

theorem okFrom_append (b : Bool) (l1 l2 : List Out) :
    okFrom b (l1 ++ l2) = (okFrom b l1 && okFrom (pendFrom b l1) l2) := by
  induction l1 generalizing b with
  | nil => simp [okFrom, pendFrom]
  | cons o l ih => simp [okFrom, pendFrom, ih, Bool.and_assoc]

def NoSent (l : List Out) : Prop := ∀ o ∈ l, isSent o = false

theorem okFrom_noSent (b : Bool) (l : List Out) (h : NoSent l) : okFrom b l = true := by
  induction l generalizing b with
  | nil => rfl
  | cons o l ih =>
    have ho : isSent o = false := h o (by simp)
    simp [okFrom, ho, ih _ (fun x hx => h x (by simp [hx]))]

theorem pendFrom_false_noSent (l : List Out) (h : NoSent l) : pendFrom false l = false := by
  induction l with
  | nil => rfl
  | cons o l ih =>
    have ho : isSent o = false := h o (by simp)
    simp only [pendFrom, ho]
    simpa using ih (fun x hx => h x (by simp [hx]))

theorem pendFrom_clears (b : Bool) (l : List Out) (h : NoSent l) (hc : ∃ o ∈ l, clears o = true) : pendFrom b l = false := by
  induction l generalizing b with
  | nil => simp at hc
  | cons o l ih =>
    have ho : isSent o = false := h o (by simp)
    have hl : NoSent l := fun x hx => h x (by simp [hx])
    simp only [pendFrom, ho]
    by_cases hco : clears o = true
    · simp [hco]; exact pendFrom_false_noSent l hl
    · obtain ⟨x, hx, hcx⟩ := hc
      simp only [List.mem_cons] at hx
      rcases hx with rfl | hx
      · exact absurd hcx hco
      · simp [hco]; exact ih b hl ⟨x, hx, hcx⟩

/-- what one call body of the parser does to the held event -/
def StepOK (p : Lst) (r : StepR) : Prop :=
  r.p.pid = p.pid ∧ NoSent r.outs ∧
  ((r.p.event = p.event ∧ r.p.ls = p.ls ∧ r.outs = []) ∨
   (r.p.event = none ∧ (p.event = none ∨ ∃ o ∈ r.outs, clears o = true)))

theorem handled_stepOK (h : Bytes → HRes) (q : Lst) (a : Bool) : StepOK q { handled h q with again := a } := by
  unfold handled
  cases h q.result <;>
    refine ⟨rfl, by intro o ho; simp at ho; rcases ho with rfl | rfl | rfl <;> rfl, Or.inr ⟨rfl, Or.inr ⟨.handler q.event q.result, by simp, rfl⟩⟩⟩

theorem bodyC_stepOK (h : Bytes → HRes) (p q : Lst) (n : Int) (hq : q.pid = p.pid ∧ q.event = p.event ∧ q.ls = p.ls)
    (hn : (q.result.length : Int) ≤ n) : StepOK p (bodyC h q n) := by
  have hn' : ¬ n - (q.result.length : Int) < 0 := by omega
  rw [bodyC_eq_K h q n hn']
  unfold bodyK
  have ht : (takeBody q n).pid = p.pid ∧ (takeBody q n).event = p.event ∧ (takeBody q n).ls = p.ls := hq
  split
  · have := handled_stepOK h (takeBody q n) (!(takeBody q n).buf.isEmpty)
    obtain ⟨h1, h2, h3⟩ := this
    refine ⟨h1.trans ht.1, h2, ?_⟩
    rcases h3 with ⟨_, _, h33⟩ | ⟨h31, h32⟩
    · unfold handled at h33; cases hh : h (takeBody q n).result <;> simp [hh] at h33
    · exact Or.inr ⟨h31, h32.imp (fun he => ht.2.1 ▸ he) id⟩
  · exact ⟨ht.1, by intro o ho; simp at ho, Or.inl ⟨ht.2.1, ht.2.2, rfl⟩⟩

theorem stepC_stepOK (h : Bytes → HRes) (p : Lst) (hw : Wf p) (hI : p.event.isSome = true → p.ls = .BUSY) :
    StepOK p (stepC h p) := by
  have keep : StepOK p { p := p } := ⟨rfl, by intro o ho; simp at ho, Or.inl ⟨rfl, rfl, rfl⟩⟩
  have evnone : p.ls ≠ .BUSY → p.event = none := by
    intro hne
    cases he : p.event with
    | none => rfl
    | some e => exact absurd (hI (by simp [he])) hne
  by_cases hb : p.buf = []
  · rw [stepC_nil h p hb]; exact keep
  · cases hl : p.ls
    · rw [stepC_ready h p hb hl]
      exact ⟨rfl, by intro o ho; simp at ho; subst ho; rfl, Or.inr ⟨rfl, Or.inl (evnone (by simp [hl]))⟩⟩
    · rcases Option.eq_none_or_eq_some p.resultlen with hr | ⟨n, hr⟩
      · rw [stepC_header h p hb hl hr]
        unfold headerC
        rcases Option.eq_none_or_eq_some (findNL p.buf) with hf | ⟨pos, hf⟩
        · simp only [hf]; exact keep
        · rcases Option.eq_none_or_eq_some (headerLenC (p.buf.take pos)) with hh | ⟨m, hh⟩
          · simp only [hf, hh]
            exact ⟨rfl, by intro o ho; simp at ho; rcases ho with rfl | rfl <;> rfl,
              Or.inr ⟨rfl, Or.inr ⟨.rejected p.event, by simp, rfl⟩⟩⟩
          · simp only [hf, hh]
            have hres : p.result = [] := by simpa [Wf, hr] using hw
            exact bodyC_stepOK h p (afterHeader p pos m) m ⟨rfl, rfl, rfl⟩
              (by simp [afterHeader, hres, headerLenC_nonneg _ _ hh])
      · rw [stepC_body h p n hb hl hr]
        exact bodyC_stepOK h p p n ⟨rfl, rfl, rfl⟩ (by simpa [Wf, hr] using hw)
    · rw [stepC_ack h p hb hl]
      unfold ackC
      have hen := evnone (by simp [hl])
      split
      · exact keep
      · split
        · exact ⟨rfl, by intro o ho; simp at ho; subst ho; rfl, Or.inr ⟨rfl, Or.inl hen⟩⟩
        · exact ⟨rfl, by intro o ho; simp at ho; subst ho; rfl, Or.inr ⟨rfl, Or.inl hen⟩⟩
    · rw [stepC_unknown h p hb hl]
      exact ⟨rfl, by intro o ho; simp at ho, Or.inl ⟨rfl, rfl, rfl⟩⟩


/-- the invariant behind "at most one outstanding event" -/
structure Inv (s : S) : Prop where
  wf : Wf s.p
  busy : s.p.event.isSome = true → s.p.ls = .BUSY ∧ s.p.pid ≠ 0
  pend : pendFrom false s.outs = true → s.p.event.isSome = true
  ok : okFrom false s.outs = true

theorem inv_of_stepOK (s : S) (r : StepR) (hi : Inv s) (hs : StepOK s.p r) (hw : Wf r.p) (e : Option Err) :
    Inv { p := r.p, outs := s.outs ++ r.outs, err := e } := by
  obtain ⟨hpid, hns, hcase⟩ := hs
  refine ⟨hw, ?_, ?_, ?_⟩
  · intro he
    rcases hcase with ⟨h1, h2, _⟩ | ⟨h1, _⟩
    · simp only [] at he ⊢
      rw [h1] at he; rw [h2, hpid]; exact hi.busy he
    · simp only [] at he; rw [h1] at he; cases he
  · intro hp
    simp only [pendFrom_append] at hp
    rcases hcase with ⟨h1, _, h3⟩ | ⟨h1, h2⟩
    · rw [h3] at hp; simp only [pendFrom] at hp
      show r.p.event.isSome = true
      rw [h1]; exact hi.pend hp
    · exfalso
      rcases h2 with h2 | h2
      · have hb : pendFrom false s.outs = false := by
          cases hb : pendFrom false s.outs
          · rfl
          · have := hi.pend hb; rw [h2] at this; cases this
        rw [hb, pendFrom_false_noSent _ hns] at hp; cases hp
      · rw [pendFrom_clears _ _ hns h2] at hp; cases hp
  · show okFrom false (s.outs ++ r.outs) = true
    rw [okFrom_append, hi.ok, okFrom_noSent _ _ hns]; rfl

theorem runHL_inv (h : Bytes → HRes) : ∀ (k : Nat) (s : S), s.err = none → Inv s → Inv (runHL h k s)
  | 0, s, he, hi => by
    simp only [runHL, raise, guard, he]
    exact ⟨hi.wf, hi.busy, hi.pend, hi.ok⟩
  | k + 1, s, he, hi => by
    rw [runHL_succ h k s he]
    have hw := stepC_wf h s.p hi.wf
    have hok := stepC_stepOK h s.p hi.wf (fun hs => (hi.busy hs).1)
    have hi' := inv_of_stepOK s (stepC h s.p) hi hok hw.2 (stepC h s.p).err
    split
    · exact runHL_inv h k _ hw.1 hi'
    · exact hi'

/-- steps that neither touch the held event / parser state nor emit hand-overs, handler calls or rejections -/
def Neutral (l : List Out) : Prop := ∀ o ∈ l, isSent o = false ∧ clears o = false

theorem pendFrom_neutral (b : Bool) (l : List Out) (h : Neutral l) : pendFrom b l = b := by
  induction l generalizing b with
  | nil => rfl
  | cons o l ih =>
    have ho := h o (by simp)
    simp only [pendFrom, ho.1, ho.2]
    exact ih b (fun x hx => h x (by simp [hx]))

def SameCore (p q : Lst) : Prop :=
  q.event = p.event ∧ q.ls = p.ls ∧ q.pid = p.pid ∧ q.resultlen = p.resultlen ∧ q.result = p.result

def NS (s s' : S) : Prop := SameCore s.p s'.p ∧ ∃ l, s'.outs = s.outs ++ l ∧ Neutral l

theorem NS.refl (s : S) : NS s s := ⟨⟨rfl, rfl, rfl, rfl, rfl⟩, [], by simp, by intro o ho; simp at ho⟩
theorem NS.trans {a b c : S} (h1 : NS a b) (h2 : NS b c) : NS a c := by
  obtain ⟨⟨a1, a2, a3, a4, a5⟩, l1, o1, n1⟩ := h1
  obtain ⟨⟨b1, b2, b3, b4, b5⟩, l2, o2, n2⟩ := h2
  refine ⟨⟨b1.trans a1, b2.trans a2, b3.trans a3, b4.trans a4, b5.trans a5⟩, l1 ++ l2, by rw [o2, o1, List.append_assoc], ?_⟩
  intro o ho
  rcases List.mem_append.mp ho with ho | ho
  · exact n1 o ho
  · exact n2 o ho

theorem inv_ns {s s' : S} (hi : Inv s) (h : NS s s') : Inv s' := by
  obtain ⟨⟨a1, a2, a3, a4, a5⟩, l, ho, hn⟩ := h
  refine ⟨?_, ?_, ?_, ?_⟩
  · have := hi.wf; unfold Wf at *; rw [a4, a5]; exact this
  · intro he; rw [a1] at he; rw [a2, a3]; exact hi.busy he
  · intro hp; rw [ho, pendFrom_append, pendFrom_neutral _ _ hn] at hp; rw [a1]; exact hi.pend hp
  · rw [ho, okFrom_append, hi.ok]
    exact okFrom_noSent _ _ (fun o hm => (hn o hm).1)

theorem ns_emit (o : Out) (s : S) (ho : isSent o = false ∧ clears o = false) : NS s (emit o s) := by
  unfold emit guard
  split
  · exact NS.refl s
  · exact ⟨⟨rfl, rfl, rfl, rfl, rfl⟩, [o], rfl, by intro x hx; simp at hx; subst hx; exact ho⟩

theorem ns_setP (f : Lst → Lst) (s : S) (hf : SameCore s.p (f s.p)) : NS s (setP f s) := by
  unfold setP guard
  split
  · exact NS.refl s
  · exact ⟨hf, [], by simp, by intro o ho; simp at ho⟩

theorem ns_raise (e : Err) (s : S) : NS s (raise e s) := by
  unfold raise guard
  split
  · exact NS.refl s
  · exact ⟨⟨rfl, rfl, rfl, rfl, rfl⟩, [], by simp, by intro o ho; simp at ho⟩

theorem ns_err (s : S) (e : Option Err) : NS s { s with err := e } :=
  ⟨⟨rfl, rfl, rfl, rfl, rfl⟩, [], by simp, by intro o ho; simp at ho⟩

theorem ns_ite_emit (c : Bool) (o : Out) (s : S) (ho : isSent o = false ∧ clears o = false) :
    NS s (if c = true then s else emit o s) := by
  split
  · exact NS.refl s
  · exact ns_emit o s ho

theorem ns_flush (s : S) : NS s (flush s).1 := by
  unfold flush
  split
  · exact NS.refl s
  · split
    · exact NS.refl s
    · simp only []
      exact NS.trans (ns_ite_emit _ _ s ⟨rfl, rfl⟩) (ns_setP _ _ ⟨rfl, rfl, rfl, rfl, rfl⟩)

theorem ns_pwrite (c : Bytes) (s : S) : NS s (pwrite c s).1 := by
  unfold pwrite
  simp only []
  split
  · exact NS.refl s
  · split
    · exact NS.refl s
    · split
      · exact NS.refl s
      · have h1 : NS s (setP (fun q => { q with inbuf := pwrite_a2 q.pid q.killing q.stdin q.inClosed q.inbuf c 0 }) s) :=
          ns_setP _ s ⟨rfl, rfl, rfl, rfl, rfl⟩
        have h2 := NS.trans h1 (ns_flush _)
        rcases hf : flush (setP (fun q => { q with inbuf := pwrite_a2 q.pid q.killing q.stdin q.inClosed q.inbuf c 0 }) s) with ⟨s2, r⟩
        rw [hf] at h2
        cases r with
        | none => exact h2
        | some e =>
          simp only []
          split
          · split
            · exact h2
            · exact NS.trans h2 (ns_raise _ _)
          · exact h2

theorem ns_writeEvent (s : S) : NS s (writeEvent s) := by
  unfold writeEvent guard
  split
  · exact NS.refl s
  · simp only []
    split
    · exact NS.refl s
    · split
      · have h2 := ns_flush s
        rcases hf : flush s with ⟨s1, r⟩
        rw [hf] at h2
        cases r with
        | none => exact h2
        | some e =>
          simp only []
          split
          · exact NS.trans h2 (NS.trans (ns_setP _ _ ⟨rfl, rfl, rfl, rfl, rfl⟩) (ns_emit _ _ ⟨rfl, rfl⟩))
          · exact NS.trans h2 (ns_raise _ _)
      · exact NS.refl s


theorem inv_hlsc (h : Bytes → HRes) (s : S) (hi : Inv s) : Inv (hlsc h s) := by
  unfold hlsc
  by_cases he : s.err = none
  · exact runHL_inv h _ s he hi
  · cases hk : mu s.p + 1 with
    | zero => omega
    | succ k =>
      have : s.err.isSome = true := by cases hs : s.err <;> simp_all
      simp only [runHL, this, if_true]; exact hi

theorem inv_readEvent (h : Bytes → HRes) (d : Bytes) (s : S) (hi : Inv s) : Inv (readEvent h d s) := by
  unfold readEvent guard
  split
  · exact hi
  · simp only []
    split
    · exact hi
    · split
      · exact inv_hlsc h _ (inv_ns hi (NS.trans (ns_setP _ s ⟨rfl, rfl, rfl, rfl, rfl⟩) (ns_emit _ _ ⟨rfl, rfl⟩)))
      · unfold feed
        exact inv_hlsc h _ (inv_ns hi (ns_setP _ s ⟨rfl, rfl, rfl, rfl, rfl⟩))

theorem pwrite_ok_pid (c : Bytes) (s : S) (h : (pwrite c s).2 = .ok) : s.p.pid ≠ 0 := by
  unfold pwrite at h
  simp only [] at h
  intro hp
  simp [pwrite_g0, hp] at h

theorem inv_trySend (ev : Nat) (env : Bytes) (s : S) (hi : Inv s) : Inv (trySend ev env s).1 := by
  unfold trySend
  split
  · exact hi
  · split
    · exact hi
    · split
      · rename_i hready
        have hl : s.p.ls = .READY := by simpa using hready
        have hns := ns_pwrite env s
        have hpid : (pwrite env s).2 = .ok → s.p.pid ≠ 0 := pwrite_ok_pid env s
        rcases hw : pwrite env s with ⟨s1, r⟩
        rw [hw] at hns hpid
        have hi1 := inv_ns hi hns
        cases r with
        | epipe => exact hi1
        | ok =>
          simp only []
          split
          · exact hi1
          · rename_i he1
            have he1' : s1.err = none := by simpa using he1
            obtain ⟨⟨c1, c2, c3, c4, c5⟩, _⟩ := hns
            -- the listener held nothing: it was READY
            have hev : s1.p.event = none := by
              cases hev : s1.p.event with
              | none => rfl
              | some e =>
                have := (hi1.busy (by simp [hev])).1
                rw [c2, hl] at this; cases this
            have hpend : pendFrom false s1.outs = false := by
              cases hb : pendFrom false s1.outs
              · rfl
              · have := hi1.pend hb; rw [hev] at this; cases this
            simp only [emit, setP, guard, he1', Option.isSome_none, Bool.false_eq_true, if_false]
            refine ⟨?_, ?_, ?_, ?_⟩
            · exact hi1.wf
            · intro _; exact ⟨rfl, by show s1.p.pid ≠ 0; rw [c3]; exact hpid rfl⟩
            · intro _; rfl
            · show okFrom false ((s1.outs ++ [Out.lstate s1.p.ls LS.BUSY]) ++ [Out.sent ev]) = true
              rw [okFrom_append, okFrom_append, hi1.ok, pendFrom_append, hpend]
              simp [okFrom, pendFrom, isSent, clears]
      · exact hi

theorem inv_die (h : Bytes → HRes) (d : Bytes) (s : S) (hi : Inv s) : Inv (die h d s) := by
  unfold die guard
  split
  · exact hi
  · simp only []
    have h1 : Inv (writeEvent (readEvent h d (setP (fun p => { p with pipeBroken := true }) s))) :=
      inv_ns (inv_readEvent h d _ (inv_ns hi (ns_setP _ s ⟨rfl, rfl, rfl, rfl, rfl⟩))) (ns_writeEvent _)
    generalize writeEvent (readEvent h d (setP (fun p => { p with pipeBroken := true }) s)) = t at h1
    split
    · exact h1
    · rename_i het
      have het' : t.err = none := by simpa using het
      cases hev : t.p.event with
      | none =>
        simp only [setP, guard, het', Option.isSome_none, Bool.false_eq_true, if_false]
        refine ⟨h1.wf, ?_, ?_, h1.ok⟩
        · intro he; simp only [] at he; rw [hev] at he; cases he
        · intro hp; have := h1.pend hp; rw [hev] at this; cases this
      | some e =>
        simp only [setP, emit, guard, het', Option.isSome_none, Bool.false_eq_true, if_false]
        refine ⟨h1.wf, ?_, ?_, ?_⟩
        · intro he; cases he
        · intro hp
          simp only [pendFrom_append] at hp
          simp [pendFrom, isSent, clears] at hp
        · show okFrom false (t.outs ++ [Out.rejected (some e)]) = true
          rw [okFrom_append, h1.ok]; simp [okFrom, isSent]

theorem inv_spawn (pid : Int) (s : S) (hi : Inv s) : Inv (spawn pid s) := by
  unfold spawn guard
  split
  · exact hi
  · simp only []
    split
    · exact hi
    · rename_i hes hp
      have hp0 : s.p.pid = 0 := by simpa using hp
      have hes' : s.err = none := by simpa using hes
      have hev : s.p.event = none := by
        cases hev : s.p.event with
        | none => rfl
        | some e => exact absurd hp0 (hi.busy (by simp [hev])).2
      simp only [setP, guard, hes', Option.isSome_none, Bool.false_eq_true, if_false]
      refine ⟨by simp [Wf, fresh, initialResult], ?_, ?_, hi.ok⟩
      · intro he; simp [fresh] at he
      · intro hpd; have := hi.pend hpd; rw [hev] at this; cases this

theorem inv_setPState (ps : PState) (s : S) (hi : Inv s) : Inv (setPState ps s) := by
  unfold setPState
  refine inv_ns hi (ns_setP _ s ?_)
  split
  · exact ⟨rfl, rfl, rfl, rfl, rfl⟩
  · cases ps <;> exact ⟨rfl, rfl, rfl, rfl, rfl⟩

theorem inv_applyOp (h : Bytes → HRes) (s : S) (op : Op) (hi : Inv s) : Inv (applyOp h s op) := by
  cases op <;> simp only [applyOp]
  · exact inv_readEvent h _ s hi
  · exact inv_trySend _ _ s hi
  · exact inv_ns hi (ns_writeEvent s)
  · exact inv_setPState _ s hi
  · exact inv_ns hi (ns_setP _ s ⟨rfl, rfl, rfl, rfl, rfl⟩)
  · exact inv_ns hi (ns_setP _ s ⟨rfl, rfl, rfl, rfl, rfl⟩)
  · exact inv_die h _ s hi
  · exact inv_spawn _ s hi

theorem inv_step (h : Bytes → HRes) (s : S) (op : Op) (hi : Inv s) : Inv (step h s op) :=
  inv_applyOp h _ op (inv_ns hi (ns_err s none))

theorem inv_exec (h : Bytes → HRes) : ∀ (ops : List Op) (s : S), Inv s → Inv (exec h s ops)
  | [], s, hi => hi
  | op :: ops, s, hi => inv_exec h ops (step h s op) (inv_step h s op hi)

theorem inv_initial : Inv { p := initial } :=
  ⟨by simp [Wf, initial], by intro he; simp [initial] at he, by intro hp; simp [pendFrom] at hp, rfl⟩


/-! ### whole tokens from a token boundary -/

/-- nothing of an earlier token is pending -/
def Bnd (p : Lst) : Prop := p.buf = [] ∧ p.resultlen = none ∧ p.result = []

theorem feed_eq (h : Bytes → HRes) (x : Bytes) (s : S) (he : s.err = none) :
    feed h x s = runHL h (mu (sapp s x).p + 1) (sapp s x) := by
  have h1 : setP (fun p => { p with buf := p.buf ++ x }) s = sapp s x := by simp [setP, guard, he, sapp, app]
  unfold feed hlsc; rw [h1]

theorem runHL_one (h : Bytes → HRes) (k : Nat) (s : S) (he : s.err = none) (ha : (stepC h s.p).again = false) :
    runHL h (k + 1) s = { p := (stepC h s.p).p, outs := s.outs ++ (stepC h s.p).outs, err := (stepC h s.p).err } := by
  rw [runHL_succ h k s he]; simp [ha]

/-- one call body decides: the common shape of the single-token lemmas -/
theorem feed_one (h : Bytes → HRes) (x : Bytes) (s : S) (he : s.err = none) (r : StepR)
    (hr : stepC h (app s.p x) = r) (ha : r.again = false) :
    feed h x s = { p := r.p, outs := s.outs ++ r.outs, err := r.err } := by
  rw [feed_eq h x s he]
  have : (sapp s x).p = app s.p x := rfl
  rw [runHL_one h _ (sapp s x) he (by rw [this, hr]; exact ha), this, hr]
  rfl

/-- the listener at a token boundary, with a new listener state and held event -/
def setLE (p : Lst) (l : LS) (e : Option Nat) : Lst := { p with ls := l, event := e }

theorem setLE_bnd (p : Lst) (l : LS) (e : Option Nat) (hb : Bnd p) : Bnd (setLE p l e) := hb

theorem lst_eta (p : Lst) (hb : Bnd p) (l : LS) (e : Option Nat) :
    ({ p with ls := l, event := e, buf := [], resultlen := none, result := [] } : Lst) = setLE p l e := by
  obtain ⟨b1, b2, b3⟩ := hb
  cases p; simp_all [setLE]

theorem tok_ready_ack (h : Bytes → HRes) (s : S) (he : s.err = none) (hb : Bnd s.p) (hl : s.p.ls = .ACKNOWLEDGED) :
    feed h READY_FOR_EVENTS_TOKEN s =
      { p := setLE s.p .READY none, outs := s.outs ++ [.lstate .ACKNOWLEDGED .READY], err := none } := by
  obtain ⟨b1, b2, b3⟩ := hb
  have hne : (app s.p READY_FOR_EVENTS_TOKEN).buf ≠ [] := by simp [app, b1, READY_FOR_EVENTS_TOKEN]
  rw [feed_one h _ s he _ (stepC_ack h _ hne hl) (by simp [ackC, app, b1, READY_FOR_EVENTS_TOKEN])]
  simp [ackC, app, b1, READY_FOR_EVENTS_TOKEN, hl, ← lst_eta s.p ⟨b1, b2, b3⟩, b2, b3]

/-- READY: any byte at all is a protocol violation -/
theorem tok_any_ready (h : Bytes → HRes) (x : Bytes) (s : S) (he : s.err = none) (hb : Bnd s.p) (hl : s.p.ls = .READY)
    (hx : x ≠ []) :
    feed h x s = { p := setLE s.p .UNKNOWN none, outs := s.outs ++ [.lstate .READY .UNKNOWN], err := none } := by
  obtain ⟨b1, b2, b3⟩ := hb
  have hne : (app s.p x).buf ≠ [] := by simp [app, b1, hx]
  rw [feed_one h _ s he _ (stepC_ready h _ hne hl) rfl]
  simp [toUnknown, app, hl, ← lst_eta s.p ⟨b1, b2, b3⟩, b2, b3]

/-- UNKNOWN: everything is swallowed -/
theorem tok_any_unknown (h : Bytes → HRes) (x : Bytes) (s : S) (he : s.err = none) (hb : Bnd s.p) (hl : s.p.ls = .UNKNOWN)
    (hx : x ≠ []) : feed h x s = s := by
  obtain ⟨b1, b2, b3⟩ := hb
  have hne : (app s.p x).buf ≠ [] := by simp [app, b1, hx]
  rw [feed_one h _ s he _ (stepC_unknown h _ hne hl) rfl]
  cases s with
  | mk p outs err =>
    simp only [] at b1 he ⊢
    subst he
    cases p; simp_all [app]

/-- a well-formed result token: a header line without LF that parses to the payload's length -/
def ValidResult (line payload : Bytes) : Prop :=
  findNL line = none ∧ headerLenC line = some (payload.length : Int)

theorem findNL_line (line rest : Bytes) (h : findNL line = none) : findNL (line ++ 10 :: rest) = some line.length := by
  induction line with
  | nil => simp [findNL]
  | cons c l ih =>
    simp only [findNL] at h
    split at h
    · cases h
    · rename_i hc
      have hl : findNL l = none := by cases hf : findNL l <;> simp_all
      simp [findNL, hc, ih hl]

theorem header_starts (line : Bytes) (n : Int) (h : headerLenC line = some n) :
    ∃ r, line = RESULT_TOKEN_START ++ r := by
  unfold headerLenC at h
  split at h
  · rename_i hp
    obtain ⟨t, ht⟩ := List.isPrefixOf_iff_prefix.mp hp
    exact ⟨t, ht.symm⟩
  · cases h

/-- ACKNOWLEDGED: a result token (nobody asked) is a protocol violation -/
theorem tok_result_ack (h : Bytes → HRes) (line payload : Bytes) (s : S) (he : s.err = none) (hb : Bnd s.p)
    (hl : s.p.ls = .ACKNOWLEDGED) (hv : ValidResult line payload) :
    feed h (line ++ 10 :: payload) s =
      { p := setLE s.p .UNKNOWN none, outs := s.outs ++ [.lstate .ACKNOWLEDGED .UNKNOWN], err := none } := by
  obtain ⟨b1, b2, b3⟩ := hb
  obtain ⟨r, hr⟩ := header_starts line _ hv.2
  have hne : (app s.p (line ++ 10 :: payload)).buf ≠ [] := by simp [app, b1]
  have hstep : ackC (app s.p (line ++ 10 :: payload)) =
      { p := toUnknown (app s.p (line ++ 10 :: payload)), outs := [.lstate .ACKNOWLEDGED .UNKNOWN] } := by
    subst hr
    simp [ackC, app, b1, RESULT_TOKEN_START, READY_FOR_EVENTS_TOKEN, hl]
  rw [feed_one h _ s he _ ((stepC_ack h _ hne hl).trans hstep) rfl]
  simp [toUnknown, app, ← lst_eta s.p ⟨b1, b2, b3⟩, b2, b3]

/-- BUSY: `READY\n` instead of a result is a bad result line: the event is returned -/
theorem tok_ready_busy (h : Bytes → HRes) (s : S) (he : s.err = none) (hb : Bnd s.p) (hl : s.p.ls = .BUSY) :
    feed h READY_FOR_EVENTS_TOKEN s =
      { p := setLE s.p .UNKNOWN none, outs := s.outs ++ [.lstate .BUSY .UNKNOWN, .rejected s.p.event], err := none } := by
  obtain ⟨b1, b2, b3⟩ := hb
  have hne : (app s.p READY_FOR_EVENTS_TOKEN).buf ≠ [] := by simp [app, b1, READY_FOR_EVENTS_TOKEN]
  have hstep : headerC h (app s.p READY_FOR_EVENTS_TOKEN) =
      { p := toUnknown (app s.p READY_FOR_EVENTS_TOKEN), outs := [.lstate .BUSY .UNKNOWN, .rejected s.p.event] } := by
    have hf : findNL (app s.p READY_FOR_EVENTS_TOKEN).buf = some 5 := by simp [app, b1, READY_FOR_EVENTS_TOKEN, findNL]
    have hh : headerLenC ((app s.p READY_FOR_EVENTS_TOKEN).buf.take 5) = none := by
      simp [app, b1, READY_FOR_EVENTS_TOKEN, headerLenC, RESULT_TOKEN_START]
    simp only [headerC, hf, hh, app_ls, app_event, hl]
  rw [feed_one h _ s he _ ((stepC_header h _ hne hl b2).trans hstep) rfl]
  simp [toUnknown, app, ← lst_eta s.p ⟨b1, b2, b3⟩, b2, b3]

/-- what the documented automaton does with a complete result -/
def resultLS (h : Bytes → HRes) (payload : Bytes) : LS :=
  match h payload with
  | .ok => .ACKNOWLEDGED
  | .reject => .ACKNOWLEDGED
  | .error => .UNKNOWN

def resultOuts (h : Bytes → HRes) (ev : Option Nat) (payload : Bytes) : List Out :=
  match h payload with
  | .ok => [.handler ev payload, .lstate .BUSY .ACKNOWLEDGED]
  | .reject => [.handler ev payload, .lstate .BUSY .ACKNOWLEDGED, .rejected ev]
  | .error => [.handler ev payload, .lstate .BUSY .UNKNOWN, .rejected ev]

/-- BUSY: `RESULT n\n` + n bytes: the result handler gets exactly the payload -/
theorem tok_result_busy (h : Bytes → HRes) (line payload : Bytes) (s : S) (he : s.err = none) (hb : Bnd s.p)
    (hl : s.p.ls = .BUSY) (hv : ValidResult line payload) :
    feed h (line ++ 10 :: payload) s =
      { p := setLE s.p (resultLS h payload) none, outs := s.outs ++ resultOuts h s.p.event payload, err := none } := by
  obtain ⟨b1, b2, b3⟩ := hb
  have hne : (app s.p (line ++ 10 :: payload)).buf ≠ [] := by simp [app, b1]
  have hf : findNL (app s.p (line ++ 10 :: payload)).buf = some line.length := by
    simp only [app_buf, b1, List.nil_append]; exact findNL_line line payload hv.1
  have ht : (app s.p (line ++ 10 :: payload)).buf.take line.length = line := by simp [app, b1]
  have hd : (app s.p (line ++ 10 :: payload)).buf.drop (line.length + 1) = payload := by
    simp only [app_buf, b1, List.nil_append]
    rw [List.drop_append]; simp
  have hstep : headerC h (app s.p (line ++ 10 :: payload)) =
      { handled h { afterHeader (app s.p (line ++ 10 :: payload)) line.length (payload.length : Int) with
                    result := payload, buf := [] } with again := false } := by
    simp only [headerC, hf, ht, hv.2]
    have hn : ¬ (payload.length : Int) - ((afterHeader (app s.p (line ++ 10 :: payload)) line.length (payload.length : Int)).result.length : Int) < 0 := by
      simp [afterHeader, b3]
    rw [bodyC_eq_K h _ _ hn]
    have htb : takeBody (afterHeader (app s.p (line ++ 10 :: payload)) line.length (payload.length : Int)) (payload.length : Int) =
        { afterHeader (app s.p (line ++ 10 :: payload)) line.length (payload.length : Int) with result := payload, buf := [] } := by
      simp only [takeBody, afterHeader, hd, app_result, b3]
      simp
    rw [htb]
    simp [bodyK]
  rw [feed_one h _ s he _ ((stepC_header h _ hne hl b2).trans hstep) rfl]
  unfold handled resultLS resultOuts
  simp only [afterHeader, app_ls, app_event, hl]
  cases hh : h payload <;> simp [afterResult, hlsc_a27, app, ← lst_eta s.p ⟨b1, b2, b3⟩, hl]


/-! ### what a hand-over attempt adds to the trace -/

theorem setP_err (f : Lst → Lst) (s : S) : (setP f s).err = s.err := by unfold setP guard; split <;> rfl
theorem emit_err (o : Out) (s : S) : (emit o s).err = s.err := by unfold emit guard; split <;> rfl

theorem ite_emit_err (c : Bool) (o : Out) (s : S) : (if c = true then s else emit o s).err = s.err := by
  split
  · rfl
  · exact emit_err o s

theorem flush_err (s : S) : (flush s).1.err = s.err ∧ ((flush s).2 = none ∨ (flush s).2 = some 32 ∨ (flush s).2 = some 11) := by
  unfold flush
  split
  · exact ⟨rfl, Or.inr (Or.inl rfl)⟩
  · split
    · exact ⟨rfl, Or.inr (Or.inr rfl)⟩
    · simp only []
      refine ⟨?_, Or.inl trivial⟩
      rw [setP_err]
      exact ite_emit_err _ _ s

theorem pwrite_err (c : Bytes) (s : S) (he : s.err = none) : (pwrite c s).1.err = none := by
  unfold pwrite
  simp only []
  split
  · exact he
  · split
    · exact he
    · split
      · exact he
      · have hs1 : (setP (fun q => { q with inbuf := pwrite_a2 q.pid q.killing q.stdin q.inClosed q.inbuf c 0 }) s).err = none := by
          rw [setP_err]; exact he
        have hf := flush_err (setP (fun q => { q with inbuf := pwrite_a2 q.pid q.killing q.stdin q.inClosed q.inbuf c 0 }) s)
        rcases hfl : flush (setP (fun q => { q with inbuf := pwrite_a2 q.pid q.killing q.stdin q.inClosed q.inbuf c 0 }) s) with ⟨s2, r⟩
        rw [hfl] at hf
        simp only [] at hf
        have hs2 : s2.err = none := by rw [hf.1]; exact hs1
        rcases hf.2 with h | h | h
        · subst h; exact hs2
        · cases h; simp [pwrite_g3, hs2]
        · cases h; simp [pwrite_g3, hs2]

/-- what a hand-over attempt adds to the trace -/
theorem trySend_trace (ev : Nat) (env : Bytes) (s : S) (he : s.err = none) :
    (trySend ev env s).1.err = none ∧
    ∃ l, (trySend ev env s).1.outs = s.outs ++ l ∧ (∀ o ∈ l, clears o = false) ∧
      l.filter isSent = (if (trySend ev env s).2 = .sent then [.sent ev] else []) := by
  unfold trySend
  have hes : s.err.isSome = false := by simp [he]
  simp only [hes, Bool.false_eq_true, if_false]
  split
  · exact ⟨he, [], by simp, by simp, by simp⟩
  · split
    · have hns := ns_pwrite env s
      have herr := pwrite_err env s he
      rcases hw : pwrite env s with ⟨s1, r⟩
      rw [hw] at hns herr
      simp only [] at herr
      obtain ⟨_, l1, ho1, hn1⟩ := hns
      have hf1 : l1.filter isSent = [] := by
        rw [List.filter_eq_nil_iff]; intro o ho; simp [(hn1 o ho).1]
      cases r with
      | epipe =>
        exact ⟨herr, l1, ho1, fun o ho => (hn1 o ho).2, by simp [hf1]⟩
      | ok =>
        simp only [herr, Option.isSome_none, Bool.false_eq_true, if_false]
        refine ⟨by simp [emit, setP, guard, herr], l1 ++ [.lstate s1.p.ls .BUSY, .sent ev], ?_, ?_, ?_⟩
        · have ho1' : s1.outs = s.outs ++ l1 := ho1
          simp [emit, setP, guard, herr, ho1']
        · intro o ho
          rcases List.mem_append.mp ho with ho | ho
          · exact (hn1 o ho).2
          · simp at ho; rcases ho with rfl | rfl <;> rfl
        · simp [List.filter_append, hf1, isSent]
    · exact ⟨he, [], by simp, by simp, by simp⟩


end Sv.Listener
