import SupervisorModel.Basic.Bytes
import SupervisorModel.Generated.Child
/-
  Model of what the forked child does before it runs the command:
  `Subprocess._spawn_as_child`, `Subprocess._prepare_child_fds` (and the FastCGI override),
  `Subprocess.set_uid`, `ServerOptions.drop_privileges`, and the thin `ServerOptions` wrappers
  around the system calls (`close_fd` swallows OSError, the others re-raise).

  The model is a function from a configuration and a *fault oracle* (which call, at which
  position of the call log, fails and how) to the ordered log of system calls with arguments and
  outcomes.  The code is straight-line with exits, so it is written as a *script*: the list of
  calls the child attempts in order, each with the reaction of the enclosing `try` to each class
  of exception (`swallow` and go on / `propagate` to the `finally` / `report` a message on
  descriptor 2 and `return`, which also ends in the `finally`), followed by the `execve` stage and
  by the `finally` block (`write(2, "…not spawned")` in a `try` whose own `finally` is `_exit(127)`).
  Conditions, constants and message texts are the definitions regenerated from /repo
  (`Sv.Gen.Child.*`).
-/
namespace Sv.Child
open Sv.Gen.Child

abbrev Env := List (String × String)

/-- how a call can fail; the classes are the ones the code distinguishes.  `name` is what
    `errno.errorcode.get(e, e)` renders, `desc` is `'%s, %s' % (type, value)` (runtime formatting,
    supplied by the harness) -/
inductive Fail
  | oserr (errno : Int) (name : String)
  | keyerr (desc : String)
  | other (desc : String)
deriving DecidableEq, Repr

inductive Call
  | setpgrp
  | sockFileno
  | dup2 (frm to : Int)
  | close (fd : Int)
  | getpwuid (uid : Int)
  | getuid
  | getgrall
  | setgroups (gids : List Int)
  | setgid (gid : Int)
  | setuid (uid : Int)
  | chdir (dir : String)
  | umask (mask : Int)
  | execve (filename : String) (argv : List String) (env : Env)
  | write (fd : Int) (msg : String)
  | exit (code : Int)
deriving DecidableEq, Repr

def Call.isExecve : Call → Bool
  | .execve _ _ _ => true
  | _ => false

/-- one entry of the call log: the call attempted and how it ended (`none` = succeeded) -/
structure Ev where
  call : Call
  res : Option Fail
deriving DecidableEq, Repr

/-- position in the log → call → outcome -/
abbrev Oracle := Nat → Call → Option Fail

structure Cfg where
  fcgi : Bool                       -- FastCGISubprocess
  sockFd : Int                      -- fcgi_sock.fileno()
  pin : Int                         -- pipes['child_stdin']
  pout : Int                        -- pipes['child_stdout']
  perr : Int                        -- pipes['child_stderr'] (unused when redirect_stderr)
  redirect : Bool
  minfds : Int
  uid : Option Int                  -- config.uid
  curUid : Int                      -- os.getuid()
  pwName : String                   -- pwd.getpwuid(uid)[0]
  pwGid : Int                       -- pwd.getpwuid(uid)[3]
  grdb : List (Int × List String)   -- grp.getgrall(): (gid, members)
  osenv : Env                       -- os.environ of supervisord
  name : String
  group : Option String             -- group.config.name when the process has a group
  serverurl : Option String         -- config.serverurl
  optServerurl : Option String      -- options.serverurl
  environment : Option Env          -- config.environment
  directory : Option String
  umask : Option Int
  filename : String
  argv : List String
deriving Repr

/-! ### Python glue: `%`-formatting with `%s`/`%r` of already rendered arguments, dict update -/

def pyFormatAux : List Char → List String → List Char
  | '%' :: 's' :: rest, a :: as => a.toList ++ pyFormatAux rest as
  | '%' :: 'r' :: rest, a :: as => a.toList ++ pyFormatAux rest as
  | c :: rest, as => c :: pyFormatAux rest as
  | [], _ => []

def pyFormat (fmt : String) (args : List String) : String := String.ofList (pyFormatAux fmt.toList args)

/-- `env[k] = v` -/
def envSet (k v : String) : Env → Env
  | [] => [(k, v)]
  | (k', v') :: rest => if k' = k then (k, v) :: rest else (k', v') :: envSet k v rest

/-- `env.update(d)` -/
def envUpdate (e : Env) (d : Env) : Env := d.foldl (fun acc kv => envSet kv.1 kv.2 acc) e

def envGet (e : Env) (k : String) : Option String :=
  match e with
  | [] => none
  | (k', v') :: rest => if k' = k then some v' else envGet rest k

/-- the environment handed to `execve` -/
def childEnv (c : Cfg) : Env :=
  let e0 := c.osenv
  let e1 := envSet env_key_enabled env_val_enabled e0
  let su1 := c.serverurl
  let su := if spawnChild_g1 none su1 c.group c.environment c.directory c.umask then c.optServerurl else su1
  let e2 := if spawnChild_g2 none su c.group c.environment c.directory c.umask
            then envSet env_key_server_url (su.getD "") e1 else e1
  let e3 := envSet env_key_process_name c.name e2
  let e4 := if spawnChild_g3 none su c.group c.environment c.directory c.umask
            then envSet env_key_group_name (c.group.getD "") e3 else e3
  if spawnChild_g4 none su c.group c.environment c.directory c.umask
  then envUpdate e4 (c.environment.getD []) else e4

/-! ### messages -/

def msgSetuid (uid : Int) (reason : String) : String :=
  msg_prefix ++ pyFormat msg0_fmt [toString uid, reason]
def msgChdir (dir code : String) : String := msg_prefix ++ pyFormat msg1_fmt [dir, code]
def msgExec (argv0 code : String) : String := msg_prefix ++ pyFormat msg2_fmt [argv0, code]
/-- the traceback position (`file`, `line`) is not modelled: rendered as `?` on both sides -/
def msgExecOther (filename desc : String) : String :=
  msg_prefix ++ pyFormat msg3_fmt [filename, desc ++ ": file: ? line: ?"]

def reasonNoUid (uid : Int) : String := pyFormat dp_ret2_fmt [toString uid]
def reasonNonRoot : String := dp_ret3_fmt
def reasonGroups : String := dp_ret4_fmt
def reasonGid : String := dp_ret5_fmt
def reasonUid : String := dp_ret6_fmt

/-! ### the script -/

inductive Action
  | swallow
  | propagate
  | report (msg : String)
deriving DecidableEq, Repr

inductive Step
  /-- a system call and what the enclosing `try` does with each failure class -/
  | sys (c : Call) (h : Fail → Action)
  /-- a refusal decided without any failing call: write the message and return -/
  | refuse (msg : String)

def hPropagate : Fail → Action := fun _ => .propagate

/-- `ServerOptions.close_fd`: `except OSError: pass` -/
def hClose : Fail → Action
  | .oserr _ _ => .swallow
  | _ => .propagate

/-- a call of `drop_privileges` guarded by `except <cls>: return <reason>`; `cls` comes from the
    generated table `dp_calls` (empty = not inside any `try`) -/
def hGuarded (cls : String) (msg : String) : Fail → Action
  | .oserr _ _ => if cls = "OSError" then .report msg else .propagate
  | .keyerr _ => if cls = "KeyError" then .report msg else .propagate
  | .other _ => .propagate

def dpGuard (fn : String) : String := (dp_calls.lookup fn).getD ""

/-- `except OSError as why:` around `options.chdir(cwd)` -/
def hChdir (dir : String) : Fail → Action
  | .oserr _ n => .report (msgChdir dir n)
  | _ => .propagate

/-- `except OSError as why: … argv[0] …` / bare `except:` around `setumask` and `execve` -/
def hExec (filename : String) (argv : List String) : Fail → Action
  | .oserr _ n =>
    match argv with
    | [] => .propagate            -- `argv[0]` raises IndexError inside the handler
    | a :: _ => .report (msgExec a n)
  | .keyerr d => .report (msgExecOther filename d)
  | .other d => .report (msgExecOther filename d)

/-- `range(lo, hi)` -/
def pyRange (lo hi : Int) : List Int := (List.range (hi - lo).toNat).map (fun (i : Nat) => lo + (i : Int))

def fdSteps (c : Cfg) : List Step :=
  let err2 := if (if c.fcgi then fcgiPrepFds_g0 c.redirect else prepFds_g0 c.redirect) then c.pout else c.perr
  let first := if c.fcgi then fcgi_fds_first_closed else fds_first_closed
  (if c.fcgi then [Step.sys .sockFileno hPropagate] else []) ++
  [ .sys (.dup2 (if c.fcgi then c.sockFd else c.pin) 0) hPropagate,
    .sys (.dup2 c.pout 1) hPropagate,
    .sys (.dup2 err2 2) hPropagate ] ++
  (pyRange first c.minfds).map (fun fd => Step.sys (.close fd) hClose)

/-- `[grprec[2] for grprec in grp.getgrall() if user in grprec[3]]`, primary gid first -/
def groupList (c : Cfg) : List Int :=
  c.pwGid :: (c.grdb.filter (fun g => g.2.contains c.pwName)).map (·.1)

/-- `set_uid` → `drop_privileges(config.uid)`; a returned message makes `_spawn_as_child` write
    "couldn't setuid to …" and return -/
def privSteps (c : Cfg) : List Step :=
  if setUid_g0 c.uid then [] else
  match c.uid with
  | none => []
  | some uid =>
    if dropPriv_g0 c.uid c.curUid uid then [.refuse (msgSetuid uid dp_ret0_fmt)] else
    [ .sys (.getpwuid uid) (hGuarded (dpGuard "pwd.getpwuid") (msgSetuid uid (reasonNoUid uid))),
      .sys .getuid (hGuarded (dpGuard "os.getuid") "") ] ++
    (if dropPriv_g1 c.uid c.curUid uid then [] else
     if dropPriv_g2 c.uid c.curUid uid then [.refuse (msgSetuid uid reasonNonRoot)] else
     [ .sys .getgrall (hGuarded (dpGuard "grp.getgrall") ""),
       .sys (.setgroups (groupList c)) (hGuarded (dpGuard "os.setgroups") (msgSetuid uid reasonGroups)),
       .sys (.setgid c.pwGid) (hGuarded (dpGuard "os.setgid") (msgSetuid uid reasonGid)),
       .sys (.setuid uid) (hGuarded (dpGuard "os.setuid") (msgSetuid uid reasonUid)) ])

def dirSteps (c : Cfg) : List Step :=
  if spawnChild_g5 none c.serverurl c.group c.environment c.directory c.umask then
    match c.directory with
    | some d => [.sys (.chdir d) (hChdir d)]
    | none => []
  else []

def umaskSteps (c : Cfg) : List Step :=
  if spawnChild_g6 none c.serverurl c.group c.environment c.directory c.umask then
    match c.umask with
    | some m => [.sys (.umask m) (hExec c.filename c.argv)]
    | none => []
  else []

/-- everything the child attempts before `execve`, in order -/
def preSteps (c : Cfg) : List Step :=
  [.sys .setpgrp hPropagate] ++ fdSteps c ++ privSteps c ++ dirSteps c ++ umaskSteps c

/-! ### the interpreter -/

/-- the `finally:` block: `try: write(2, "…not spawned") finally: _exit(127)` -/
def finallyEvs (orc : Oracle) (log : List Ev) : List Ev :=
  log ++ [⟨.write write_fd msg_not_spawned, orc log.length (.write write_fd msg_not_spawned)⟩,
          ⟨.exit exit_code, none⟩]

/-- after a failure (already logged): optionally write the reason, then the `finally` block.  A
    failing write of the reason propagates — into the same `finally` block. -/
def finish (orc : Oracle) (a : Action) (log : List Ev) : List Ev :=
  match a with
  | .report m => finallyEvs orc (log ++ [⟨.write write_fd m, orc log.length (.write write_fd m)⟩])
  | _ => finallyEvs orc log

def run (orc : Oracle) (k : List Ev → List Ev) : List Step → List Ev → List Ev
  | [], log => k log
  | .refuse m :: _, log => finish orc (.report m) log
  | .sys c h :: rest, log =>
    match orc log.length c with
    | none => run orc k rest (log ++ [⟨c, none⟩])
    | some f =>
      match h f with
      | .swallow => run orc k rest (log ++ [⟨c, some f⟩])
      | a => finish orc a (log ++ [⟨c, some f⟩])

def execCall (c : Cfg) : Call := .execve c.filename c.argv (childEnv c)

/-- `options.execve(filename, argv, env)`: when it succeeds the process image is replaced and the
    log ends; when it fails the handlers of the enclosing `try` run, then the `finally` block -/
def execStage (c : Cfg) (orc : Oracle) (log : List Ev) : List Ev :=
  match orc log.length (execCall c) with
  | none => log ++ [⟨execCall c, none⟩]
  | some f => finish orc (hExec c.filename c.argv f) (log ++ [⟨execCall c, some f⟩])

/-- the ordered call log of `_spawn_as_child` -/
def childLog (c : Cfg) (orc : Oracle) : List Ev := run orc (execStage c orc) (preSteps c) []

/-! ### parse-time merge (`ServerOptions.read_config`): `[supervisord] environment` overlaid by the
    program's own -/
def parseMerge (sectionEnv procEnv : Env) : Env := envUpdate sectionEnv procEnv

/-- the whole loop over the process configurations of a file (in processing order):
    `env = section.environment[.copy()]; env.update(proc.environment); proc.environment = env`.
    Whether `env` is a fresh dictionary for every process is GENERATED (`read_config_env_copied`); without the copy all
    process configurations end up referring to the one dictionary every `update` went into. -/
def parseMergeAll (copied : Bool) (sectionEnv : Env) (procEnvs : List Env) : List Env :=
  if copied then procEnvs.map (parseMerge sectionEnv)
  else procEnvs.map fun _ => procEnvs.foldl envUpdate sectionEnv

/-! ### which server the children are told about: `options.serverurl` (`ServerOptions.realize`) and the program's own
    `serverurl=` (`_processes_from_section`)

  `realize()` sets `self.serverurl = None` and then runs one loop per address family over `section.server_configs`
  ("prefer a unix domain socket", "fall back to an inet socket"); every loop assigns `self.serverurl`, the first one stops at
  its first server (`break`), the second one is guarded by a test of the value chosen so far.  Family, guard, break, url format
  and the default for an empty field of EACH stage are GENERATED (`surl_stage<k>_*`); the control flow below is the loop. -/

inductive Family
  | inet
  | unix
deriving DecidableEq, Repr

/-- one entry of `options.server_configs` (`server_configs_from_parser`) -/
structure ServerCfg where
  family : Family
  host : String        -- inet: '' = every interface (`port=9001`, `:9001`, `*:9001`)
  port : Int
  file : String        -- unix: the socket path after `normalize_path`
deriving DecidableEq, Repr

/-- a server section of the configuration file: `[inet_http_server] port=[host:]port` (host as written, `none` without a
    colon) or `[unix_http_server] file=…` (the path after `normalize_path`, runtime) -/
inductive SrvSection
  | inet (host : Option String) (port : Int)
  | unix (file : String)
deriving DecidableEq, Repr

def asciiLower (s : String) : String := String.ofList (s.toList.map Char.toLower)

/-- `datatypes.inet_address`: host lower-cased, `''` and `'*'` mean every interface -/
def inetHost : Option String → String
  | none => ""
  | some h => if asciiLower h = "" || asciiLower h = "*" then "" else asciiLower h

/-- `server_configs_from_parser`: all inet sections in file order, then all unix sections in file order -/
def serverConfigsOfFile (secs : List SrvSection) : List ServerCfg :=
  secs.filterMap (fun s => match s with
    | .inet h p => some { family := .inet, host := inetHost h, port := p, file := "" }
    | .unix _ => none) ++
  secs.filterMap (fun s => match s with
    | .unix f => some { family := .unix, host := "", port := 0, file := f }
    | .inet _ _ => none)

/-- `config['file']`, `config['host']`, `config['port']` as `%s` renders them -/
def ServerCfg.field (s : ServerCfg) (key : String) : String :=
  if key = "file" then s.file else if key = "host" then s.host else if key = "port" then toString s.port else ""

/-- `self.serverurl = fmt % (fields…)`, a field that is empty replaced by the stage's default (`if not host: host = 'localhost'`) -/
def stageUrl (fmt : String) (args : List String) (defaults : List (String × String)) (s : ServerCfg) : String :=
  pyFormat fmt (args.map fun k => if (s.field k).isEmpty then (defaults.lookup k).getD (s.field k) else s.field k)

def stageFamily (name : String) : Family := if name = "AF_UNIX" then .unix else .inet

/-- `[if guard:] for config in [c for c in sconfigs if c['family'] is <family>]: self.serverurl = url(config) [break]` -/
def runStage (family : String) (guard : Option String → Bool) (first : Bool) (url : ServerCfg → String)
    (cfgs : List ServerCfg) (cur : Option String) : Option String :=
  if guard cur then
    match (if first then (cfgs.filter fun s => s.family = stageFamily family).head?
           else (cfgs.filter fun s => s.family = stageFamily family).getLast?) with
    | some s => some (url s)
    | none => cur
  else cur

/-- `options.serverurl` after `realize()` -/
def chooseServerUrl (cfgs : List ServerCfg) : Option String :=
  runStage surl_stage1_family surl_stage1_guard surl_stage1_first
      (stageUrl surl_stage1_fmt surl_stage1_args surl_stage1_defaults) cfgs
    (runStage surl_stage0_family surl_stage0_guard surl_stage0_first
      (stageUrl surl_stage0_fmt surl_stage0_args surl_stage0_defaults) cfgs none)

def pyIsSpace (c : Char) : Bool := c = ' ' || c = '\t' || c = '\n' || c = '\r' || c = '\x0b' || c = '\x0c'

/-- `str.strip()` / `.upper()` / `.lower()` (ASCII; the token compared with is ASCII) -/
def applyNorm (n : String) (cs : List Char) : List Char :=
  if n = "strip" then ((cs.dropWhile pyIsSpace).reverse.dropWhile pyIsSpace).reverse
  else if n = "upper" then cs.map Char.toUpper
  else if n = "lower" then cs.map Char.toLower
  else cs

/-- `serverurl.strip().upper() == 'AUTO'` (normalisers and token generated) -/
def isAutoUrl (s : String) : Bool :=
  String.ofList (serverurl_auto_norm.foldl (fun cs n => applyNorm n cs) s.toList) = serverurl_auto_token

/-- `config.serverurl` of a program whose section says `serverurl=raw` (`none` = the option is absent) -/
def configuredServerUrl : Option String → Option String
  | none => none
  | some s => if isAutoUrl s then none else some s

/-- the child of a program whose section says `serverurl=raw`, under a supervisord whose file configures `secs` -/
def withFileUrls (c : Cfg) (raw : Option String) (cfgs : List ServerCfg) : Cfg :=
  { c with serverurl := configuredServerUrl raw, optServerurl := chooseServerUrl cfgs }

/-! ### line protocol -/

def strOfHex (s : String) : Option String :=
  (bytesOfHex s).bind fun b => String.fromUTF8? (ByteArray.mk b.toArray)

/-- `s<hex>` = a string, `N` = None -/
def optStr (s : String) : Option (Option String) :=
  if s = "N" then some none
  else if s.startsWith "s" then (strOfHex (if s.length = 1 then "-" else (s.drop 1).toString)).map some
  else none

def reqStr (s : String) : Option String := (optStr s).bind id

def optInt (s : String) : Option (Option Int) :=
  if s = "N" then some none else s.toInt?.map some

def splitNonEmpty (s : String) (sep : String) : List String := (s.splitOn sep).filter (· ≠ "")

def allSome {α : Type} : List (Option α) → Option (List α)
  | [] => some []
  | none :: _ => none
  | some a :: rest => (allSome rest).map (a :: ·)

/-- `k:v,k:v` with `s<hex>` strings; `-` = empty -/
def envOf (s : String) : Option Env :=
  if s = "-" then some [] else
  allSome ((splitNonEmpty s ",").map fun kv =>
    match kv.splitOn ":" with
    | [k, v] => match reqStr k, reqStr v with
      | some k, some v => some (k, v)
      | _, _ => none
    | _ => none)

def optEnv (s : String) : Option (Option Env) :=
  if s = "N" then some none else (envOf s).map some

def strList (s : String) : Option (List String) :=
  if s = "-" then some [] else allSome ((splitNonEmpty s ",").map reqStr)

/-- `gid:member,member;gid:…` -/
def grdbOf (s : String) : Option (List (Int × List String)) :=
  if s = "-" then some [] else
  allSome ((splitNonEmpty s ";").map fun g =>
    match g.splitOn ":" with
    | [gid, ms] => match gid.toInt?, strList ms with
      | some gid, some ms => some (gid, ms)
      | _, _ => none
    | _ => none)

def cfgOf (a : List String) : Option Cfg := do
  let fcgi ← kvBool a "fcgi"
  let sockFd ← kvInt a "sock"
  let pin ← kvInt a "pin"
  let pout ← kvInt a "pout"
  let perr ← kvInt a "perr"
  let redirect ← kvBool a "redirect"
  let minfds ← kvInt a "minfds"
  let uid ← (kvGet a "uid").bind optInt
  let curUid ← kvInt a "cur"
  let pwName ← (kvGet a "pwname").bind reqStr
  let pwGid ← kvInt a "pwgid"
  let grdb ← (kvGet a "grdb").bind grdbOf
  let osenv ← (kvGet a "osenv").bind envOf
  let name ← (kvGet a "name").bind reqStr
  let group ← (kvGet a "group").bind optStr
  let serverurl ← (kvGet a "surl").bind optStr
  let optServerurl ← (kvGet a "osurl").bind optStr
  let environment ← (kvGet a "env").bind optEnv
  let directory ← (kvGet a "dir").bind optStr
  let umask ← (kvGet a "umask").bind optInt
  let filename ← (kvGet a "file").bind reqStr
  let argv ← (kvGet a "argv").bind strList
  pure { fcgi, sockFd, pin, pout, perr, redirect, minfds, uid, curUid, pwName, pwGid, grdb, osenv, name,
         group, serverurl, optServerurl, environment, directory, umask, filename, argv }

/-- `O<errno>:s<hex name>` | `Ks<hex desc>` | `Xs<hex desc>` -/
def failOf (s : String) : Option Fail :=
  if s.startsWith "O" then
    match ((s.drop 1).toString).splitOn ":" with
    | [e, n] => match e.toInt?, reqStr n with
      | some e, some n => some (.oserr e n)
      | _, _ => none
    | _ => none
  else if s.startsWith "K" then (reqStr (s.drop 1).toString).map .keyerr
  else if s.startsWith "X" then (reqStr (s.drop 1).toString).map .other
  else none

/-- `<index>=<fail>` items -/
def faultsOf (items : List String) : Option (List (Nat × Fail)) :=
  allSome (items.map fun it =>
    match it.splitOn "=" with
    | [i, f] => match i.toNat?, failOf f with
      | some i, some f => some (i, f)
      | _, _ => none
    | _ => none)

def oracleOf (fs : List (Nat × Fail)) : Oracle := fun i _ => fs.lookup i

def hexS (s : String) : String := "s" ++ (let b := bytesOfString s; if b.isEmpty then "" else hexOfBytes b)

def sortEnv (e : Env) : Env := e.mergeSort (fun a b => a.1 < b.1 || a.1 == b.1)

def showCall : Call → String
  | .setpgrp => "setpgrp"
  | .sockFileno => "fileno"
  | .dup2 a b => s!"dup2:{a}:{b}"
  | .close fd => s!"close:{fd}"
  | .getpwuid u => s!"getpwuid:{u}"
  | .getuid => "getuid"
  | .getgrall => "getgrall"
  | .setgroups gs => "setgroups:" ++ ",".intercalate (gs.map toString)
  | .setgid g => s!"setgid:{g}"
  | .setuid u => s!"setuid:{u}"
  | .chdir d => "chdir:" ++ hexS d
  | .umask m => s!"umask:{m}"
  | .execve f a e => "execve:" ++ hexS f ++ ":" ++ ",".intercalate (a.map hexS) ++ ":" ++
      ",".intercalate ((sortEnv e).map fun kv => hexS kv.1 ++ "=" ++ hexS kv.2)
  | .write fd m => s!"write:{fd}:" ++ hexS m
  | .exit n => s!"_exit:{n}"

/-- `i:<N | s<hex host>>:<port>` | `u:<s<hex file>>` -/
def srvSectionOf (s : String) : Option SrvSection :=
  match s.splitOn ":" with
  | ["i", h, p] => match optStr h, p.toInt? with
    | some h, some p => some (.inet h p)
    | _, _ => none
  | ["u", f] => (reqStr f).map .unix
  | _ => none

def srvSectionsOf (s : String) : Option (List SrvSection) :=
  if s = "-" then some [] else allSome ((splitNonEmpty s ",").map srvSectionOf)

def showOptStr : Option String → String
  | none => "N"
  | some s => hexS s

def showServerCfg (s : ServerCfg) : String :=
  match s.family with
  | .inet => "i:" ++ hexS s.host ++ ":" ++ toString s.port
  | .unix => "u:" ++ hexS s.file

def showEv (e : Ev) : String :=
  showCall e.call ++ (match e.res with
    | none => ""
    | some (.oserr _ _) => "!O"
    | some (.keyerr _) => "!K"
    | some (.other _) => "!X")

def runCase (cfg : List String) (ops : List String) : List String :=
  match cfgOf cfg with
  | none => ops.map fun _ => "bad-config"
  | some c => ops.map fun l =>
    match words l with
    | "run" :: items =>
      match faultsOf items with
      | some fs => " ".intercalate ((childLog c (oracleOf fs)).map showEv)
      | none => "bad-op"
    | "mergeall" :: a :: bs =>
      match envOf a, allSome (bs.map envOf) with
      | some a, some bs => "env " ++ " ".intercalate ((parseMergeAll read_config_env_copied a bs).map fun e =>
          if e.isEmpty then "-" else ",".intercalate ((sortEnv e).map fun kv => hexS kv.1 ++ ":" ++ hexS kv.2))
      | _, _ => "bad-op"
    | ["surl", raw, secs] =>
      match optStr raw, srvSectionsOf secs with
      | some raw, some secs =>
        let cfgs := serverConfigsOfFile secs
        let c' := withFileUrls c raw cfgs
        "servers " ++ (if cfgs.isEmpty then "-" else ",".intercalate (cfgs.map showServerCfg)) ++
          " url " ++ showOptStr c'.optServerurl ++ " child " ++ showOptStr c'.serverurl ++
          " told " ++ showOptStr (envGet (childEnv c') env_key_server_url)
      | _, _ => "bad-op"
    | ["merge", a, b] =>
      match envOf a, envOf b with
      | some a, some b => "env " ++ ",".intercalate ((sortEnv (parseMerge a b)).map fun kv => hexS kv.1 ++ "=" ++ hexS kv.2)
      | _, _ => "bad-op"
    | _ => "bad-op"

end Sv.Child
