import SupervisorModel.Lemmas.SupHist
import SupervisorModel.Lemmas.ProcPid
/-
  The daemon-level invariant: `SInv` (bookkeeping of the process table and `pidhistory`) and
  "no AssertionError has escaped" are preserved by every piece of a main-loop pass, for every
  environment (any spawn / kill / waitpid answers, any RPCs, any signal, any clock reading).
-/
set_option linter.unusedSimpArgs false
set_option linter.unusedVariables false
namespace Sv.Sup
open Sv Sv.Proc Sv.Gen.Proc Sv.Gen.Sup

/-- the bookkeeping invariant of the daemon state (see `SInvC`) -/
def SInv (s : Sup) : Prop := SInvC s.procs s.dormant s.pidhist

/-- the invariant holds and no AssertionError has escaped to the main loop -/
def Good (s : Sup) : Prop := SInv s ∧ s.err ≠ some .assertion

/-! ### plumbing -/

theorem good_frame {s s' : Sup} (h : Good s) (hp : s'.procs = s.procs) (hd : s'.dormant = s.dormant)
    (hh : s'.pidhist = s.pidhist) (he : s'.err = s.err) : Good s' := by
  unfold Good SInv at *
  rw [hp, hd, hh, he]; exact h

theorem good_envExhausted {s : Sup} (h : Good s) : Good { s with err := some .envExhausted } :=
  ⟨h.1, by simp⟩

theorem good_sguard (f : M) (s : Sup) (hg : Good s) (h : s.err = none → s.exited = false → Good (f s)) :
    Good (sguard f s) := by
  unfold sguard
  cases he : s.err with
  | some x => simpa using hg
  | none =>
    cases hx : s.exited with
    | true => simpa using hg
    | false => simpa using h he hx

theorem good_semit (o : SOut) (s : Sup) (hg : Good s) : Good (semit o s) := by
  unfold semit
  apply good_sguard _ _ hg
  intro _ _
  exact good_frame hg rfl rfl rfl rfl

theorem foldl_good {α : Type} (f : Sup → α → Sup) (hf : ∀ acc x, Good acc → Good (f acc x)) (l : List α) (s : Sup)
    (h : Good s) : Good (l.foldl f s) := by
  induction l generalizing s with
  | nil => exact h
  | cons x xs ih => exact ih _ (hf _ _ h)

theorem popSpawn_cases (s : Sup) : popSpawn s = (none, s) ∨
    ∃ r rs, spawnFresh s r = true ∧ popSpawn s = (some r, { s with env := { s.env with spawns := rs } }) := by
  unfold popSpawn
  cases h : s.env.spawns with
  | nil => left; rfl
  | cons r rs =>
    by_cases hf : spawnFresh s r = true
    · right; exact ⟨r, rs, hf, by simp [hf]⟩
    · left; simp [hf]

theorem popKill_cases (s : Sup) : popKill s = (none, s) ∨
    ∃ k ks, popKill s = (some k, { s with env := { s.env with kills := ks } }) := by
  unfold popKill
  cases h : s.env.kills with
  | nil => left; rfl
  | cons k ks => right; exact ⟨k, ks, rfl⟩

theorem spawnFresh_ok {s : Sup} {pid : Int} (h : spawnFresh s (.ok pid) = true) : pid ≠ 0 ∧ s.pidhist.lookup pid = none := by
  simpa [spawnFresh] using h

theorem wfSpawn_of_fresh {s : Sup} {r : SpawnRes} (h : spawnFresh s r = true) : wfSpawn r := by
  cases r with
  | ok pid => exact (spawnFresh_ok h).1
  | _ => trivial

/-! ### one process -/

theorem onProc_skip (name : Nat) (f : Cfg → Proc.S → Proc.S) (s : Sup) (h : (s.err.isSome || s.exited) = true) :
    onProc name f s = s := by
  unfold onProc sguard; rw [if_pos h]

theorem onProc_none (name : Nat) (f : Cfg → Proc.S → Proc.S) (s : Sup) (h : findPE s.procs name = none) :
    onProc name f s = s := by
  unfold onProc sguard; split
  · rfl
  · simp only [h]

theorem onProc_eq (name : Nat) (f : Cfg → Proc.S → Proc.S) (s : Sup) (e : PE) (he : s.err = none) (hx : s.exited = false)
    (hf : findPE s.procs name = some e) :
    onProc name f s =
      { s with procs := setProc s.procs name (f e.cfg { p := e.p }).p,
               outs := s.outs ++ (f e.cfg { p := e.p }).outs.map (SOut.proc name),
               pidhist := (forks (f e.cfg { p := e.p }).outs).foldl (regH name e.gen) s.pidhist,
               err := if (f e.cfg { p := e.p }).err.isSome then some .assertion else none } := by
  unfold onProc sguard
  simp only [he, hx, hf, Option.isSome_none, Bool.or_self, Bool.false_eq_true, if_false]
  rw [foldl_regFork, foldl_regH_forks]
  cases (f e.cfg { p := e.p }).err <;> simp [he]

/-- **a per-process operation that does not raise, keeps the per-process invariant and changes the
    pid only by a fork of a fresh pid keeps the daemon invariant** -/
theorem onProc_good (name : Nat) (f : Cfg → Proc.S → Proc.S) (res : SpawnRes) (s : Sup) (hg : Good s)
    (hfresh : spawnFresh s res = true)
    (hf : ∀ e, findPE s.procs name = some e → Proc.Inv e.p → 0 ≤ e.cfg.startsecs →
      (f e.cfg { p := e.p }).err = none ∧ Proc.Inv (f e.cfg { p := e.p }).p ∧
        PStep res { p := e.p } (f e.cfg { p := e.p })) :
    Good (onProc name f s) := by
  by_cases hc : (s.err.isSome || s.exited) = true
  · rw [onProc_skip _ _ _ hc]; exact hg
  · have he : s.err = none := by cases h : s.err <;> simp_all
    have hx : s.exited = false := by cases h : s.exited <;> simp_all
    cases hfe : findPE s.procs name with
    | none => rw [onProc_none _ _ _ hfe]; exact hg
    | some e =>
      obtain ⟨hem, hen⟩ := findPE_some_mem hfe
      obtain ⟨h1, h2, h3⟩ := hf e hfe (hg.1.inv e hem) (hg.1.cfgok e (List.mem_append_left _ hem))
      rw [onProc_eq name f s e he hx hfe]
      rcases h3 with ⟨hp, hfk⟩ | ⟨h0, pid, hres, hnz, hp, hfk⟩
      · have hfk' : forks (f e.cfg { p := e.p }).outs = [] := hfk
        rw [hfk', h1]
        exact ⟨sinv_same hg.1 hfe h2 hp, by simp⟩
      · have hfk' : forks (f e.cfg { p := e.p }).outs = [.fork pid] := hfk
        rw [hfk', h1]
        subst hres
        exact ⟨sinv_fork hg.1 hfe h2 h0 hp hnz (spawnFresh_ok hfresh).2, by simp⟩

/-! ### `transition()` without a spawn does not look at the spawn answer -/

theorem autoStart_id (cfg : Cfg) (e : Proc.Env) (res : SpawnRes) (s : Proc.S)
    (h : (transition_g0 s.p cfg e &&
      ((transition_g1 s.p cfg e && transition_g2 s.p cfg e && (transition_g3 s.p cfg e || transition_g4 s.p cfg e)) ||
       (!transition_g1 s.p cfg e && transition_g5 s.p cfg e && transition_g6 s.p cfg e) ||
       (!transition_g1 s.p cfg e && !transition_g5 s.p cfg e && transition_g7 s.p cfg e && transition_g8 s.p cfg e && transition_g9 s.p cfg e)))
      = false) :
    autoStart cfg e res s = s := by
  unfold autoStart guard
  split
  · rfl
  · dsimp only
    repeat' split
    all_goals first
      | rfl
      | (exfalso; simp_all)

theorem autoStart_indep (cfg : Cfg) (e : Proc.Env) (res res' : SpawnRes) (s : Proc.S)
    (h : (transition_g0 s.p cfg e &&
      ((transition_g1 s.p cfg e && transition_g2 s.p cfg e && (transition_g3 s.p cfg e || transition_g4 s.p cfg e)) ||
       (!transition_g1 s.p cfg e && transition_g5 s.p cfg e && transition_g6 s.p cfg e) ||
       (!transition_g1 s.p cfg e && !transition_g5 s.p cfg e && transition_g7 s.p cfg e && transition_g8 s.p cfg e && transition_g9 s.p cfg e))
      && s.p.pid == 0) = false) :
    autoStart cfg e res s = autoStart cfg e res' s := by
  by_cases hp : s.p.pid = 0
  · simp only [hp, beq_self_eq_true, Bool.and_true] at h
    rw [autoStart_id _ _ _ _ h, autoStart_id _ _ _ _ h]
  · unfold autoStart guard
    simp only [spawn_id_of_pid _ _ _ _ hp]

theorem transition_indep (cfg : Cfg) (p : Proc) (now mood : Int) (res res' : SpawnRes) (kr : KillRes) (os : List Out)
    (h : wantsSpawn cfg p now mood = false) :
    transition cfg now mood res kr { p := p, outs := os } = transition cfg now mood res' kr { p := p, outs := os } := by
  simp only [transition, guard, setP, Option.isSome_none, Bool.false_eq_true, if_false, transition_a1]
  rw [autoStart_indep cfg _ res res' { p := rollback cfg now p, outs := os } h]

/-- `proc.transition()` with whatever the environment answers -/
theorem procTransition_good (name : Nat) (s : Sup) (hg : Good s) : Good (procTransition name s) := by
  unfold procTransition
  apply good_sguard _ _ hg
  intro he hx
  try dsimp only
  split
  · exact hg
  · rename_i e hfe
    have hnospawn : ∀ (k : KillRes) (s1 : Sup), Good s1 → s1.procs = s.procs →
        wantsSpawn e.cfg e.p s.env.now s.mood = false →
        Good (onProc name (fun cfg => transition cfg s.env.now s.mood (.ok 0) k) s1) := by
      intro k s1 hg1 hps hw
      apply onProc_good _ _ .forkErr _ hg1 rfl
      intro e' hfe' hi _
      rw [hps, hfe] at hfe'
      cases hfe'
      have hrw := transition_indep e.cfg e.p s.env.now s.mood (.ok 0) .forkErr k [] hw
      refine ⟨transition_ok [] _ _ _ _ _ _ hi, ?_, ?_⟩
      · rw [hrw]; exact transition_inv _ _ _ _ _ _ trivial hi
      · rw [hrw]; exact transition_pstep _ _ _ _ _ _
    split
    · rcases popSpawn_cases s with h | ⟨r, rs, hfr, h⟩ <;> rw [h] <;> dsimp only
      · exact good_envExhausted hg
      · apply onProc_good _ _ r
        · exact good_frame hg rfl rfl rfl rfl
        · exact hfr
        intro e' _ hi _
        exact ⟨transition_ok [] _ _ _ _ _ _ hi, transition_inv _ _ _ _ _ _ (wfSpawn_of_fresh hfr) hi,
          transition_pstep _ _ _ _ _ _⟩
    · rename_i hw
      have hw' : wantsSpawn e.cfg e.p s.env.now s.mood = false := by simpa using hw
      split
      · rcases popKill_cases s with h | ⟨k, ks, h⟩ <;> rw [h] <;> dsimp only
        · exact good_envExhausted hg
        · exact hnospawn k _ (good_frame hg rfl rfl rfl rfl) rfl hw'
      · exact hnospawn .ok s hg rfl hw'

/-- `process.stop()` / `give_up()` from `stop_all` -/
theorem procGroupStop_good (name : Nat) (s : Sup) (hg : Good s) : Good (procGroupStop name s) := by
  unfold procGroupStop
  apply good_sguard _ _ hg
  intro he hx
  try dsimp only
  have hstep : ∀ (k : KillRes) (s1 : Sup), Good s1 → Good (onProc name (fun cfg => groupStop cfg s.env.now k) s1) := by
    intro k s1 hg1
    apply onProc_good _ _ .forkErr _ hg1 rfl
    intro e' _ hi _
    exact ⟨groupStop_ok _ _ _ _ _, groupStop_inv _ _ _ _ hi, Or.inl (groupStop_same _ _ _ _)⟩
  split
  · exact hg
  · split
    · rcases popKill_cases s with h | ⟨k, ks, h⟩ <;> rw [h] <;> dsimp only
      · exact good_envExhausted hg
      · exact hstep k _ (good_frame hg rfl rfl rfl rfl)
    · exact hstep .ok s hg

theorem stopAll_good (gid : Nat) (s : Sup) (hg : Good s) : Good (stopAll gid s) := by
  unfold stopAll
  apply good_sguard _ _ hg
  intro _ _
  exact foldl_good _ (fun acc e h => procGroupStop_good e.name acc h) _ _ hg

theorem exitTest_good (s : Sup) (hg : Good s) : Good (exitTest s) := by
  unfold exitTest
  apply good_sguard _ _ hg
  intro _ _
  try dsimp only
  split
  · exact good_frame hg rfl rfl rfl rfl
  · exact hg

theorem shutdownPhase1_good (s : Sup) (hg : Good s) : Good (shutdownPhase1 s) := by
  unfold shutdownPhase1
  apply good_sguard _ _ hg
  intro _ _
  try dsimp only
  split
  · apply exitTest_good
    have h1 : Good (if runforever_g2 s.mood 0 0 0 s.stopping false = true then
        semit .stopping { s with stopping := true, stopGroups := (sortedGroups s).map (·.1) } else s) := by
      split
      · exact good_semit _ _ (good_frame hg rfl rfl rfl rfl)
      · exact hg
    split
    · exact stopAll_good _ _ h1
    · exact h1
  · exact hg

theorem shutdownPhase2_good (s : Sup) (hg : Good s) : Good (shutdownPhase2 s) := by
  unfold shutdownPhase2
  apply good_sguard _ _ hg
  intro _ _
  try dsimp only
  split
  · split
    · exact hg
    · split
      · exact good_frame hg rfl rfl rfl rfl
      · exact hg
  · exact hg

theorem handleSignal_good (s : Sup) (hg : Good s) : Good (handleSignal s) := by
  unfold handleSignal
  apply good_sguard _ _ hg
  intro _ _
  try dsimp only
  split
  · exact hg
  · exact good_frame hg rfl rfl rfl rfl

/-! ### reaping -/

theorem finishCore_clears_pid (cfg : Cfg) (e : Proc.Env) (busy : Bool) (p : Proc) (os : List Out) :
    (finishCore cfg e busy { p := p, outs := os }).err = none → (finishCore cfg e busy { p := p, outs := os }).p.pid = 0 := by
  cases hs : p.state <;> cases busy <;> cases hk : p.killing <;> cases ht : e.tooQuickly <;> cases hx : e.exitExpected <;>
    simp [procdefs, hs, hk, ht, hx]

theorem finish_clears_pid (cfg : Cfg) (now es : Int) (busy : Bool) (p : Proc) (os : List Out)
    (hok : (finish cfg now es busy { p := p, outs := os }).err = none) :
    (finish cfg now es busy { p := p, outs := os }).p.pid = 0 := by
  simp only [finish, guard, setP, Option.isSome_none, Bool.false_eq_true, if_false] at hok ⊢
  exact finishCore_clears_pid _ _ _ _ _ hok

theorem delHist_eq (pid : Int) (s : Sup) (he : s.err = none) (hx : s.exited = false) :
    delHist pid s = { s with pidhist := s.pidhist.filter (·.1 != pid) } := by
  simp [delHist, sguard, he, hx]

theorem delHist_good {s : Sup} {pid : Int} (he : s.err = none) (hx : s.exited = false)
    (h : SInvC s.procs s.dormant (s.pidhist.filter (·.1 != pid))) : Good (delHist pid s) := by
  rw [delHist_eq _ _ he hx]
  exact ⟨h, by simp [he]⟩

theorem isLive_true {ps : List PE} {name gen : Nat} (h : isLive ps name gen = true) :
    ∃ e, findPE ps name = some e ∧ e.gen = gen := by
  unfold isLive at h
  split at h
  · rename_i e he; exact ⟨e, he, by simpa using h⟩
  · simp at h

/-- `finish()` for the process object `pidhistory` names, then `del pidhistory[pid]` -/
theorem reapOne_good (pid es : Int) (name gen : Nat) (s : Sup) (hg : Good s) (he : s.err = none) (hx : s.exited = false)
    (hl : s.pidhist.lookup pid = some (name, gen)) : Good (reapOne pid es name gen s) := by
  unfold reapOne
  cases hlive : isLive s.procs name gen
  · simp only [Bool.false_eq_true, if_false]
    rw [delHist_eq _ _ he hx]
    exact ⟨sinv_orphan hg.1 hl hlive, by simp [he]⟩
  · simp only [if_true]
    obtain ⟨e, hfe, hgen⟩ := isLive_true hlive
    obtain ⟨hem, hen⟩ := findPE_some_mem hfe
    have hpid := hg.1.conv pid name gen hl e hem hen hgen
    have hnz : pid ≠ 0 := by intro h0; rw [h0, hg.1.nz] at hl; simp at hl
    have hi := hg.1.inv e hem
    have hok := finish_ok [] e.cfg e.p s.env.now es false hi (hpid ▸ hnz) (hg.1.cfgok e (List.mem_append_left _ hem))
    have hfk : forks (finish e.cfg s.env.now es false { p := e.p }).outs = [] := finish_noFork _ _ _ _ _
    rw [onProc_eq _ _ s e he hx hfe, hfk, hok]
    simp only [List.foldl_nil, Option.isSome_none, Bool.false_eq_true, if_false]
    apply delHist_good
    · rfl
    · exact hx
    subst hgen
    exact sinv_reap hg.1 hfe (finish_inv _ _ _ _ _ hi) hl (finish_clears_pid _ _ _ _ _ _ hok)

theorem reapLoop_good (ws : List (Int × Int)) : ∀ (k : Int) (s : Sup), Good s → Good (reapLoop k ws s) := by
  induction ws with
  | nil => intro k s h; exact h
  | cons w ws ih =>
    intro k s hg
    obtain ⟨pid, es⟩ := w
    rw [reapLoop]
    apply good_sguard _ _ hg
    intro he hx
    try dsimp only
    split
    · exact hg
    · split
      · exact hg
      · split
        · exact ih _ _ (good_semit _ _ hg)
        · rename_i n g hl
          exact ih _ _ (reapOne_good pid es n g s hg he hx hl)

theorem reap_good (s : Sup) (hg : Good s) : Good (reap s) := by
  unfold reap
  apply good_sguard _ _ hg
  intro _ _
  try dsimp only
  split
  · exact good_envExhausted hg
  · exact reapLoop_good _ _ _ (good_frame hg rfl rfl rfl rfl)

end Sv.Sup
