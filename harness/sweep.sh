#!/bin/bash
# usage: sweep.sh quick|thorough seed...     runs all 20 checks, prints one line each; exit 1 if any is not OK
cd /verif
tier=$1; shift
bad=0
for s in "$@"; do
  for i in $(seq -w 1 20); do
    c=C$i
    out=$(VERIF_SEED=$s /usr/bin/time -f "%e s %M KB" ./check $c --tier $tier 2>&1)
    rc=$?
    line=$(echo "$out" | grep -E "^(OK|VIOLATION|INFRA|TIMEOUT)" | tail -1 | cut -c1-140)
    res=$(echo "$out" | tail -1)
    echo "$c seed=$s rc=$rc | $line | $res"
    [ "$(echo "$out" | grep -c '^VIOLATION')" != "0" ] && bad=1
    [ $rc != 0 ] && bad=1
  done
done
exit $bad
