import SupervisorModel.Model.ProcOps
import SupervisorModel.Lemmas.ProcDefs
import SupervisorModel.Lemmas.ProcChain
import SupervisorModel.Lemmas.SupChain
import SupervisorModel.Lemmas.SupNoAns
/-
  C01 — process state changes follow the documented lifecycle graph; UNKNOWN is entered only
  when delivering a signal failed; every change is announced by exactly one PROCESS_STATE
  notification naming the state left.

  The observer (`edge`, `intoUnknown`, `replay`), the relation `Chain` and the per-method lemmas
  (`transition_chain`, `finish_chain`, …) are in Lemmas/ProcChain.lean (same namespace); the walk
  over the pieces of a main-loop pass is in Lemmas/SupChain.lean (and Lemmas/SupNoAns.lean: the record
  never holds an unconsumed per-process RPC answer).  Here: one operation, every
  history of one process (`step_chain`, `history_chain`), and the lift to every run of the daemon
  (`pass_chain`, `passes_chain`, `passes_chain_init`, objects created by `addProcessGroup`).
-/
set_option linter.unusedSimpArgs false
namespace Sv.Props.C01
open Sv Sv.Proc Sv.Gen.Proc

theorem states_are_documented : processStates = documentedStates ∧ processStates.length = 8 := by decide

/-- every state has a notification class: no change can be silent -/
theorem every_state_announced : ∀ s : PS, announces s = true := announces_all

/-- **One operation.**  Whatever the process state, configuration, clock reading, daemon mood and
    environment answers, the notifications emitted by one operation name, one after the other, the
    state left, follow documented edges (or the signalling-failure edge into UNKNOWN), and end in
    the state the process is then reported in.  No invariant is needed: the assertions in the code
    turn every other situation into an exception that changes nothing. -/
theorem step_chain (cfg : Cfg) (p : Proc) (op : Op) :
    replay p.state (stepP cfg p op).outs = some (stepP cfg p op).p.state := by
  have h : Chain { p := p } (step cfg op { p := p }) := by
    cases op <;> simp only [step]
    · exact transition_chain ..
    · exact finish_chain ..
    · exact rpcStart_chain ..
    · exact rpcStop_chain ..
    · exact rpcSignal_chain ..
    · exact groupStop_chain ..
    · exact stopReport_chain ..
  simpa [Chain, stepP] using h.2

/-- **Every history.**  For every operation sequence from every starting state, an observer that
    replays the PROCESS_STATE notifications is never misled and always knows the reported state:
    every change is an edge of the documented graph (UNKNOWN only through the signalling-failure
    edge), is announced by exactly one notification naming the state left, and nothing changes
    silently. -/
theorem history_chain (cfg : Cfg) (ops : List Op) (h : Hist) (st : PS)
    (h0 : replay st h.outs = some h.p.state) :
    replay st (run cfg h ops).outs = some (run cfg h ops).p.state := by
  induction ops generalizing h with
  | nil => simpa [run] using h0
  | cons op ops ih =>
    simp only [run]
    apply ih
    simp only [replay_append, h0, Option.bind_some]
    exact step_chain cfg h.p op

theorem history_from_init (cfg : Cfg) (ops : List Op) :
    replay .stopped (run cfg { p := {} } ops).outs = some (run cfg { p := {} } ops).p.state :=
  history_chain cfg ops { p := {} } .stopped (by simp [replay])

/-- the signal-delivery result of an operation (`ok` when the operation delivers none) -/
def killResOf : Op → KillRes
  | .transition _ _ _ kr => kr
  | .rpcStop _ _ kr => kr
  | .rpcSignal _ _ _ kr => kr
  | .groupStop _ kr => kr
  | _ => .ok

def entersUnknown (outs : List Out) : Bool := outs.any (fun o => match o with | .ev .unknown .. => true | _ => false)

/-- `s'` adds no notification of UNKNOWN to `s` -/
def NoUnk (s s' : S) : Prop := s.outs <+: s'.outs ∧ entersUnknown (s'.outs.drop s.outs.length) = false

theorem noUnk_refl (s : S) : NoUnk s s := by simp [NoUnk, entersUnknown]

theorem noUnk_trans {a b c : S} (h1 : NoUnk a b) (h2 : NoUnk b c) : NoUnk a c := by
  obtain ⟨⟨x, hx⟩, r1⟩ := h1
  obtain ⟨⟨y, hy⟩, r2⟩ := h2
  have e1 : b.outs.drop a.outs.length = x := by rw [← hx]; simp
  have e2 : c.outs.drop b.outs.length = y := by rw [← hy]; simp
  have e3 : c.outs.drop a.outs.length = x ++ y := by rw [← hy, ← hx, List.append_assoc]; simp
  rw [e1] at r1
  rw [e2] at r2
  refine ⟨⟨x ++ y, by rw [← hy, ← hx, List.append_assoc]⟩, ?_⟩
  rw [e3]
  simp [entersUnknown] at r1 r2 ⊢
  exact ⟨r1, r2⟩

theorem changeState_noUnk (cfg : Cfg) (now : Int) (new : PS) (ex : Bool) (hn : new ≠ .unknown) (s : S) :
    NoUnk s (changeState cfg now new ex s) := by
  obtain ⟨p, os, err⟩ := s
  cases err with
  | some e => simp [changeState, guard, NoUnk, entersUnknown]
  | none =>
    by_cases h : new = p.state <;> cases new <;>
      simp_all [changeState, guard, emit, NoUnk, entersUnknown, change_state_g0, change_state_g1, change_state_a0, change_state_a2]

theorem setP_noUnk (f : Proc → Proc) (s : S) : NoUnk s (setP f s) := by
  obtain ⟨p, os, err⟩ := s
  cases err <;> simp [NoUnk, setP, guard, entersUnknown]

theorem assertIn_noUnk (l : List PS) (s : S) : NoUnk s (assertIn l s) := by
  obtain ⟨p, os, err⟩ := s
  cases err with
  | some e => simp [NoUnk, assertIn, guard, entersUnknown]
  | none => simp only [assertIn, guard]; split <;> simp [NoUnk, entersUnknown] <;> split <;> simp

theorem emit_noUnk (o : Out) (ho : isEv o = false) (s : S) : NoUnk s (emit o s) := by
  obtain ⟨p, os, err⟩ := s
  cases err with
  | some e => simp [NoUnk, emit, guard, entersUnknown]
  | none => cases o <;> simp_all [NoUnk, emit, guard, entersUnknown, isEv]

/-- **UNKNOWN only on signalling failure** (method level): `kill()` and `signal()` announce UNKNOWN
    only when delivery failed for another reason than the child being gone, and then immediately
    after the delivery attempt; a child that is already gone (ESRCH) changes nothing. -/
theorem kill_unknown_iff (cfg : Cfg) (p : Proc) (now sig : Int) (kr : KillRes) :
    entersUnknown (kill cfg now sig kr { p := p }).outs = true →
      kr = .fail ∧ ∃ t pid tr ex frm, (kill cfg now sig kr { p := p }).outs.reverse.take 2 = [.ev .unknown frm pid tr ex, .kill t sig] := by
  cases hs : p.state <;> cases kr <;> by_cases hp : p.pid = 0 <;>
    simp [kill, changeState, assertIn, emit, setP, guard, entersUnknown, hs, hp,
      kill_g0, kill_g1, kill_g2, kill_g4, kill_a7, kill_a8, kill_a11, kill_a12, kill_a13, kill_a14, kill_a19, kill_a20,
      kill_c0_0, kill_c1, kill_c2_0, kill_c3_0, kill_c3_1, kill_c4_0, change_state_g0, change_state_g1, change_state_a0,
      change_state_a2, change_state_a4, change_state_a5, announces_all]

theorem signal_unknown_iff (cfg : Cfg) (p : Proc) (now sig : Int) (kr : KillRes) :
    entersUnknown (signal cfg now sig kr { p := p }).outs = true →
      kr = .fail ∧ ∃ t pid tr ex frm, (signal cfg now sig kr { p := p }).outs.reverse.take 2 = [.ev .unknown frm pid tr ex, .kill t sig] := by
  cases hs : p.state <;> cases kr <;> by_cases hp : p.pid = 0 <;>
    simp [signal, changeState, assertIn, emit, setP, guard, entersUnknown, hs, hp,
      signal_g0, signal_c0, signal_c1_0, signal_c1_1, signal_c2_0, change_state_g0, change_state_g1, change_state_a0,
      change_state_a2, change_state_a4, change_state_a5, announces_all]

-- non-vacuity: concrete histories (a start that reaches RUNNING, exits, is restarted; a failed delivery)
def cfgX : Cfg where
  startsecs := 1024
  startretries := 3
  autostart := true
  autorestart := .unexpected
  exitcodes := [0]
  stopsignal := 15
  stopwaitsecs := 10240
  stopasgroup := false
  killasgroup := false
def opsX : List Op := [.transition 1024000 1 (.ok 7) .ok, .transition 1026000 1 (.ok 8) .ok, .reap 1030000 3 false,
  .transition 1030100 1 (.ok 9) .ok, .rpcStop 1030200 1 .fail]
example : (run cfgX { p := {} } opsX).p.state = .unknown := by decide +kernel
example : ((run cfgX { p := {} } opsX).outs.filter isEv).length = 6 := by decide +kernel

/-! ### the daemon: every pass, every run -/
section Daemon
open Sv.Sup

/-- **One pass of the main loop, no invariant needed.**  For every daemon state `s` (any record, any
    bookkeeping, erroneous or not), every environment `env` (clock, spawn / signal-delivery / waitpid
    answers, signal, RPCs) and every name `n` under which the process table holds an object `e`: if
    the pass contains no `removeProcessGroup` of `e`'s group, then after the pass the table holds the
    same object under `n` (same incarnation `gen`), the PROCESS_STATE notifications recorded for `n`
    (`procEvs n`) were extended by some `x` — nothing recorded earlier was changed —, and `x` names one
    after the other the state left, follows documented edges (UNKNOWN only through the
    signalling-failure edge) and ends in the state the object is then in: `replay` from the old state
    over `x` yields the new state.  (`removeGroup` of the own group deletes the object; it requires all
    members stopped and announces nothing, see `removeGroup_silent`, `removeGroup_stopped`.) -/
theorem pass_chain_find (env : Sv.Sup.Env) (s : Sup) (n : Nat) (e : PE) (he : findPE s.procs n = some e)
    (hrm : ∀ id, Rpc.removeGroup id e.gid ∉ env.rpcs) :
    ∃ e' x, findPE (pass env s).procs n = some e' ∧ e'.gen = e.gen ∧
      procEvs n (pass env s).outs = procEvs n s.outs ++ x ∧ replay e.p.state x = some e'.p.state := by
  obtain ⟨e', x, h1, h2, _, h3, h4⟩ :=
    (pc_pass (n := n) env (notRemove_of_not_mem hrm) s (PC.refl s)).ch e he rfl
  exact ⟨e', x, h1, h2, h3, h4⟩

/-- **Every run, no invariant needed**: `pass_chain_find` over any number of passes (`envs`: one
    environment per pass), provided no pass removes the object's group. -/
theorem passes_chain_find (envs : List Sv.Sup.Env) (s : Sup) (n : Nat) (e : PE) (he : findPE s.procs n = some e)
    (hrm : ∀ env ∈ envs, ∀ id, Rpc.removeGroup id e.gid ∉ env.rpcs) :
    ∃ e' x, findPE (passes envs s).procs n = some e' ∧ e'.gen = e.gen ∧
      procEvs n (passes envs s).outs = procEvs n s.outs ++ x ∧ replay e.p.state x = some e'.p.state := by
  obtain ⟨e', x, h1, h2, _, h3, h4⟩ :=
    (pc_passes (n := n) envs (fun env henv => notRemove_of_not_mem (hrm env henv)) s (PC.refl s)).ch e he rfl
  exact ⟨e', x, h1, h2, h3, h4⟩

/-- **One pass, in the observer's terms.**  `s` satisfies the daemon invariant `Good` (it holds at
    every main-loop boundary of every run: `passes_good`, `init_good`; used here only for "names are
    distinct", before and after the pass) and its record holds no unconsumed per-process RPC answer
    (`NoAns`: true of the empty record; `stopProcess`/`signalProcess` delete such answers from the
    *whole* record, so without it `drop s.outs.length` would not be "the new part").  For every process
    `e` of `s` whose group is not removed by an RPC of this pass, and every entry `e'` of the table
    after the pass with the same name: it is the same object (`gen`), the old record is a prefix of
    the new one, and the outputs recorded for it during the pass replay from the state it had to the
    state it has: each notification names the state left, is a documented edge (UNKNOWN only through
    the signalling-failure edge), and the last one names the state the process is then in. -/
theorem pass_chain (env : Sv.Sup.Env) (s : Sup) (hg : Good s) (hna : NoAns s.outs) (e : PE) (he : e ∈ s.procs)
    (hrm : ∀ id, Rpc.removeGroup id e.gid ∉ env.rpcs) (e' : PE) (he' : e' ∈ (pass env s).procs)
    (hn : e'.name = e.name) :
    e'.gen = e.gen ∧ s.outs <+: (pass env s).outs ∧
    replay e.p.state (procOuts e.name ((pass env s).outs.drop s.outs.length)) = some e'.p.state := by
  have hf := findPE_of_mem hg.1.nodupP he
  have hf' := findPE_of_mem (pass_good env s hg).1.nodupP he'
  obtain ⟨hp, e'', h1, h2, h3⟩ :=
    (pc_pass (n := e.name) env (notRemove_of_not_mem hrm) s (PC.refl s)).drop hna hf rfl
  rw [hn, h1] at hf'
  cases hf'
  exact ⟨h2, hp, h3⟩

/-- **Every run, in the observer's terms**: as `pass_chain`, over any number of passes none of which
    removes the object's group. -/
theorem passes_chain (envs : List Sv.Sup.Env) (s : Sup) (hg : Good s) (hna : NoAns s.outs) (e : PE) (he : e ∈ s.procs)
    (hrm : ∀ env ∈ envs, ∀ id, Rpc.removeGroup id e.gid ∉ env.rpcs) (e' : PE) (he' : e' ∈ (passes envs s).procs)
    (hn : e'.name = e.name) :
    e'.gen = e.gen ∧ s.outs <+: (passes envs s).outs ∧
    replay e.p.state (procOuts e.name ((passes envs s).outs.drop s.outs.length)) = some e'.p.state := by
  have hf := findPE_of_mem hg.1.nodupP he
  have hf' := findPE_of_mem (passes_good envs s hg).1.nodupP he'
  obtain ⟨hp, e'', h1, h2, h3⟩ :=
    (pc_passes (n := e.name) envs (fun env henv => notRemove_of_not_mem (hrm env henv)) s (PC.refl s)).drop hna hf rfl
  rw [hn, h1] at hf'
  cases hf'
  exact ⟨h2, hp, h3⟩

/-- **From the start of the daemon.**  The daemon starts with an empty record and its processes in
    STOPPED.  After any run in which the group of `e` is not removed, an observer that replays
    everything recorded for `e`'s name from STOPPED is never misled and knows the state the process
    is in: every change of every such process, whatever the RPCs, signals, spawn and kill outcomes and
    exit statuses, is a documented edge (UNKNOWN only through the signalling-failure edge) and is
    announced by exactly one notification naming the state left. -/
theorem passes_chain_init (envs : List Sv.Sup.Env) (s0 : Sup) (hg : Good s0) (ho : s0.outs = []) (e : PE) (he : e ∈ s0.procs)
    (hst : e.p.state = .stopped)
    (hrm : ∀ env ∈ envs, ∀ id, Rpc.removeGroup id e.gid ∉ env.rpcs) (e' : PE) (he' : e' ∈ (passes envs s0).procs)
    (hn : e'.name = e.name) :
    e'.gen = e.gen ∧ replay .stopped (procOuts e.name (passes envs s0).outs) = some e'.p.state := by
  obtain ⟨h1, _, h3⟩ := passes_chain envs s0 hg (by rw [ho]; intro o h; simp at h) e he hrm e' he' hn
  rw [ho, hst] at h3
  exact ⟨h1, by simpa using h3⟩

/-- **The record never holds an unconsumed per-process RPC answer** (`NoAns`, the hypothesis of
    `pass_chain`): one pass keeps it, so it holds at every main-loop boundary of every run that starts
    with an empty record. -/
theorem pass_noAns (env : Sv.Sup.Env) (s : Sup) (h : NoAns s.outs) : NoAns (pass env s).outs := na_pass env s h

theorem passes_noAns (envs : List Sv.Sup.Env) (s : Sup) (h : NoAns s.outs) : NoAns (passes envs s).outs := na_passes envs s h

/-- **At every main-loop boundary of every run from a start state** (`Good s0`, empty record; see
    `init_good`), whatever happened before (`envs`): the next pass `env` satisfies `pass_chain` — both of
    its hypotheses are invariants of the run. -/
theorem run_pass_chain (envs : List Sv.Sup.Env) (env : Sv.Sup.Env) (s0 : Sup) (hg : Good s0) (ho : s0.outs = [])
    (e : PE) (he : e ∈ (passes envs s0).procs) (hrm : ∀ id, Rpc.removeGroup id e.gid ∉ env.rpcs) (e' : PE)
    (he' : e' ∈ (pass env (passes envs s0)).procs) (hn : e'.name = e.name) :
    e'.gen = e.gen ∧ (passes envs s0).outs <+: (pass env (passes envs s0)).outs ∧
    replay e.p.state (procOuts e.name ((pass env (passes envs s0)).outs.drop (passes envs s0).outs.length)) =
      some e'.p.state :=
  pass_chain env _ (passes_good envs s0 hg) (passes_noAns envs s0 (by rw [ho]; intro o h; simp at h)) e he hrm e' he' hn

/-- **`removeProcessGroup` announces nothing** for any process name … -/
theorem removeGroup_silent (id g : Nat) (s : Sup) (n : Nat) :
    procEvs n (rpcGuarded (.removeGroup id g) s).outs = procEvs n s.outs := Sv.Sup.removeGroup_silent id g s n

/-- **… and deletes only members of the named group, all of them in a stopped state** (STOPPED, EXITED,
    FATAL or UNKNOWN): the object that `pass_chain` loses sight of when its group is removed was
    stopped and stays silent. -/
theorem removeGroup_stopped (id g : Nat) (s : Sup) (e : PE) (he : e ∈ s.procs)
    (h : e ∉ (rpcGuarded (.removeGroup id g) s).procs) : e.gid = g ∧ e.p.state ∈ stoppedStates :=
  Sv.Sup.removeGroup_stopped id g s e he h

/-- **An object created during a pass starts in STOPPED.**  `env.rpcs = pre ++ addGroup id g :: post`;
    `afterRpcs env pre s` is the state of the pass right before that RPC.  If the name `n` is not in
    the process table there and is in it right after the RPC (entry `e2` — a fresh object: also when
    the same group was removed earlier in this pass, `gen` is then one more than the old object's),
    then `e2` is in STOPPED, the RPC announced nothing for `n`, and — if `post` does not remove the
    group `g` again — the table after the pass holds that object and the notifications recorded for
    `n` since the RPC replay from STOPPED to its state.  (The old object's notifications are under the
    same name, before the RPC; they are not part of `x`.) -/
theorem pass_chain_born (env : Sv.Sup.Env) (s : Sup) (pre post : List Rpc) (id g : Nat)
    (hrpcs : env.rpcs = pre ++ Rpc.addGroup id g :: post) (hpost : ∀ i, Rpc.removeGroup i g ∉ post) (n : Nat) (e2 : PE)
    (h1 : findPE (afterRpcs env pre s).procs n = none)
    (h2 : findPE (afterRpcs env (pre ++ [Rpc.addGroup id g]) s).procs n = some e2) :
    e2.p.state = .stopped ∧
    procEvs n (afterRpcs env (pre ++ [Rpc.addGroup id g]) s).outs = procEvs n (afterRpcs env pre s).outs ∧
    ∃ e' x, findPE (pass env s).procs n = some e' ∧ e'.gen = e2.gen ∧
      procEvs n (pass env s).outs = procEvs n (afterRpcs env pre s).outs ++ x ∧ replay .stopped x = some e'.p.state := by
  obtain ⟨hst, hgid, hevs, hpc⟩ := pass_born env s pre post id g hrpcs (notRemove_of_not_mem hpost) h1 h2
  refine ⟨hst, hevs, ?_⟩
  obtain ⟨e', x, a, b, _, c, d⟩ := hpc.ch e2 h2 hgid
  exact ⟨e', x, a, b, by rw [c, hevs], by rw [← hst]; exact d⟩

/-- **… and in every later pass**: the object created in the pass `env` (as in `pass_chain_born`; `s` is
    any state, e.g. `passes envs0 s0`) is followed through the later passes `envs`, none of which
    removes the group: everything recorded for its name since it was created replays from STOPPED
    to the state it is in. -/
theorem passes_chain_born (env : Sv.Sup.Env) (envs : List Sv.Sup.Env) (s : Sup) (pre post : List Rpc) (id g : Nat)
    (hrpcs : env.rpcs = pre ++ Rpc.addGroup id g :: post) (hpost : ∀ i, Rpc.removeGroup i g ∉ post)
    (hrm : ∀ env' ∈ envs, ∀ i, Rpc.removeGroup i g ∉ env'.rpcs) (n : Nat) (e2 : PE)
    (h1 : findPE (afterRpcs env pre s).procs n = none)
    (h2 : findPE (afterRpcs env (pre ++ [Rpc.addGroup id g]) s).procs n = some e2) :
    ∃ e' x, findPE (passes (env :: envs) s).procs n = some e' ∧ e'.gen = e2.gen ∧
      procEvs n (passes (env :: envs) s).outs = procEvs n (afterRpcs env pre s).outs ++ x ∧
      replay .stopped x = some e'.p.state := by
  obtain ⟨hst, hgid, hevs, hpc⟩ := pass_born env s pre post id g hrpcs (notRemove_of_not_mem hpost) h1 h2
  have hpc' := pc_passes (n := n) envs (fun env' henv => notRemove_of_not_mem (hrm env' henv)) _ hpc
  obtain ⟨e', x, a, b, _, c, d⟩ := hpc'.ch e2 h2 hgid
  exact ⟨e', x, a, b, by rw [passes_cons, c, hevs], by rw [← hst]; exact d⟩

-- non-vacuity: two processes in two groups and a dormant third group; pass A starts both; pass B makes
-- process 1 RUNNING, stops process 2 (RPC; its child is reaped by the reap() inside the later
-- startProcess), adds group 30 and starts its process 3
def supX : Sup := { procs := [{ name := 1, gid := 10, gprio := 999, prio := 999, cfg := cfgX },
                              { name := 2, gid := 20, gprio := 999, prio := 999, cfg := cfgX }],
                    dormant := [{ name := 3, gid := 30, gprio := 999, prio := 999, cfg := cfgX }] }
def envA : Sv.Sup.Env := { now := 1024000, spawns := [.ok 7, .ok 8], waits := [[]] }
def envB : Sv.Sup.Env where
  now := 1026000
  kills := [.ok]
  spawns := [.ok 9]
  waits := [[], [(8, 0)], []]
  rpcs := [.stop 5 2 false, .addGroup 6 30, .start 7 3 false false]
example : (passes [envA, envB] supX).err = none := by decide +kernel
example : (passes [envA, envB] supX).procs.map (fun e => (e.name, e.gen, e.p.state)) =
    [(1, 0, .running), (2, 0, .stopped), (3, 1, .starting)] := by decide +kernel
example : (procEvs 1 (passes [envA, envB] supX).outs).length = 2 ∧ (procEvs 2 (passes [envA, envB] supX).outs).length = 3 ∧
    (procEvs 3 (passes [envA, envB] supX).outs).length = 1 := by decide +kernel
example : replay .stopped (procOuts 2 (passes [envA, envB] supX).outs) = some .stopped := by decide +kernel
theorem supX_good : Good supX := init_good _ _ (by decide) (by intro e he; simp [supX] at he; rcases he with rfl | rfl <;> rfl)
  (by intro e he; simp [supX] at he; rcases he with rfl | rfl | rfl <;> decide)
theorem noRemove20 : ∀ env ∈ [envA, envB], ∀ id, Rpc.removeGroup id 20 ∉ env.rpcs := by
  intro env he id; simp at he; rcases he with rfl | rfl <;> simp [envA, envB]
-- `passes_chain_init` applies to this run: all its hypotheses hold for process 2
example (e' : PE) (he' : e' ∈ (passes [envA, envB] supX).procs) (hn : e'.name = 2) :
    e'.gen = 0 ∧ replay .stopped (procOuts 2 (passes [envA, envB] supX).outs) = some e'.p.state :=
  passes_chain_init [envA, envB] supX supX_good rfl { name := 2, gid := 20, gprio := 999, prio := 999, cfg := cfgX }
    (by simp [supX]) rfl noRemove20 e' he' hn
-- the created object: name 3 is absent before the `addGroup` of pass B and present (incarnation 1) after it
example : (findPE (afterRpcs envB [.stop 5 2 false] (pass envA supX)).procs 3).isNone = true := by decide +kernel
example : (findPE (afterRpcs envB ([.stop 5 2 false] ++ [.addGroup 6 30]) (pass envA supX)).procs 3).map (·.gen) = some 1 := by
  decide +kernel

end Daemon

end Sv.Props.C01
